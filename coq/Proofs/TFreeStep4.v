(* Preservation, part 4: _mi_page_free, mi_heap_collect, mi_heap_delete. *)
From Coq Require Import NArith List Bool Lia Arith.
From MiV Require Import Model.TFree Proofs.TFreeBase Proofs.TFreeInv Proofs.TFreeGen Proofs.TFreeTop Proofs.TFreeStep
  Proofs.TFreeStep2 Proofs.TFreeStep3 Proofs.TFreeKill.
Import ListNotations.
Local Open Scope N_scope.

(* what is below a page-free frame *)
Lemma pf_rest p rest : stk_ok (PF p :: rest) = true -> forall f, In f rest -> forall q, fr_touch_pg q f = false.
Proof.
  intros H. pose proof (stk_ok_tail _ _ H) as H2. cbn [stk_ok] in H. apply andb_prop in H as [H1 _].
  destruct rest as [|g rest']; [intros f []|]. destruct g; try discriminate H1.
  - (* DP3 *) destruct (dp_rest (DP3 h pend af) h rest' eq_refl H2) as [->|[(r' & -> & [->|[(fo & ->)| ->]])|(bk & ->)]];
      intros f Hin q; cbn [In] in Hin; repeat destruct Hin as [Hin|Hin]; subst; try contradiction; reflexivity.
  - (* HC3 *) destruct rest'; [|cbn in H2; discriminate H2].
    intros f [<-|[]] q. reflexivity.
Qed.

Lemma step_PF c t p rest alt : Inv c -> th_stk (gett c t) = PF p :: rest ->
  good (fstep c t (gett c t) (PF p) rest alt).
Proof.
  intros I E. cbn [fstep].
  destruct (stack_facts c t _ _ I E) as (S1 & S2 & S3 & S4).
  cbn [fr_ok] in S2. apply andb_prop in S2 as [Hown Hu]. apply N.eqb_eq in Hu.
  rewrite Hown. cbn [negb]. rewrite Hu. cbn [N.eqb negb].
  pose proof (stk_ok_tail _ _ S1) as S1'.
  (* first pop the frame, then clear the page *)
  assert (I2 : Inv (sett c t (th_set (gett c t) ([] ++ rest) (th_ret (gett c t))))).
  { apply (step_top c t (PF p) rest [] (th_ret (gett c t))); auto; top_side.
    - left. cbn [d1_stk d1_fr app]. destruct rest as [|g rest']; [cbn; lia|].
      cbn [stk_ok] in S1. apply andb_prop in S1 as [S1a _]. destruct g; try discriminate S1a; cbn; lia.
    - destruct rest as [|g rest']; [cbn; discriminate|].
      cbn [stk_ok] in S1. apply andb_prop in S1 as [S1a _]. destruct g; try discriminate S1a; cbn; intros Q; left; exact Q. }
  cbn [app] in I2. set (c2 := sett c t (th_set (gett c t) rest (th_ret (gett c t)))) in *.
  destruct (kill_page c2 p t I2) as (K1 & K2 & K3).
  - exact Hown.
  - exact Hu.
  - unfold c2. rewrite gett_sett, N.eqb_refl. cbn [th_stk th_set]. intros f Hf. apply (pf_rest p rest S1 f Hf).
  - change (getp c2 p) with (getp c p) in K1, K2.
    apply flag_eqb_neq in K1. rewrite K1, K2. cbn [isnil negb]. unfold ok_s, ok_t, good. exact K3.
Qed.

(* ---- mi_heap_collect ---- *)
Lemma pages_of_In c t h q : wf c ->
  (In q (pages_of c t h) <-> own (getp c q) t = true /\ pg_heap (getp c q) = Some h).
Proof.
  intros Hwf. pose proof (wf_parts c Hwf) as (_ & Hn & _). unfold pages_of. rewrite in_map_iff. split.
  - intros [[k v] [Hk Hin]]. cbn in Hk. subst k. apply filter_In in Hin as [Hin Hf]. cbn in Hf.
    unfold getp. rewrite (fget_In pg0 _ q v Hn Hin). apply andb_prop in Hf as [H1 H2]. apply oN_eqb_eq in H2. auto.
  - intros [Ho Hh]. exists (q, getp c q). split; [reflexivity|]. apply filter_In. split.
    + unfold getp. apply fget_not_default. intros Eq. fold (getp c q) in Eq. rewrite Eq in Ho. discriminate.
    + cbn. rewrite Ho, Hh, oN_eqb_refl. reflexivity.
Qed.

Lemma bottom_alone (f : frame) rest : stk_ok (f :: rest) = true ->
  match f with HC2 _ _ | HC3 _ _ _ | HC4 _ _ _ _ | HD2 _ _ | HD3 _ _ _ | HD4 _ => rest = [] | _ => True end.
Proof. destruct f; auto; destruct rest; auto; cbn; discriminate. Qed.

Lemma step_HC2 c t h force rest alt : Inv c -> th_stk (gett c t) = HC2 h force :: rest ->
  good (fstep c t (gett c t) (HC2 h force) rest alt).
Proof.
  intros I E. cbn [fstep]. unfold ok_s, ok_t, good.
  destruct (stack_facts c t _ _ I E) as (S1 & S2 & S3 & S4).
  pose proof (bottom_alone _ _ S1) as Hr. cbn in Hr. subst rest.
  apply (step_top c t (HC2 h force) [] [HC3 h force _]); auto; top_side.
  cbn [fr_ok] in S2. rewrite S2. reflexivity.
Qed.

Lemma step_HC3 c t h force ps rest alt : Inv c -> th_stk (gett c t) = HC3 h force ps :: rest ->
  good (fstep c t (gett c t) (HC3 h force ps) rest alt).
Proof.
  intros I E. cbn [fstep].
  destruct (stack_facts c t _ _ I E) as (S1 & S2 & S3 & S4).
  pose proof (bottom_alone _ _ S1) as Hr. cbn in Hr. subst rest.
  cbn [fr_ok] in S2.
  destruct ps as [|p ps']; unfold ok_s, ok_t, good.
  - apply (step_top c t (HC3 h force []) [] [] (th_ret (gett c t))); auto; top_side.
  - destruct alt.
    { (* another page first *)
      apply (step_top c t (HC3 h force (p :: ps')) [] [HC3 h force (ps' ++ [p])]); auto; top_side.
      rewrite S2. reflexivity. }
    destruct (own (getp c p) t && oN_eqb (pg_heap (getp c p)) (Some h)) eqn:Eo.
    + apply andb_prop in Eo as [Eo _].
      apply (step_top c t (HC3 h force (p :: ps')) [] [FC1 p force; HC4 h force p ps']); auto; top_side.
      * cbn. rewrite N.eqb_refl. destruct force; reflexivity.
      * rewrite Eo, S2. reflexivity.
    + apply (step_top c t (HC3 h force (p :: ps')) [] [HC3 h force ps']); auto; top_side.
      rewrite S2. reflexivity.
Qed.

Lemma step_HC4 c t h force p ps rest alt : Inv c -> th_stk (gett c t) = HC4 h force p ps :: rest ->
  good (fstep c t (gett c t) (HC4 h force p ps) rest alt).
Proof.
  intros I E. cbn [fstep].
  destruct (stack_facts c t _ _ I E) as (S1 & S2 & S3 & S4).
  pose proof (bottom_alone _ _ S1) as Hr. cbn in Hr. subst rest.
  cbn [fr_ok] in S2. apply andb_prop in S2 as [Hown Hho]. rewrite Hown. cbn [negb].
  destruct (pg_used (getp c p) =? 0) eqn:Eu; unfold ok_s, ok_t, good.
  - apply (step_top c t (HC4 h force p ps) [] [PF p; HC3 h force ps]); auto; top_side.
    rewrite Hown, Eu, Hho. reflexivity.
  - apply (step_top c t (HC4 h force p ps) [] [HC3 h force ps]); auto; top_side.
    rewrite Hho. reflexivity.
Qed.

(* ---- mi_heap_delete ---- *)
Lemma step_HD2 c t h bk rest alt : Inv c -> th_stk (gett c t) = HD2 h bk :: rest ->
  good (fstep c t (gett c t) (HD2 h bk) rest alt).
Proof.
  intros I E. cbn [fstep]. unfold ok_s, ok_t, good.
  destruct (stack_facts c t _ _ I E) as (S1 & S2 & S3 & S4).
  pose proof (bottom_alone _ _ S1) as Hr. cbn in Hr. subst rest.
  pose proof (i_wf _ I) as Hwf.
  assert (S2' := S2). cbn [fr_ok] in S2'. apply andb_prop in S2' as [S2' Hbk]. apply andb_prop in S2' as [Ho Hnb].
  apply (step_top c t (HD2 h bk) [] [HD3 h bk (pages_of c t h)]); auto; top_side.
  - intros H. cbn. rewrite H. reflexivity.
  - rewrite Ho, Hnb, Hbk. cbn [andb]. rewrite andb_true_r. apply forallb_forall. intros q Hq.
    apply (pages_of_In c t h q Hwf) in Hq as [Hq1 Hq2]. rewrite Hq1, Hq2, oN_eqb_refl. reflexivity.
  - cbn [hd_fr_okP]. intros q Ha Hh. apply (pages_of_In c t h q Hwf). split; [|assumption].
    destruct (s_pheap _ (i_S _ I) q Ha) as [h' [H1 H2]]. rewrite Hh in H1. inversion H1; subst h'.
    apply hown_true in H2 as [_ H2]. apply hown_true in Ho as [_ Ho]. unfold own. rewrite Ha, <- H2, Ho, N.eqb_refl. reflexivity.
Qed.

Lemma step_HD3_nil c t h bk rest alt : Inv c -> th_stk (gett c t) = HD3 h bk [] :: rest ->
  good (fstep c t (gett c t) (HD3 h bk []) rest alt).
Proof.
  intros I E. cbn [fstep]. unfold ok_s, ok_t, good.
  destruct (stack_facts c t _ _ I E) as (S1 & S2 & S3 & S4).
  pose proof (bottom_alone _ _ S1) as Hr. cbn in Hr. subst rest.
  assert (S2' := S2). cbn [fr_ok] in S2'. apply andb_prop in S2' as [S2' _]. apply andb_prop in S2' as [S2' Hbk].
  apply andb_prop in S2' as [Ho Hnb].
  apply (step_top c t (HD3 h bk []) [] [DP1 h; DA h; HD4 h]); auto; top_side.
  - intros H. cbn. rewrite H, ?orb_true_r. reflexivity.
  - cbn. rewrite !N.eqb_refl. reflexivity.
  - rewrite Ho, Hnb. reflexivity.
  - cbn [hd_fr_okP]. split.
    + intros q Ha Hh. pose proof (S4 (HD3 h bk [])) as H. rewrite E in H. specialize (H (or_introl eq_refl)).
      cbn [hd_fr_okP] in H. apply (H q Ha Hh).
    + cbn. discriminate.
Qed.

Lemma step_HD3_cons c t h bk p ps rest alt : Inv c -> th_stk (gett c t) = HD3 h bk (p :: ps) :: rest ->
  good (fstep c t (gett c t) (HD3 h bk (p :: ps)) rest alt).
Proof.
  intros I E. cbn [fstep].
  destruct (stack_facts c t _ _ I E) as (S1 & S2 & S3 & S4).
  pose proof (bottom_alone _ _ S1) as Hr. cbn in Hr. subst rest.
  pose proof (i_wf _ I) as Hwf.
  assert (S2' := S2). cbn [fr_ok forallb] in S2'. apply andb_prop in S2' as [S2' Hps]. apply andb_prop in S2' as [S2' Hbk].
  apply andb_prop in S2' as [Ho Hnb]. apply andb_prop in Hps as [Hp Hps]. apply andb_prop in Hp as [Hown Hheap].
  destruct alt.
  { (* another page first: the same set of pages in another order *)
    unfold ok_s, ok_t, good.
    apply (step_top c t (HD3 h bk (p :: ps)) [] [HD3 h bk (ps ++ [p])]); auto; top_side.
    - intros H. cbn. rewrite H. reflexivity.
    - rewrite Ho, Hnb, Hbk. cbn [andb]. rewrite andb_true_r, forallb_app. cbn [forallb]. rewrite Hps, Hown, Hheap. reflexivity.
    - cbn [hd_fr_okP]. intros q Ha Hh.
      pose proof (S4 (HD3 h bk (p :: ps))) as H. rewrite E in H. specialize (H (or_introl eq_refl)). cbn [hd_fr_okP] in H.
      apply in_or_app. destruct (H q Ha Hh) as [<-|Hin]; [right; left; reflexivity|left; exact Hin]. }
  apply oN_eqb_eq in Hbk. rewrite Hown. cbn [negb]. unfold ok_s, ok_t, good.
  destruct (own_true _ _ Hown) as [Hal Htid].
  destruct (s_back _ (i_S _ I) t bk Hbk) as [Hobk Hbbk].
  assert (Hne : h <> bk) by (intros ->; rewrite Hbbk in Hnb; discriminate).
  set (pg' := pg_set_heap (getp c p) (Some bk)).
  set (th' := th_set (gett c t) (TU1 p UseD false true 0 :: HD3 h bk ps :: []) (th_ret (gett c t))).
  set (c' := sett (setp c p pg') t th').
  assert (Gt : forall t', gett c' t' = if t' =? t then th' else gett c t').
  { intros t'. unfold c'. rewrite gett_sett. reflexivity. }
  assert (Gp : forall q, getp c' q = if q =? p then pg' else getp c q).
  { intros q. unfold c'. rewrite getp_sett, getp_setp. reflexivity. }
  assert (Gh : forall q, geth c' q = geth c q) by reflexivity.
  assert (Gown : forall q u, own (getp c' q) u = own (getp c q) u).
  { intros q u. rewrite Gp. destruct (q =? p) eqn:Eq; [apply N.eqb_eq in Eq; subst q|]; reflexivity. }
  assert (Gtid : forall q, pg_tid (getp c' q) = pg_tid (getp c q)).
  { intros q. rewrite Gp. destruct (q =? p) eqn:Eq; [apply N.eqb_eq in Eq; subst q|]; reflexivity. }
  assert (Gused : forall q, pg_used (getp c' q) = pg_used (getp c q)).
  { intros q. rewrite Gp. destruct (q =? p) eqn:Eq; [apply N.eqb_eq in Eq; subst q|]; reflexivity. }
  assert (Galive : forall q, pg_alive (getp c' q) = pg_alive (getp c q)).
  { intros q. rewrite Gp. destruct (q =? p) eqn:Eq; [apply N.eqb_eq in Eq; subst q|]; reflexivity. }
  assert (Gheap : forall q, pg_heap (getp c' q) = if q =? p then Some bk else pg_heap (getp c q)).
  { intros q. rewrite Gp. destruct (q =? p); reflexivity. }
  assert (Hhb : forall u h', hd_bottom (th_stk (gett c u)) h' = true -> hd_bottom (th_stk (gett c' u)) h' = true).
  { intros u h'. rewrite Gt. destruct (u =? t) eqn:Eu; [apply N.eqb_eq in Eu; subst u|auto].
    rewrite E. cbn. rewrite !orb_false_r. auto. }
  (* delayed blocks stay attributed *)
  assert (Hdel : forall h' b, del_ok c h' b = true -> del_ok c' h' b = true).
  { intros h' b. unfold del_ok. rewrite Gh, Gtid, Gheap, Galive. intros H. apply andb_prop in H as [H1 H2]. rewrite H1. cbn [andb].
    apply andb_prop in H1 as [_ H1]. apply N.eqb_eq in H1.
    destruct (fst b =? p) eqn:Eb; [apply N.eqb_eq in Eb|revert H2; apply orb_mono; apply Hhb].
    rewrite Eb in *. apply orb_prop in H2 as [H2|H2].
    - apply oN_eqb_eq in H2. rewrite H2 in Hheap. cbn [oN_eqb] in Hheap. apply orb_prop in Hheap as [Hh|Hh]; apply N.eqb_eq in Hh.
      + subst h'. rewrite <- H1, Htid. rewrite Gt, N.eqb_refl. cbn. rewrite N.eqb_refl. apply orb_true_r.
      + subst h'. cbn. rewrite N.eqb_refl. reflexivity.
    - rewrite (Hhb _ _ H2). apply orb_true_r. }
  constructor.
  - apply wf_sett, wf_setp. assumption.
  - apply (invA_conserve c); auto.
    + intros P. destruct (mWF_sett_setp c t th' p pg' P Hwf) as [E1 E2]. unfold th_W in E1. rewrite E in E1.
      cbn [th_held th_stk th' th_set pg_tf pg_free pg_lfree pg' pg_set_heap stk_blocks flat_map fr_blocks app] in E1, E2.
      unfold c'. lia.
    + intros q. rewrite Gp. destruct (q =? p) eqn:Eq; [apply N.eqb_eq in Eq; subst q|]; reflexivity.
    + intros q. rewrite Gused. destruct (a_count _ (i_A _ I) q) as [C1 _]. rewrite C1. f_equal.
      destruct (mWF_sett_setp c t th' p pg' (onp q) Hwf) as [E1 E2]. unfold th_W in E1. rewrite E in E1.
      cbn [th_held th_stk th' th_set pg_tf pg_free pg_lfree pg' pg_set_heap stk_blocks flat_map fr_blocks app] in E1, E2.
      unfold c'. lia.
    + intros q. rewrite Gp. destruct (q =? p) eqn:Eq; [apply N.eqb_eq in Eq; subst q|]; apply (a_local _ (i_A _ I)).
  - apply (invB_same c); auto.
    + intros q. rewrite Gp. destruct (q =? p) eqn:Eq; [apply N.eqb_eq in Eq; subst q|]; reflexivity.
    + intros q. destruct (meas_sett_setp c t th' p pg' q Hwf) as (E1 & _). rewrite E in E1. cbn in E1. unfold c'. lia.
    + intros q. destruct (meas_sett_setp c t th' p pg' q Hwf) as (_ & E2 & _). rewrite E in E2. cbn in E2. unfold c'. lia.
    + intros q. left. destruct (meas_sett_setp c t th' p pg' q Hwf) as (_ & _ & E3 & _). rewrite E in E3. cbn in E3.
      rewrite ?cnt_nil in E3. unfold c'. lia.
  - destruct (i_S _ I) as [D1 D2 D3 D4 D5 D6 D7 D8 D9]. constructor.
    + intros q. rewrite Galive. intros Hq. rewrite Gp. destruct (q =? p) eqn:Eq; [apply N.eqb_eq in Eq; subst q; congruence|apply D1; assumption].
    + intros q Hq. rewrite Galive in Hq. destruct (q =? p) eqn:Eq.
      * exists bk. rewrite Gheap, Eq, Gtid, Gh. apply N.eqb_eq in Eq. subst q. rewrite Htid. auto.
      * destruct (D2 q Hq) as [h0 [Q1 Q2]]. exists h0. rewrite Gheap, Eq, Gtid, Gh. auto.
    + intros u bk0. rewrite Gt. destruct (u =? t) eqn:Eu; [apply N.eqb_eq in Eu; subst u; cbn [th_backing th' th_set]|]; apply D3.
    + intros h'. rewrite Gh, Gt. intros H1 H2. specialize (D4 h' H1 H2).
      destruct (hp_owner (geth c h') =? t) eqn:Eu; [apply N.eqb_eq in Eu; rewrite Eu in D4; cbn [th_backing th' th_set]|]; exact D4.
    + exact D5.
    + intros h'. rewrite Gh. specialize (D6 h'). revert D6. apply forallb_impl. intros x. apply Hdel.
    + intros u. rewrite Gt. destruct (u =? t); [reflexivity|apply D7].
    + intros u. rewrite Gt. destruct (u =? t) eqn:Eu.
      * apply N.eqb_eq in Eu. subst u. cbn [th_stk th' th_set forallb fr_ok]. rewrite Gown, Hown, !Gh, Ho, Hnb. cbn [andb flag_eqb negb th_backing].
        change (th_backing th') with (th_backing (gett c t)). rewrite Hbk, oN_eqb_refl. cbn [andb]. rewrite andb_true_r.
        revert Hps. apply forallb_impl. intros q. rewrite Gown, Gheap. intros Hq. apply andb_prop in Hq as [Hq1 Hq2]. rewrite Hq1.
        destruct (q =? p); [rewrite oN_eqb_refl; apply orb_true_r|exact Hq2].
      * apply N.eqb_neq in Eu. specialize (D8 u). revert D8. apply forallb_impl. intros f. apply fr_ok_mono.
        -- intros q Hq. rewrite Gown, Gused. auto.
        -- intros h' Hh'. rewrite Gh. auto.
        -- intros h' b _. apply Hdel.
        -- intros b h'. unfold rf_cond. rewrite Gh, Gtid, Gheap, Galive. intros H. apply andb_prop in H as [H1 H2]. rewrite H1. cbn [andb].
           apply andb_prop in H1 as [_ H1].
           destruct (fst b =? p) eqn:Eb.
           ++ apply N.eqb_eq in Eb. rewrite Eb in *. rewrite Htid in *. rewrite Gt, N.eqb_refl. cbn [th_stk th' th_set absorbing].
              rewrite E in H2. cbn [absorbing] in H2. rewrite orb_false_r in H2. apply oN_eqb_eq in H2. rewrite H2 in Hheap.
              cbn [oN_eqb] in Hheap |- *. rewrite N.eqb_refl. cbn [andb]. rewrite (N.eqb_sym bk h'), (N.eqb_sym h h'), orb_comm. exact Hheap.
           ++ revert H2. apply orb_mono. rewrite Gt. destruct (pg_tid (getp c (fst b)) =? t) eqn:Ev; [|auto].
              apply N.eqb_eq in Ev. rewrite Ev, E. cbn. discriminate.
        -- intros h' bk' q Hh'. unfold hd3_cond. rewrite Gown, Gheap. intros H. apply andb_prop in H as [H1 H2]. rewrite H1.
           destruct (q =? p) eqn:Eq; [|exact H2]. apply N.eqb_eq in Eq. subst q.
           apply own_true in H1 as [_ H1]. congruence.
    + intros u f. rewrite Gt. destruct (u =? t) eqn:Eu.
      * apply N.eqb_eq in Eu. subst u. cbn [th_stk th' th_set In]. intros [<-|[<-|[]]]; cbn [hd_fr_okP]; [exact Logic.I|].
        intros q. rewrite Galive, Gheap. intros Hq1 Hq2. destruct (q =? p) eqn:Eq; [inversion Hq2; congruence|].
        pose proof (S4 (HD3 h bk (p :: ps))) as H. rewrite E in H. specialize (H (or_introl eq_refl)). cbn [hd_fr_okP] in H.
        destruct (H q Hq1 Hq2) as [<-|Hin]; [rewrite N.eqb_refl in Eq; discriminate|exact Hin].
      * apply N.eqb_neq in Eu. intros Hf. specialize (D9 u f Hf).
        pose proof (D8 u) as F. rewrite forallb_forall in F. specialize (F f Hf).
        destruct f; cbn [hd_fr_okP] in *; auto.
        -- cbn [fr_ok] in F. rewrite !andb_true_iff in F. destruct F as [[[F _] _] _]. apply hown_true in F as [_ F].
           intros q. rewrite Galive, Gheap. destruct (q =? p) eqn:Eq; [|apply D9].
           intros _ Hq. inversion Hq. subst h0. apply hown_true in Hobk as [_ Hobk]. congruence.
        -- cbn [fr_ok] in F. rewrite !andb_true_iff in F. destruct F as [F _]. apply hown_true in F as [_ F].
           destruct D9 as [H1 H2]. split; [|exact H2].
           intros q. rewrite Galive, Gheap. destruct (q =? p) eqn:Eq; [|apply H1].
           intros _ Hq. inversion Hq. subst h0. apply hown_true in Hobk as [_ Hobk]. congruence.
Qed.

Lemma step_HD4 c t h rest alt : Inv c -> th_stk (gett c t) = HD4 h :: rest ->
  good (fstep c t (gett c t) (HD4 h) rest alt).
Proof.
  intros I E. cbn [fstep].
  destruct (stack_facts c t _ _ I E) as (S1 & S2 & S3 & S4).
  pose proof (bottom_alone _ _ S1) as Hr. cbn in Hr. subst rest.
  pose proof (i_wf _ I) as Hwf.
  cbn [fr_ok] in S2. apply andb_prop in S2 as [Ho Hnb]. destruct (hown_true _ _ Ho) as [Hal Hown].
  pose proof (S4 (HD4 h)) as Hc. rewrite E in Hc. specialize (Hc (or_introl eq_refl)). cbn [hd_fr_okP] in Hc.
  destruct Hc as [Hnop Hq]. rewrite E in Hq. specialize (Hq eq_refl).
  rewrite Hal, Hq. cbn [negb isnil]. unfold ok_s, ok_t, good.
  set (hp' := hp_set_st (geth c h) HDead). set (th' := th_set (gett c t) [] (th_ret (gett c t))).
  set (c' := sett (seth c h hp') t th').
  assert (Gt : forall u, gett c' u = if u =? t then th' else gett c u) by (intros; unfold c'; rewrite gett_sett; reflexivity).
  assert (Gp : forall q, getp c' q = getp c q) by reflexivity.
  assert (Gh : forall q, geth c' q = if q =? h then hp' else geth c q).
  { intros q. unfold c'. rewrite geth_sett, geth_seth. reflexivity. }
  assert (Gdel : forall q, hp_del (geth c' q) = hp_del (geth c q)).
  { intros q. rewrite Gh. destruct (q =? h) eqn:Eq; [apply N.eqb_eq in Eq; subst q|]; reflexivity. }
  assert (Ghn : forall q u, hown (geth c q) u = true -> u <> t -> geth c' q = geth c q).
  { intros q u Hu Hne. rewrite Gh. destruct (q =? h) eqn:Eq; [|reflexivity]. apply N.eqb_eq in Eq. subst q.
    apply hown_true in Hu as [_ Hu]. congruence. }
  assert (Hdel : forall h' b, h' <> h -> del_ok c h' b = true -> del_ok c' h' b = true).
  { intros h' b Hne. unfold del_ok. rewrite Gp, Gh. apply N.eqb_neq in Hne. rewrite Hne. intros H.
    apply andb_prop in H as [H1 H2]. rewrite H1. cbn [andb]. revert H2. apply orb_mono.
    rewrite Gt. destruct (hp_owner (geth c h') =? t) eqn:Eu; [|auto]. apply N.eqb_eq in Eu. rewrite Eu, E. cbn.
    rewrite N.eqb_sym, Hne. discriminate. }
  constructor.
  - apply wf_sett, wf_seth. assumption.
  - apply (invA_conserve c); auto.
    + intros P. pose proof (mW_sett _ (wf_seth c h hp' Hwf) t th' P) as E1. pose proof (mW_seth c Hwf h hp' P) as E2.
      unfold th_W in E1. change (gett (seth c h hp') t) with (gett c t) in E1. rewrite E in E1.
      cbn [th_held th_stk th' th_set hp_del hp' hp_set_st stk_blocks flat_map fr_blocks app] in E1, E2.
      change (mF c' P) with (mF c P). unfold c'. lia.
    + intros q. destruct (a_count _ (i_A _ I) q) as [C1 _]. rewrite Gp, C1. f_equal.
      pose proof (mW_sett _ (wf_seth c h hp' Hwf) t th' (onp q)) as E1. pose proof (mW_seth c Hwf h hp' (onp q)) as E2.
      unfold th_W in E1. change (gett (seth c h hp') t) with (gett c t) in E1. rewrite E in E1.
      cbn [th_held th_stk th' th_set hp_del hp' hp_set_st stk_blocks flat_map fr_blocks app] in E1, E2. unfold c'. lia.
    + intros q. apply (a_local _ (i_A _ I)).
  - apply (invB_same c); auto.
    + intros q. destruct (meas_sett_seth c t th' h hp' q Hwf) as (E1 & _). rewrite E in E1. cbn in E1. unfold c'. lia.
    + intros q. destruct (meas_sett_seth c t th' h hp' q Hwf) as (_ & E2 & _). rewrite E in E2. cbn in E2. unfold c'. lia.
    + intros q. left. destruct (meas_sett_seth c t th' h hp' q Hwf) as (_ & _ & E3 & _). rewrite E in E3.
      cbn [th_stk th_ret th' th_set d1_stk d1_fr app flat_map hp_del hp' hp_set_st] in E3. rewrite ?cnt_nil in E3. unfold c'. lia.
  - destruct (i_S _ I) as [D1 D2 D3 D4 D5 D6 D7 D8 D9]. constructor.
    + exact D1.
    + intros q Hqa. rewrite Gp in *. destruct (D2 q Hqa) as [h0 [Q1 Q2]]. exists h0. split; [assumption|].
      rewrite Gh. destruct (h0 =? h) eqn:Eq; [|assumption]. apply N.eqb_eq in Eq. subst h0. exfalso. apply (Hnop q Hqa Q1).
    + intros u bk0. rewrite Gt. intros Hb.
      assert (Hb' : th_backing (gett c u) = Some bk0) by (destruct (u =? t) eqn:Eu; [apply N.eqb_eq in Eu; subst u|]; exact Hb).
      destruct (D3 u bk0 Hb') as [Q1 Q2]. rewrite Gh. destruct (bk0 =? h) eqn:Eq; [|auto].
      apply N.eqb_eq in Eq. subst bk0. rewrite Q2 in Hnb. discriminate.
    + intros h0. rewrite Gh. destruct (h0 =? h) eqn:Eq; [cbn; discriminate|]. intros H1 H2. specialize (D4 h0 H1 H2).
      rewrite Gt. destruct (hp_owner (geth c h0) =? t) eqn:Eu; [apply N.eqb_eq in Eu; rewrite Eu in D4|]; exact D4.
    + intros h0. rewrite Gdel. rewrite Gh. destruct (h0 =? h) eqn:Eq; [apply N.eqb_eq in Eq; subst h0; intros _; exact Hq|apply D5].
    + intros h0. rewrite Gdel. destruct (N.eq_dec h0 h) as [->|Hne]; [rewrite Hq; reflexivity|].
      specialize (D6 h0). revert D6. apply forallb_impl. intros x. apply Hdel. assumption.
    + intros u. rewrite Gt. destruct (u =? t); [reflexivity|apply D7].
    + intros u. rewrite Gt. destruct (u =? t) eqn:Eu; [reflexivity|]. apply N.eqb_neq in Eu.
      specialize (D8 u). revert D8. apply forallb_impl. intros f. apply fr_ok_mono.
      * intros q Hq'. rewrite Gp. auto.
      * intros h0 Hh0. rewrite (Ghn h0 u Hh0 Eu). auto.
      * intros h0 b Hh0. apply Hdel. intros ->. apply hown_true in Hh0 as [_ Hh0]. congruence.
      * intros b h0. unfold rf_cond. rewrite !Gp. intros H. apply andb_prop in H as [H1 H2].
        apply andb_prop in H1 as [H0 H1].
        assert (Hne : h0 <> h).
        { intros ->. apply hown_true in H1 as [_ H1]. apply orb_prop in H2 as [H2|H2].
          - apply oN_eqb_eq in H2. apply (Hnop _ H0 H2).
          - rewrite <- H1, Hown, E in H2. discriminate. }
        rewrite Gh. apply N.eqb_neq in Hne. rewrite Hne, H0, H1. cbn [andb]. revert H2. apply orb_mono.
        rewrite Gt. destruct (pg_tid (getp c (fst b)) =? t) eqn:Ev; [|auto]. apply N.eqb_eq in Ev. rewrite Ev, E. discriminate.
      * intros h0 bk0 q _. unfold hd3_cond. rewrite Gp. auto.
    + intros u f. rewrite Gt. destruct (u =? t) eqn:Eu; [intros []|]. apply N.eqb_neq in Eu. intros Hf. specialize (D9 u f Hf).
      pose proof (D8 u) as F. rewrite forallb_forall in F. specialize (F f Hf).
      destruct f; cbn [hd_fr_okP] in *; auto. destruct D9 as [H1 H2]. split; [exact H1|].
      rewrite Gdel. exact H2.
Qed.
