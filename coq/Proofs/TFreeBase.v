(* Basic lemmas for the cross-thread free model: finite maps, counting, measures under updates. *)
From Coq Require Import NArith List Bool Lia Arith.
From MiV Require Import Model.TFree.
Import ListNotations.
Local Open Scope N_scope.
Global Arguments cnt : simpl never.
Global Arguments mW : simpl never.
Global Arguments mF : simpl never.
Global Arguments mD : simpl never.
Global Arguments mWin : simpl never.
Global Arguments mPw : simpl never.
Global Arguments mPh : simpl never.

(* ------------------------------------------------------------------------------------------ *)
(* booleans / equalities                                                                      *)
(* ------------------------------------------------------------------------------------------ *)
Lemma bid_eqb_eq a b : bid_eqb a b = true <-> a = b.
Proof.
  unfold bid_eqb. destruct a, b; cbn. rewrite andb_true_iff, !N.eqb_eq. split.
  - intros [-> ->]; reflexivity.
  - intros H; inversion H; auto.
Qed.
Lemma bid_eqb_refl a : bid_eqb a a = true.
Proof. apply bid_eqb_eq; reflexivity. Qed.
Lemma bid_eqb_neq a b : bid_eqb a b = false <-> a <> b.
Proof.
  split.
  - intros H E. apply bid_eqb_eq in E. congruence.
  - intros H. destruct (bid_eqb a b) eqn:E; [apply bid_eqb_eq in E; contradiction|reflexivity].
Qed.
Lemma bid_eqb_sym a b : bid_eqb a b = bid_eqb b a.
Proof.
  destruct (bid_eqb a b) eqn:E.
  - apply bid_eqb_eq in E; subst; symmetry; apply bid_eqb_refl.
  - symmetry. apply bid_eqb_neq. apply bid_eqb_neq in E. congruence.
Qed.
Lemma flag_eqb_eq a b : flag_eqb a b = true <-> a = b.
Proof. destruct a, b; cbn; split; intros; try discriminate; try reflexivity. Qed.
Lemma flag_eqb_refl a : flag_eqb a a = true.
Proof. destruct a; reflexivity. Qed.
Lemma flag_eqb_neq a b : flag_eqb a b = false <-> a <> b.
Proof. destruct a, b; cbn; split; intros; try discriminate; try congruence; try reflexivity. Qed.
Lemma oN_eqb_eq a b : oN_eqb a b = true <-> a = b.
Proof.
  destruct a, b; cbn; try (split; intros; try discriminate; reflexivity).
  rewrite N.eqb_eq. split; [intros ->; reflexivity|intros H; inversion H; reflexivity].
Qed.
Lemma oN_eqb_refl a : oN_eqb a a = true.
Proof. apply oN_eqb_eq; reflexivity. Qed.
Lemma obid_eqb_eq a b : obid_eqb a b = true <-> a = b.
Proof.
  destruct a, b; cbn; try (split; intros; try discriminate; reflexivity).
  rewrite bid_eqb_eq. split; [intros ->; reflexivity|intros H; inversion H; reflexivity].
Qed.
Lemma isnil_true {A} (l : list A) : isnil l = true <-> l = [].
Proof. destruct l; cbn; split; intros; try discriminate; reflexivity. Qed.
Lemma isnil_false {A} (l : list A) : isnil l = false <-> l <> [].
Proof. destruct l; cbn; split; intros; try discriminate; try congruence; reflexivity. Qed.

Lemma mem_bid_In b l : mem_bid b l = true <-> In b l.
Proof.
  induction l as [|x r IH]; cbn; [split; [discriminate|tauto]|].
  rewrite orb_true_iff, IH, bid_eqb_eq. split; intros [H|H]; auto.
Qed.

(* ------------------------------------------------------------------------------------------ *)
(* counting                                                                                   *)
(* ------------------------------------------------------------------------------------------ *)
Lemma cnt_nil P : cnt P [] = 0%nat.
Proof. reflexivity. Qed.
Lemma cnt_cons P x l : cnt P (x :: l) = ((if P x then 1 else 0) + cnt P l)%nat.
Proof. unfold cnt; cbn. destruct (P x); reflexivity. Qed.
Lemma cnt_app P a b : cnt P (a ++ b) = (cnt P a + cnt P b)%nat.
Proof. unfold cnt. rewrite filter_app, app_length. reflexivity. Qed.
Lemma cnt_le_length P l : (cnt P l <= length l)%nat.
Proof. induction l as [|a r IH]; [rewrite cnt_nil; cbn; lia|]. rewrite cnt_cons. cbn [length]. destruct (P a); lia. Qed.
Lemma cnt_all P l : forallb P l = true -> cnt P l = length l.
Proof.
  induction l as [|x r IH]; cbn; [reflexivity|].
  intros H; apply andb_prop in H as [H1 H2]. rewrite cnt_cons, H1, IH by assumption. reflexivity.
Qed.
Lemma cnt_In b l : (1 <= cnt (bid_eqb b) l)%nat <-> In b l.
Proof.
  induction l as [|x r IH]; [rewrite cnt_nil; cbn; split; [lia|tauto]|].
  rewrite cnt_cons. cbn [In]. destruct (bid_eqb b x) eqn:E.
  - apply bid_eqb_eq in E; subst. split; [auto|lia].
  - apply bid_eqb_neq in E. rewrite Nat.add_0_l, IH. split; [auto|intros [H|H]; [congruence|auto]].
Qed.
Lemma cnt_zero_not_In b l : cnt (bid_eqb b) l = 0%nat <-> ~ In b l.
Proof. rewrite <- cnt_In. lia. Qed.
Lemma cnt_In_onp P b l : In b l -> P b = true -> (1 <= cnt P l)%nat.
Proof.
  induction l as [|x r IH]; [intros []|]. rewrite cnt_cons. intros [->|H] HP.
  - rewrite HP; lia.
  - specialize (IH H HP). lia.
Qed.
Lemma cnt_pos_ex P l : (1 <= cnt P l)%nat -> exists b, In b l /\ P b = true.
Proof.
  induction l as [|x r IH]; [rewrite cnt_nil; lia|]. rewrite cnt_cons. destruct (P x) eqn:E.
  - intros _. exists x; split; [left; reflexivity|assumption].
  - intros H. destruct IH as [b [Hb HP]]; [lia|]. exists b; split; [right; assumption|assumption].
Qed.
Lemma cnt_eqb_le_onp b l : (cnt (bid_eqb b) l <= cnt (onp (fst b)) l)%nat.
Proof.
  induction l as [|x r IH]; [rewrite !cnt_nil; lia|]. rewrite !cnt_cons.
  destruct (bid_eqb b x) eqn:E.
  - apply bid_eqb_eq in E; subst. replace (onp (fst x) x) with true by (unfold onp; symmetry; apply N.eqb_refl). lia.
  - destruct (onp (fst b) x); lia.
Qed.
Lemma forallb_In {A} (f : A -> bool) l : forallb f l = true -> forall x, In x l -> f x = true.
Proof. intros H x Hx. rewrite forallb_forall in H. auto. Qed.
Lemma cnt_remove_bid P b l : In b l -> (cnt P (remove_bid b l) + (if P b then 1 else 0) = cnt P l)%nat.
Proof.
  induction l as [|x r IH]; [intros []|]. cbn [remove_bid]. intros H.
  destruct (bid_eqb b x) eqn:E.
  - apply bid_eqb_eq in E; subst. rewrite cnt_cons. lia.
  - apply bid_eqb_neq in E. destruct H as [H|H]; [congruence|]. rewrite !cnt_cons. specialize (IH H). lia.
Qed.
Lemma cnt_ext P Q l : (forall x, In x l -> P x = Q x) -> cnt P l = cnt Q l.
Proof.
  induction l as [|x r IH]; [reflexivity|]. intros H. rewrite !cnt_cons, H by (left; reflexivity).
  rewrite IH; [reflexivity|]. intros; apply H; right; assumption.
Qed.
Lemma cnt_none P l : (forall x, In x l -> P x = false) -> cnt P l = 0%nat.
Proof.
  induction l as [|x r IH]; [reflexivity|]. intros H. rewrite cnt_cons, H by (left; reflexivity).
  rewrite IH; [reflexivity|]. intros; apply H; right; assumption.
Qed.

(* mkblocks *)
Lemma mkblocks_In p s n b : In b (mkblocks p s n) <-> fst b = p /\ s <= snd b < s + N.of_nat n.
Proof.
  revert s; induction n as [|n IH]; intros s; cbn [mkblocks In].
  - split; [tauto|intros [_ H]; lia].
  - rewrite IH. destruct b as [q i]; cbn. split.
    + intros [H|[H1 H2]]; [inversion H; subst; split; [reflexivity|lia]|split; [assumption|lia]].
    + intros [-> H]. destruct (N.eq_dec i s) as [->|Hne]; [left; reflexivity|right; split; [reflexivity|lia]].
Qed.
Lemma mkblocks_length p s n : length (mkblocks p s n) = n.
Proof. revert s; induction n; intros; cbn; [reflexivity|rewrite IHn; reflexivity]. Qed.
Lemma mkblocks_cnt_eqb p s n b : (cnt (bid_eqb b) (mkblocks p s n) <= 1)%nat.
Proof.
  revert s; induction n as [|n IH]; intros s; [cbn [mkblocks]; rewrite cnt_nil; lia|]. cbn [mkblocks]. rewrite cnt_cons.
  destruct (bid_eqb b (p, s)) eqn:E; [|specialize (IH (s+1)); lia].
  apply bid_eqb_eq in E; subst.
  assert (~ In (p, s) (mkblocks p (s + 1) n)) by (rewrite mkblocks_In; cbn; lia).
  apply cnt_zero_not_In in H. lia.
Qed.
Lemma mkblocks_onp p s n : forallb (onp p) (mkblocks p s n) = true.
Proof. revert s; induction n; intros; cbn; [reflexivity|]. unfold onp at 1; cbn. rewrite N.eqb_refl, IHn. reflexivity. Qed.

(* ------------------------------------------------------------------------------------------ *)
(* finite maps                                                                                *)
(* ------------------------------------------------------------------------------------------ *)
Section FMap.
  Context {V : Type} (d : V).
  Lemma fget_fset (m : list (N * V)) k v k' :
    fget d (fset m k v) k' = if k' =? k then v else fget d m k'.
  Proof.
    induction m as [|[k0 v0] r IH]; cbn.
    - destruct (k' =? k); reflexivity.
    - destruct (k =? k0) eqn:E; cbn.
      + apply N.eqb_eq in E; subst. destruct (k' =? k0); reflexivity.
      + rewrite IH. destruct (k' =? k0) eqn:E2; [|reflexivity].
        apply N.eqb_eq in E2; subst. rewrite N.eqb_sym, E. reflexivity.
  Qed.
  Lemma fget_fset_same (m : list (N * V)) k v : fget d (fset m k v) k = v.
  Proof. rewrite fget_fset, N.eqb_refl; reflexivity. Qed.
  Lemma fget_fset_other (m : list (N * V)) k v k' : k' <> k -> fget d (fset m k v) k' = fget d m k'.
  Proof. intros H. rewrite fget_fset. apply N.eqb_neq in H. rewrite H. reflexivity. Qed.

  Lemma existsb_fset_key (m : list (N * V)) k v k0 : k <> k0 ->
    existsb (fun kv : N * V => fst kv =? k0) (fset m k v) = existsb (fun kv : N * V => fst kv =? k0) m.
  Proof.
    intros Hne. induction m as [|[k1 v1] r IH]; cbn.
    - apply N.eqb_neq in Hne. rewrite Hne. reflexivity.
    - destruct (k =? k1) eqn:E; cbn.
      + apply N.eqb_eq in E; subst. reflexivity.
      + rewrite IH. reflexivity.
  Qed.
  Lemma fkeys_nodup_fset (m : list (N * V)) k v : fkeys_nodup m = true -> fkeys_nodup (fset m k v) = true.
  Proof.
    induction m as [|[k0 v0] r IH]; cbn; [reflexivity|].
    intros H. apply andb_prop in H as [H1 H2]. destruct (k =? k0) eqn:E; cbn.
    - apply N.eqb_eq in E; subst. rewrite H1, H2. reflexivity.
    - apply N.eqb_neq in E. rewrite existsb_fset_key by assumption. rewrite H1, IH by assumption. reflexivity.
  Qed.

  Lemma ftot_fset (f : V -> nat) (m : list (N * V)) k v : fkeys_nodup m = true -> f d = 0%nat ->
    (ftot f (fset m k v) + f (fget d m k) = ftot f m + f v)%nat.
  Proof.
    intros Hn Hd. induction m as [|[k0 v0] r IH]; cbn.
    - rewrite Hd. lia.
    - cbn in Hn. apply andb_prop in Hn as [H1 H2]. destruct (k =? k0) eqn:E; cbn.
      + lia.
      + specialize (IH H2). lia.
  Qed.
  Lemma ftot_ge (f : V -> nat) (m : list (N * V)) k : f d = 0%nat -> (f (fget d m k) <= ftot f m)%nat.
  Proof.
    intros Hd. induction m as [|[k0 v0] r IH]; cbn; [lia|]. destruct (k =? k0); lia.
  Qed.
  Lemma ftot_ext (f g : V -> nat) (m : list (N * V)) : (forall v, f v = g v) -> ftot f m = ftot g m.
  Proof. intros H. induction m as [|[k0 v0] r IH]; cbn; [reflexivity|]. rewrite H, IH. reflexivity. Qed.
End FMap.

Section FMap2.
  Context {V : Type} (d : V).
  (* entries *)
  Lemma fget_In (m : list (N * V)) k v : fkeys_nodup m = true -> In (k, v) m -> fget d m k = v.
  Proof.
    induction m as [|[k0 v0] r IH]; cbn; [intros _ []|]. intros Hn [H|H].
    - inversion H; subst. rewrite N.eqb_refl. reflexivity.
    - apply andb_prop in Hn as [H1 H2]. destruct (k =? k0) eqn:E.
      + apply N.eqb_eq in E; subst. exfalso. apply negb_true_iff in H1.
        assert (existsb (fun kv : N * V => fst kv =? k0) r = true); [|congruence].
        apply existsb_exists. exists (k0, v). split; [assumption|cbn; apply N.eqb_refl].
      + apply IH; assumption.
  Qed.
  Lemma fget_not_default (m : list (N * V)) k : fget d m k <> d -> In (k, fget d m k) m.
  Proof.
    induction m as [|[k0 v0] r IH]; cbn; [congruence|]. destruct (k =? k0) eqn:E.
    - apply N.eqb_eq in E; subst. intros _. left; reflexivity.
    - intros H. right. apply IH. assumption.
  Qed.
  Lemma fget_nokey (m : list (N * V)) k : existsb (fun kv : N * V => fst kv =? k) m = false -> fget d m k = d.
  Proof.
    induction m as [|[k0 v0] r IH]; cbn; [reflexivity|]. intros H. apply orb_false_iff in H as [H1 H2].
    rewrite N.eqb_sym, H1. apply IH; assumption.
  Qed.
  Lemma ftot_pos_ex (f : V -> nat) (m : list (N * V)) : fkeys_nodup m = true -> f d = 0%nat -> (1 <= ftot f m)%nat ->
    exists k, (1 <= f (fget d m k))%nat.
  Proof.
    intros Hn Hd. induction m as [|[k0 v0] r IH]; cbn; [lia|]. intros H. cbn in Hn. apply andb_prop in Hn as [H1 H2].
    destruct (Nat.eq_dec (f v0) 0) as [E|E].
    - destruct IH as [k Hk]; [assumption|lia|]. exists k. destruct (k =? k0) eqn:E2; [|assumption].
      apply N.eqb_eq in E2; subst. apply negb_true_iff in H1. rewrite (fget_nokey r k0 H1) in Hk. lia.
    - exists k0. rewrite N.eqb_refl. lia.
  Qed.
End FMap2.

(* ------------------------------------------------------------------------------------------ *)
(* configurations: get / set                                                                  *)
(* ------------------------------------------------------------------------------------------ *)
Definition wf (c : cfg) : Prop := wf_b c = true.

Lemma wf_parts c : wf c -> fkeys_nodup (c_th c) = true /\ fkeys_nodup (c_pg c) = true /\ fkeys_nodup (c_hp c) = true.
Proof. unfold wf, wf_b. intros H. apply andb_prop in H as [H H3]. apply andb_prop in H as [H1 H2]. auto. Qed.
Lemma wf_intro c : fkeys_nodup (c_th c) = true -> fkeys_nodup (c_pg c) = true -> fkeys_nodup (c_hp c) = true -> wf c.
Proof. unfold wf, wf_b. intros -> -> ->. reflexivity. Qed.

Lemma gett_sett c t th t' : gett (sett c t th) t' = if t' =? t then th else gett c t'.
Proof. unfold gett, sett; cbn. apply fget_fset. Qed.
Lemma gett_setp c p pg t' : gett (setp c p pg) t' = gett c t'.
Proof. reflexivity. Qed.
Lemma gett_seth c h hp t' : gett (seth c h hp) t' = gett c t'.
Proof. reflexivity. Qed.
Lemma getp_setp c p pg p' : getp (setp c p pg) p' = if p' =? p then pg else getp c p'.
Proof. unfold getp, setp; cbn. apply fget_fset. Qed.
Lemma getp_sett c t th p' : getp (sett c t th) p' = getp c p'.
Proof. reflexivity. Qed.
Lemma getp_seth c h hp p' : getp (seth c h hp) p' = getp c p'.
Proof. reflexivity. Qed.
Lemma geth_seth c h hp h' : geth (seth c h hp) h' = if h' =? h then hp else geth c h'.
Proof. unfold geth, seth; cbn. apply fget_fset. Qed.
Lemma geth_sett c t th h' : geth (sett c t th) h' = geth c h'.
Proof. reflexivity. Qed.
Lemma geth_setp c p pg h' : geth (setp c p pg) h' = geth c h'.
Proof. reflexivity. Qed.

Lemma wf_sett c t th : wf c -> wf (sett c t th).
Proof. intros H. apply wf_parts in H as (H1 & H2 & H3). apply wf_intro; cbn; auto using fkeys_nodup_fset. Qed.
Lemma wf_setp c p pg : wf c -> wf (setp c p pg).
Proof. intros H. apply wf_parts in H as (H1 & H2 & H3). apply wf_intro; cbn; auto using fkeys_nodup_fset. Qed.
Lemma wf_seth c h hp : wf c -> wf (seth c h hp).
Proof. intros H. apply wf_parts in H as (H1 & H2 & H3). apply wf_intro; cbn; auto using fkeys_nodup_fset. Qed.
#[export] Hint Resolve wf_sett wf_setp wf_seth : tfree.

(* ------------------------------------------------------------------------------------------ *)
(* measures under updates (additive form, for lia)                                            *)
(* ------------------------------------------------------------------------------------------ *)
Lemma th_W_th0 P : th_W P th0 = 0%nat.
Proof. reflexivity. Qed.

Section Measures.
  Variable c : cfg.
  Hypothesis Hwf : wf c.
  Let H1 := proj1 (wf_parts c Hwf).
  Let H2 := proj1 (proj2 (wf_parts c Hwf)).
  Let H3 := proj2 (proj2 (wf_parts c Hwf)).

  Lemma mW_sett t th P : (mW (sett c t th) P + th_W P (gett c t) = mW c P + th_W P th)%nat.
  Proof.
    unfold mW, sett, gett; cbn [c_th c_pg c_hp].
    pose proof (ftot_fset th0 (th_W P) (c_th c) t th H1 (th_W_th0 P)). lia.
  Qed.
  Lemma mW_setp p pg P : (mW (setp c p pg) P + cnt P (pg_tf (getp c p)) = mW c P + cnt P (pg_tf pg))%nat.
  Proof.
    unfold mW, setp, getp; cbn [c_th c_pg c_hp].
    pose proof (ftot_fset pg0 (fun pg => cnt P (pg_tf pg)) (c_pg c) p pg H2 eq_refl). cbn beta in H. lia.
  Qed.
  Lemma mW_seth h hp P : (mW (seth c h hp) P + cnt P (hp_del (geth c h)) = mW c P + cnt P (hp_del hp))%nat.
  Proof.
    unfold mW, seth, geth; cbn [c_th c_pg c_hp].
    pose proof (ftot_fset hp0 (fun hp => cnt P (hp_del hp)) (c_hp c) h hp H3 eq_refl). cbn beta in H. lia.
  Qed.
  Lemma mF_sett t th P : mF (sett c t th) P = mF c P.
  Proof. reflexivity. Qed.
  Lemma mF_seth h hp P : mF (seth c h hp) P = mF c P.
  Proof. reflexivity. Qed.
  Lemma mF_setp p pg P :
    (mF (setp c p pg) P + (cnt P (pg_free (getp c p)) + cnt P (pg_lfree (getp c p)))
     = mF c P + (cnt P (pg_free pg) + cnt P (pg_lfree pg)))%nat.
  Proof.
    unfold mF, setp, getp; cbn [c_th c_pg c_hp].
    pose proof (ftot_fset pg0 (fun pg => cnt P (pg_free pg) + cnt P (pg_lfree pg))%nat (c_pg c) p pg H2 eq_refl).
    cbn beta in H. lia.
  Qed.
  Lemma mD_sett t th P :
    (mD (sett c t th) P + cnt P (d1_stk (th_ret (gett c t)) (th_stk (gett c t)))
     = mD c P + cnt P (d1_stk (th_ret th) (th_stk th)))%nat.
  Proof.
    unfold mD, sett, gett; cbn [c_th c_pg c_hp].
    pose proof (ftot_fset th0 (fun th => cnt P (d1_stk (th_ret th) (th_stk th))) (c_th c) t th H1 eq_refl).
    cbn beta in H. lia.
  Qed.
  Lemma mD_setp p pg P : mD (setp c p pg) P = mD c P.
  Proof. reflexivity. Qed.
  Lemma mD_seth h hp P : (mD (seth c h hp) P + cnt P (hp_del (geth c h)) = mD c P + cnt P (hp_del hp))%nat.
  Proof.
    unfold mD, seth, geth; cbn [c_th c_pg c_hp].
    pose proof (ftot_fset hp0 (fun hp => cnt P (hp_del hp)) (c_hp c) h hp H3 eq_refl). cbn beta in H. lia.
  Qed.
  Lemma mWin_sett t th p :
    (mWin (sett c t th) p + sum_fr (win_fr p) (th_stk (gett c t)) = mWin c p + sum_fr (win_fr p) (th_stk th))%nat.
  Proof.
    unfold mWin, sett, gett; cbn [c_th c_pg c_hp].
    pose proof (ftot_fset th0 (fun th => sum_fr (win_fr p) (th_stk th)) (c_th c) t th H1 eq_refl).
    cbn beta in H. lia.
  Qed.
  Lemma mWin_setp q pg p : mWin (setp c q pg) p = mWin c p.
  Proof. reflexivity. Qed.
  Lemma mWin_seth h hp p : mWin (seth c h hp) p = mWin c p.
  Proof. reflexivity. Qed.
  Lemma mPw_sett t th p :
    (mPw (sett c t th) p + sum_fr (pw_fr p) (th_stk (gett c t)) = mPw c p + sum_fr (pw_fr p) (th_stk th))%nat.
  Proof.
    unfold mPw, sett, gett; cbn [c_th c_pg c_hp].
    pose proof (ftot_fset th0 (fun th => sum_fr (pw_fr p) (th_stk th)) (c_th c) t th H1 eq_refl).
    cbn beta in H. lia.
  Qed.
  Lemma mPw_setp q pg p : mPw (setp c q pg) p = mPw c p.
  Proof. reflexivity. Qed.
  Lemma mPw_seth h hp p : mPw (seth c h hp) p = mPw c p.
  Proof. reflexivity. Qed.
  Lemma mPh_sett t th p :
    (mPh (sett c t th) p + ph_stk p (th_ret (gett c t)) (th_stk (gett c t)) = mPh c p + ph_stk p (th_ret th) (th_stk th))%nat.
  Proof.
    unfold mPh, sett, gett; cbn [c_th c_pg c_hp].
    pose proof (ftot_fset th0 (fun th => ph_stk p (th_ret th) (th_stk th)) (c_th c) t th H1 eq_refl).
    cbn beta in H. lia.
  Qed.
  Lemma mPh_setp q pg p : mPh (setp c q pg) p = mPh c p.
  Proof. reflexivity. Qed.
  Lemma mPh_seth h hp p : mPh (seth c h hp) p = mPh c p.
  Proof. reflexivity. Qed.

  (* components are bounded by the totals *)
  Lemma mW_ge_th t P : (th_W P (gett c t) <= mW c P)%nat.
  Proof. unfold mW, gett. pose proof (ftot_ge th0 (th_W P) (c_th c) t eq_refl). lia. Qed.
  Lemma mW_ge_tf p P : (cnt P (pg_tf (getp c p)) <= mW c P)%nat.
  Proof. unfold mW, getp. pose proof (ftot_ge pg0 (fun pg => cnt P (pg_tf pg)) (c_pg c) p eq_refl). cbn beta in H. lia. Qed.
  Lemma mW_ge_del h P : (cnt P (hp_del (geth c h)) <= mW c P)%nat.
  Proof. unfold mW, geth. pose proof (ftot_ge hp0 (fun hp => cnt P (hp_del hp)) (c_hp c) h eq_refl). cbn beta in H. lia. Qed.
  Lemma mF_ge p P : (cnt P (pg_free (getp c p)) + cnt P (pg_lfree (getp c p)) <= mF c P)%nat.
  Proof.
    unfold mF, getp.
    pose proof (ftot_ge pg0 (fun pg => cnt P (pg_free pg) + cnt P (pg_lfree pg))%nat (c_pg c) p eq_refl). cbn beta in H. lia.
  Qed.
  Lemma mD_ge_del h P : (cnt P (hp_del (geth c h)) <= mD c P)%nat.
  Proof. unfold mD, geth. pose proof (ftot_ge hp0 (fun hp => cnt P (hp_del hp)) (c_hp c) h eq_refl). cbn beta in H. lia. Qed.
  Lemma mD_ge_th t P : (cnt P (d1_stk (th_ret (gett c t)) (th_stk (gett c t))) <= mD c P)%nat.
  Proof.
    unfold mD, gett.
    pose proof (ftot_ge th0 (fun th => cnt P (d1_stk (th_ret th) (th_stk th))) (c_th c) t eq_refl). cbn beta in H. lia.
  Qed.
  Lemma mWin_ge t p : (sum_fr (win_fr p) (th_stk (gett c t)) <= mWin c p)%nat.
  Proof.
    unfold mWin, gett. pose proof (ftot_ge th0 (fun th => sum_fr (win_fr p) (th_stk th)) (c_th c) t eq_refl).
    cbn beta in H. lia.
  Qed.
  Lemma mPw_ge t p : (sum_fr (pw_fr p) (th_stk (gett c t)) <= mPw c p)%nat.
  Proof.
    unfold mPw, gett. pose proof (ftot_ge th0 (fun th => sum_fr (pw_fr p) (th_stk th)) (c_th c) t eq_refl).
    cbn beta in H. lia.
  Qed.
  (* a positive total has a positive component *)
  Lemma mWin_pos_ex p : (1 <= mWin c p)%nat -> exists t, (1 <= sum_fr (win_fr p) (th_stk (gett c t)))%nat.
  Proof. unfold mWin, gett. apply (ftot_pos_ex th0); [exact H1|reflexivity]. Qed.
  Lemma mPw_pos_ex p : (1 <= mPw c p)%nat -> exists t, (1 <= sum_fr (pw_fr p) (th_stk (gett c t)))%nat.
  Proof. unfold mPw, gett. apply (ftot_pos_ex th0); [exact H1|reflexivity]. Qed.
End Measures.

Lemma ftot_le {V} (f g : V -> nat) (m : list (N * V)) : (forall v, (f v <= g v)%nat) -> (ftot f m <= ftot g m)%nat.
Proof. intros H. induction m as [|[k v] r IH]; cbn; [lia|]. specialize (H v). lia. Qed.
Lemma mPw_le_mWin_fr p fr : (pw_fr p fr <= win_fr p fr)%nat.
Proof. destruct fr; cbn; lia. Qed.
Lemma sum_fr_le f g stk : (forall fr, (f fr <= g fr)%nat) -> (sum_fr f stk <= sum_fr g stk)%nat.
Proof. intros H. induction stk as [|x r IH]; cbn; [lia|]. specialize (H x). lia. Qed.
Lemma mPw_le_mWin c p : (mPw c p <= mWin c p)%nat.
Proof. unfold mPw, mWin. apply ftot_le. intros th. apply sum_fr_le. apply mPw_le_mWin_fr. Qed.
Lemma sum_fr_app f a b : sum_fr f (a ++ b) = (sum_fr f a + sum_fr f b)%nat.
Proof. induction a; cbn; [reflexivity|]. rewrite IHa. lia. Qed.
Lemma sum_fr_In f stk fr : In fr stk -> (f fr <= sum_fr f stk)%nat.
Proof. induction stk as [|x r IH]; [intros []|]. cbn. intros [->|H]; [lia|]. specialize (IH H). lia. Qed.
Lemma stk_blocks_app a b : stk_blocks (a ++ b) = stk_blocks a ++ stk_blocks b.
Proof. unfold stk_blocks. apply flat_map_app. Qed.
Lemma stk_blocks_cons f r : stk_blocks (f :: r) = fr_blocks f ++ stk_blocks r.
Proof. reflexivity. Qed.

(* ------------------------------------------------------------------------------------------ *)
(* further facts about the measures                                                           *)
(* ------------------------------------------------------------------------------------------ *)
Lemma ftot_zero {V} (d : V) (f : V -> nat) (m : list (N * V)) : fkeys_nodup m = true -> f d = 0%nat ->
  (forall k, f (fget d m k) = 0%nat) -> ftot f m = 0%nat.
Proof.
  induction m as [|[k0 v0] r IH]; cbn; [reflexivity|]. intros Hn Hd H. apply andb_prop in Hn as [H1 H2].
  pose proof (H k0) as Hk. rewrite N.eqb_refl in Hk. rewrite Hk, IH; [reflexivity|assumption|assumption|].
  intros k. specialize (H k). destruct (k =? k0) eqn:E; [|assumption].
  apply N.eqb_eq in E; subst. apply negb_true_iff in H1. rewrite (fget_nokey d r k0 H1). exact Hd.
Qed.

Lemma sum_fr_pos_ex f stk : (1 <= sum_fr f stk)%nat -> exists fr, In fr stk /\ (1 <= f fr)%nat.
Proof.
  induction stk as [|x r IH]; cbn; [lia|]. intros H. destruct (Nat.eq_dec (f x) 0) as [E|E].
  - destruct IH as [fr [H1 H2]]; [lia|]. exists fr. auto.
  - exists x. split; [auto|lia].
Qed.

Lemma d1_fr_le P s f : (cnt P (d1_fr s f) <= cnt P (fr_blocks f))%nat.
Proof. destruct f; cbn [d1_fr fr_blocks]; try lia; destruct s; rewrite ?cnt_cons, ?cnt_nil; try destruct (P b); lia. Qed.
Lemma d1_flat_le P stk : (cnt P (flat_map (d1_fr false) stk) <= cnt P (stk_blocks stk))%nat.
Proof.
  induction stk as [|x r IH]; [cbn; lia|]. cbn [flat_map]. rewrite stk_blocks_cons, !cnt_app.
  pose proof (d1_fr_le P false x). lia.
Qed.
Lemma d1_stk_le P ret stk : (cnt P (d1_stk ret stk) <= cnt P (stk_blocks stk))%nat.
Proof.
  destruct stk as [|x r]; [cbn; lia|]. cbn [d1_stk]. rewrite stk_blocks_cons, !cnt_app.
  pose proof (d1_fr_le P ret x). pose proof (d1_flat_le P r). lia.
Qed.
Lemma mD_le_mW c P : (mD c P <= mW c P)%nat.
Proof.
  unfold mD, mW.
  assert (ftot (fun th => cnt P (d1_stk (th_ret th) (th_stk th))) (c_th c) <= ftot (th_W P) (c_th c))%nat.
  { apply ftot_le. intros th. unfold th_W. pose proof (d1_stk_le P (th_ret th) (th_stk th)). lia. }
  lia.
Qed.

(* the free lists of the other pages contain no block of page p *)
Lemma mF_local c p : wf c -> (forall q, forallb (onp q) (pg_blocks (getp c q)) = true) ->
  mF c (onp p) = (cnt (onp p) (pg_free (getp c p)) + cnt (onp p) (pg_lfree (getp c p)))%nat.
Proof.
  intros Hwf L.
  pose proof (mF_setp c Hwf p pg0 (onp p)) as E. cbn [pg_free pg_lfree pg0] in E. rewrite cnt_nil in E.
  assert (Z : mF (setp c p pg0) (onp p) = 0%nat).
  { unfold mF. apply (ftot_zero pg0); [pose proof (wf_parts _ (wf_setp c p pg0 Hwf)) as (_ & W2 & _); exact W2|reflexivity|].
    intros q. change (fget pg0 (c_pg (setp c p pg0)) q) with (getp (setp c p pg0) q). rewrite getp_setp.
    destruct (q =? p) eqn:Eq; [reflexivity|].
    specialize (L q). unfold pg_blocks in L. rewrite !forallb_app in L. apply andb_prop in L as [_ L].
    apply andb_prop in L as [L1 L2].
    rewrite !cnt_none; [reflexivity| |]; intros x Hx.
    - pose proof (forallb_In _ _ L2 x Hx) as Hq. unfold onp in *. apply N.eqb_eq in Hq. rewrite Hq. exact Eq.
    - pose proof (forallb_In _ _ L1 x Hx) as Hq. unfold onp in *. apply N.eqb_eq in Hq. rewrite Hq. exact Eq. }
  lia.
Qed.

(* two maps with the same lookups have the same totals *)
Lemma ftot_same_get {V} (d : V) (f : V -> nat) : f d = 0%nat -> forall (m m' : list (N * V)),
  fkeys_nodup m = true -> fkeys_nodup m' = true ->
  (forall k, f (fget d m k) = f (fget d m' k)) -> ftot f m = ftot f m'.
Proof.
  intros Hd. induction m as [|[k v] r IH]; intros m' Hn Hn' H.
  - cbn. symmetry. apply (ftot_zero d); auto. intros k. rewrite <- H. exact Hd.
  - cbn in Hn. apply andb_prop in Hn as [H1 H2]. apply negb_true_iff in H1. cbn [ftot].
    pose proof (ftot_fset d f m' k d Hn' Hd) as E. rewrite Hd in E.
    rewrite (IH (fset m' k d) H2 (fkeys_nodup_fset m' k d Hn')).
    + pose proof (H k) as Hk. cbn in Hk. rewrite N.eqb_refl in Hk. lia.
    + intros k'. rewrite fget_fset. destruct (k' =? k) eqn:Ek.
      * apply N.eqb_eq in Ek. subst k'. rewrite (fget_nokey d r k H1). reflexivity.
      * specialize (H k'). cbn in H. rewrite Ek in H. exact H.
Qed.
