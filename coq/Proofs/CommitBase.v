(* Commit bookkeeping (C07): bit-function / range lemmas and the specifications of the primitive operations of
   Model/Commit.v (arena_try_alloc_at, arena_purge, arena_free, arena_purge_scan, segment_commit,
   segment_ensure_committed, segment_purge, seg_purge_scan, segment_try_purge, span_allocate, span_free). *)
From Coq Require Import NArith Lia Bool List.
From MiV Require Import Gen.Consts Model.Commit.
Import ListNotations.
Local Open Scope N_scope.
Local Open Scope bool_scope.

Ltac b2p :=
  repeat match goal with
  | H : (_ && _) = true |- _ => apply andb_true_iff in H; destruct H
  | H : (_ || _) = false |- _ => apply orb_false_iff in H; destruct H
  | H : negb _ = true |- _ => apply negb_true_iff in H
  | H : negb _ = false |- _ => apply negb_false_iff in H
  | H : (_ <? _) = true |- _ => apply N.ltb_lt in H
  | H : (_ <? _) = false |- _ => apply N.ltb_ge in H
  | H : (_ <=? _) = true |- _ => apply N.leb_le in H
  | H : (_ <=? _) = false |- _ => apply N.leb_gt in H
  | H : (_ =? _) = true |- _ => apply N.eqb_eq in H
  | H : (_ =? _) = false |- _ => apply N.eqb_neq in H
  end.

Lemma BLOCK_SLICES_val : BLOCK_SLICES = 512. Proof. reflexivity. Qed.
Lemma MASK_BITS_val : MASK_BITS = 512. Proof. reflexivity. Qed.
Lemma FIELD_BITS_val : FIELD_BITS = 64. Proof. reflexivity. Qed.
Lemma INFO_SLICES_val : INFO_SLICES = 1. Proof. reflexivity. Qed.
Lemma SLICES_PER_SEGMENT_val : MI_SLICES_PER_SEGMENT = 512. Proof. reflexivity. Qed.
(* the model works at slice granularity: the commit granularity of the build must be one slice *)
Lemma granularity_ok : MI_COMMIT_SIZE = MI_SEGMENT_SLICE_SIZE /\ MI_MINIMAL_COMMIT_SIZE = MI_SEGMENT_SLICE_SIZE /\
  MI_COMMIT_MASK_BITS = MI_SLICES_PER_SEGMENT /\ MI_ARENA_BLOCK_SIZE = MI_SEGMENT_SIZE /\ MI_SECURE = 0.
Proof. repeat split; reflexivity. Qed.
Global Opaque BLOCK_SLICES MASK_BITS FIELD_BITS INFO_SLICES.

(* ---------------------------------------------------------------- ranges *)
Lemma in_range_spec lo n i : in_range lo n i = true <-> lo <= i < lo + n.
Proof. unfold in_range. rewrite andb_true_iff, N.leb_le, N.ltb_lt. tauto. Qed.
Lemma in_range_false lo n i : in_range lo n i = false <-> ~ (lo <= i < lo + n).
Proof. rewrite <- in_range_spec. destruct (in_range lo n i); split; congruence. Qed.

Lemma set_range_in f lo n v i : lo <= i < lo + n -> set_range f lo n v i = v.
Proof. intros H. unfold set_range. apply in_range_spec in H. rewrite H. reflexivity. Qed.
Lemma set_range_out f lo n v i : ~ (lo <= i < lo + n) -> set_range f lo n v i = f i.
Proof. intros H. unfold set_range. apply in_range_false in H. rewrite H. reflexivity. Qed.
Lemma set_range_cases f lo n v i :
  (lo <= i < lo + n /\ set_range f lo n v i = v) \/ (~ (lo <= i < lo + n) /\ set_range f lo n v i = f i).
Proof.
  destruct (in_range lo n i) eqn:E.
  - left. apply in_range_spec in E. split; [exact E|apply set_range_in; exact E].
  - right. apply in_range_false in E. split; [exact E|apply set_range_out; exact E].
Qed.

Lemma range_disjoint_spec lo1 n1 lo2 n2 :
  range_disjoint lo1 n1 lo2 n2 = true <-> (lo1 + n1 <= lo2 \/ lo2 + n2 <= lo1).
Proof. unfold range_disjoint. rewrite orb_true_iff, !N.leb_le. tauto. Qed.
Lemma range_disjoint_sym a b c d : range_disjoint a b c d = range_disjoint c d a b.
Proof. unfold range_disjoint. apply orb_comm. Qed.

Lemma all_from_spec k f lo : all_from k f lo = true <-> (forall i, lo <= i < lo + N.of_nat k -> f i = true).
Proof.
  revert lo. induction k as [|k IH]; intros lo; cbn [all_from].
  - split; [intros _ i Hi; lia|reflexivity].
  - rewrite andb_true_iff, IH. split.
    + intros [H0 H] i Hi. destruct (N.eq_dec i lo) as [->|Hne]; [exact H0|]. apply H. lia.
    + intros H. split; [apply H; lia|]. intros i Hi. apply H. lia.
Qed.
Lemma all_in_spec f lo n : all_in f lo n = true <-> (forall i, lo <= i < lo + n -> f i = true).
Proof. unfold all_in. rewrite all_from_spec, N2Nat.id. tauto. Qed.
Lemma all_from_false k f lo : all_from k f lo = false <-> exists i, lo <= i < lo + N.of_nat k /\ f i = false.
Proof.
  revert lo. induction k as [|k IH]; intros lo; cbn [all_from].
  - split; [discriminate|]. intros [i [Hi _]]. lia.
  - rewrite andb_false_iff, IH. split.
    + intros [H|[i [Hi Hf]]]; [exists lo; split; [lia|exact H]|exists i; split; [lia|exact Hf]].
    + intros [i [Hi Hf]]. destruct (N.eq_dec i lo) as [->|Hne]; [left; exact Hf|right; exists i; split; [lia|exact Hf]].
Qed.
Lemma all_in_false f lo n : all_in f lo n = false <-> exists i, lo <= i < lo + n /\ f i = false.
Proof. unfold all_in. rewrite all_from_false, N2Nat.id. tauto. Qed.
Lemma any_in_spec f lo n : any_in f lo n = true <-> exists i, lo <= i < lo + n /\ f i = true.
Proof.
  unfold any_in. rewrite negb_true_iff, all_in_false. split; intros [i [Hi H]]; exists i; split; auto.
  - apply negb_false_iff in H. exact H.
  - rewrite H. reflexivity.
Qed.
Lemma any_in_false f lo n : any_in f lo n = false <-> (forall i, lo <= i < lo + n -> f i = false).
Proof.
  unfold any_in. rewrite negb_false_iff, all_in_spec. split; intros H i Hi; specialize (H i Hi).
  - apply negb_true_iff in H. exact H.
  - rewrite H. reflexivity.
Qed.

Lemma run_len_le k P i : run_len k P i <= N.of_nat k.
Proof. revert i. induction k as [|k IH]; intros i; cbn [run_len]; [lia|]. destruct (P i); [specialize (IH (i + 1)); lia|lia]. Qed.
Lemma run_len_spec k P i j : i <= j < i + run_len k P i -> P j = true.
Proof.
  revert i. induction k as [|k IH]; intros i Hj; cbn [run_len] in Hj; [lia|].
  destruct (P i) eqn:E; [|lia]. destruct (N.eq_dec j i) as [->|Hne]; [exact E|]. apply (IH (i + 1)). lia.
Qed.

Lemma mask_full_spec i : mask_full i = true <-> i < MASK_BITS.
Proof. unfold mask_full. apply N.ltb_lt. Qed.
Lemma mask_is_full_spec m : mask_is_full m = true <-> forall i, i < MASK_BITS -> m i = true.
Proof. unfold mask_is_full. rewrite all_in_spec. split; intros H i Hi; apply H; lia. Qed.
Lemma mask_is_empty_spec m : mask_is_empty m = true <-> forall i, i < MASK_BITS -> m i = false.
Proof. unfold mask_is_empty. rewrite negb_true_iff, any_in_false. split; intros H i Hi; apply H; lia. Qed.
Lemma mask_range_spec lo n i : mask_range lo n i = true <-> lo <= i < lo + n.
Proof. unfold mask_range, set_range, no_bits. destruct (in_range lo n i) eqn:E; [apply in_range_spec in E; tauto|apply in_range_false in E; split; [discriminate|tauto]]. Qed.

Lemma ask_cases o : exists g o', ask o = (g, o').
Proof. destruct o; eexists; eexists; reflexivity. Qed.

(* ---------------------------------------------------------------- blocks and slices *)
Lemma block_slice_mono a b b' : b <= b' -> block_slice a b <= block_slice a b'.
Proof. unfold block_slice. rewrite BLOCK_SLICES_val. lia. Qed.
(* a slice of the block range [b0, b0+n) lies in exactly one block of it *)
Lemma slice_in_blocks a b0 n x :
  block_slice a b0 <= x < block_slice a b0 + n * BLOCK_SLICES ->
  exists b, b0 <= b < b0 + n /\ block_slice a b <= x < block_slice a b + BLOCK_SLICES.
Proof.
  unfold block_slice. rewrite BLOCK_SLICES_val. intros H.
  exists ((x - a_start a) / 512).
  assert (Hd := N.div_mod (x - a_start a) 512 ltac:(lia)).
  assert (Hm := N.mod_lt (x - a_start a) 512 ltac:(lia)).
  remember ((x - a_start a) / 512) as q. remember ((x - a_start a) mod 512) as r. lia.
Qed.
Lemma block_of_slice_unique a b b' x :
  block_slice a b <= x < block_slice a b + BLOCK_SLICES ->
  block_slice a b' <= x < block_slice a b' + BLOCK_SLICES -> b = b'.
Proof. unfold block_slice. rewrite BLOCK_SLICES_val. intros H1 H2. nia. Qed.
Lemma block_in_range a b0 n b x :
  b0 <= b < b0 + n -> block_slice a b <= x < block_slice a b + BLOCK_SLICES ->
  block_slice a b0 <= x < block_slice a b0 + n * BLOCK_SLICES.
Proof. unfold block_slice. rewrite BLOCK_SLICES_val. intros H1 H2. nia. Qed.

(* ---------------------------------------------------------------- arena_try_alloc_at *)
Definition same_arena_shape (a a' : arena) : Prop :=
  a_start a' = a_start a /\ a_nblocks a' = a_nblocks a /\ a_zero a' = a_zero a.

Lemma arena_claim_spec a b0 n :
  same_arena_shape a (arena_claim a b0 n) /\ a_inuse (arena_claim a b0 n) = set_range (a_inuse a) b0 n true /\
  a_purge (arena_claim a b0 n) = set_range (a_purge a) b0 n false /\ a_committed (arena_claim a b0 n) = a_committed a.
Proof. unfold arena_claim, same_arena_shape. destruct (a_zero a) eqn:E; cbn; rewrite ?E; repeat split; reflexivity. Qed.

Lemma arena_try_alloc_at_spec a acc b0 n commit o mc z a' acc' o' :
  arena_try_alloc_at a acc b0 n commit o = Some (mc, z, a', acc', o') ->
  0 < n /\ b0 + n <= a_nblocks a /\ (forall b, b0 <= b < b0 + n -> a_inuse a b = false) /\
  same_arena_shape a a' /\ a_inuse a' = set_range (a_inuse a) b0 n true /\
  a_purge a' = set_range (a_purge a) b0 n false /\
  (forall b, ~ (b0 <= b < b0 + n) -> a_committed a' b = a_committed a b) /\
  (* the kernel *)
  (forall x, acc x = true -> acc' x = true) /\
  (forall x, ~ (block_slice a b0 <= x < block_slice a b0 + n * BLOCK_SLICES) -> acc' x = acc x) /\
  (* the committed bits of the range, and what the memid says *)
  ((mc = true /\ (forall b, b0 <= b < b0 + n -> a_committed a' b = true) /\
    ((forall b, b0 <= b < b0 + n -> a_committed a b = true) /\ acc' = acc /\ o' = o \/
     (o = true :: o' \/ o = [] /\ o' = []) /\ commit = true /\
     (forall x, block_slice a b0 <= x < block_slice a b0 + n * BLOCK_SLICES -> acc' x = true)))
   \/
   (mc = false /\ (forall b, b0 <= b < b0 + n -> a_committed a' b = false) /\ acc' = acc /\
    (commit = false /\ o' = o \/ commit = true /\ o = false :: o'))).
Proof.
  unfold arena_try_alloc_at. intros H.
  destruct ((n =? 0) || (a_nblocks a <? b0 + n) || any_in (a_inuse a) b0 n) eqn:E0; [discriminate|].
  b2p. rewrite any_in_false in H1.
  destruct (arena_claim_spec a b0 n) as [Hs [Hi [Hp Hc]]].
  split; [lia|]. split; [lia|]. split; [exact H1|].
  assert (Hsh : forall m, same_arena_shape a (with_committed (arena_claim a b0 n) m)).
  { intros m. unfold same_arena_shape in *. cbn. exact Hs. }
  destruct commit.
  - destruct (all_in (a_committed a) b0 n) eqn:Ec.
    + inversion H; subst; clear H. rewrite all_in_spec in Ec.
      repeat (split; [first [assumption | intros; reflexivity | intros; congruence]|]).
      left. split; [reflexivity|]. split; [intros b Hb; rewrite Hc; apply Ec; exact Hb|]. left. auto.
    + destruct (ask_cases o) as [g [o1 Ha]]. rewrite Ha in H. destruct g; inversion H; subst; clear H; cbn.
      * split; [apply Hsh|]. split; [exact Hi|]. split; [exact Hp|].
        split; [intros b Hb; rewrite set_range_out by exact Hb; rewrite Hc; reflexivity|].
        split; [intros x Hx; destruct (set_range_cases acc (block_slice a b0) (n * BLOCK_SLICES) true x) as [[_ ->]|[_ ->]]; auto|].
        split; [intros x Hx; apply set_range_out; exact Hx|].
        left. split; [reflexivity|]. split; [intros b Hb; apply set_range_in; exact Hb|]. right.
        split; [|split; [reflexivity|intros x Hx; apply set_range_in; exact Hx]].
        destruct o as [|g r]; cbn in Ha; inversion Ha; subst; [right; auto|left; reflexivity].
      * split; [apply Hsh|]. split; [exact Hi|]. split; [exact Hp|].
        split; [intros b Hb; rewrite set_range_out by exact Hb; rewrite Hc; reflexivity|].
        split; [auto|]. split; [auto|].
        right. split; [reflexivity|]. split; [intros b Hb; apply set_range_in; exact Hb|]. split; [reflexivity|].
        right. split; [reflexivity|]. destruct o as [|g r]; cbn in Ha; inversion Ha; subst. reflexivity.
  - destruct (all_in (a_committed a) b0 n) eqn:Ec.
    + inversion H; subst; clear H. rewrite all_in_spec in Ec.
      repeat (split; [first [assumption | intros; reflexivity | intros; congruence]|]).
      left. split; [reflexivity|]. split; [intros b Hb; rewrite Hc; apply Ec; exact Hb|]. left. auto.
    + inversion H; subst; clear H; cbn.
      split; [apply Hsh|]. split; [exact Hi|]. split; [exact Hp|].
      split; [intros b Hb; rewrite set_range_out by exact Hb; rewrite Hc; reflexivity|].
      split; [auto|]. split; [auto|].
      right. split; [reflexivity|]. split; [intros b Hb; apply set_range_in; exact Hb|]. split; [reflexivity|]. left. auto.
Qed.

(* ---------------------------------------------------------------- arena_purge / arena_free / the purge scan *)
Definition in_block (a : arena) (b x : N) : Prop := block_slice a b <= x < block_slice a b + BLOCK_SLICES.

(* a transformation of (arena, kernel) that only revokes: committed bits and accessibility only go away, accessibility only
   inside blocks satisfying Q, and a block that lost accessibility is no longer marked committed *)
Record arena_revokes (Q : N -> Prop) (a : arena) (acc : bits) (a' : arena) (acc' : bits) : Prop := {
  ar_shape : same_arena_shape a a';
  ar_committed_dec : forall b, a_committed a' b = true -> a_committed a b = true;
  ar_committed_frame : forall b, ~ Q b -> a_committed a' b = a_committed a b;
  ar_acc_dec : forall x, acc' x = true -> acc x = true;
  ar_acc_frame : forall x, (forall b, Q b -> ~ in_block a b x) -> acc' x = acc x;
  ar_sync : forall b x, in_block a b x -> acc' x = acc x \/ a_committed a' b = false
}.

Lemma arena_revokes_refl Q a acc : arena_revokes Q a acc a acc.
Proof. split; unfold same_arena_shape; auto. Qed.

Lemma arena_revokes_weaken (Q Q' : N -> Prop) a acc a' acc' :
  (forall b, Q b -> Q' b) -> arena_revokes Q a acc a' acc' -> arena_revokes Q' a acc a' acc'.
Proof.
  intros HQ [H1 H2 H3 H4 H5 H6]. split; auto.
Qed.

Lemma in_block_shape a a' b x : same_arena_shape a a' -> (in_block a' b x <-> in_block a b x).
Proof. intros [H1 _]. unfold in_block, block_slice. rewrite H1. tauto. Qed.

Lemma arena_revokes_trans Q a acc a1 acc1 a2 acc2 :
  arena_revokes Q a acc a1 acc1 -> arena_revokes Q a1 acc1 a2 acc2 -> arena_revokes Q a acc a2 acc2.
Proof.
  intros [H1 H2 H3 H4 H5 H6] [G1 G2 G3 G4 G5 G6].
  assert (Hs : same_arena_shape a a2).
  { unfold same_arena_shape in *. destruct H1 as [? [? ?]], G1 as [? [? ?]]. repeat split; congruence. }
  split; auto.
  - intros b Hb. rewrite G3, H3 by exact Hb. reflexivity.
  - intros x Hx. rewrite G5, H5; auto. intros b Hb Hin. apply (Hx b Hb). apply (in_block_shape a a1 b x H1). exact Hin.
  - intros b x Hin. destruct (G6 b x) as [E|E]; [apply (in_block_shape a a1 b x H1); exact Hin| |right; exact E].
    destruct (H6 b x Hin) as [E'|E']; [left; congruence|].
    right. destruct (a_committed a2 b) eqn:E2; [|reflexivity]. apply G2 in E2. congruence.
Qed.

Lemma arena_purge_spec c a acc b0 n o a' acc' o' :
  arena_purge c a acc b0 n o = (a', acc', o') ->
  arena_revokes (fun b => b0 <= b < b0 + n) a acc a' acc' /\ a_inuse a' = a_inuse a.
Proof.
  unfold arena_purge. intros H. destruct (c_decommits c).
  - destruct (ask_cases o) as [g [o1 Ha]]. rewrite Ha in H. inversion H; subst; clear H. split; [|reflexivity].
    split; cbn.
    + unfold same_arena_shape. cbn. auto.
    + intros b Hb. destruct (set_range_cases (a_committed a) b0 n false b) as [[_ E]|[_ E]]; rewrite E in Hb; [discriminate|exact Hb].
    + intros b Hb. apply set_range_out. exact Hb.
    + intros x Hx. destruct g; [|exact Hx].
      destruct (set_range_cases acc (block_slice a b0) (n * BLOCK_SLICES) false x) as [[_ E]|[_ E]]; rewrite E in Hx; [discriminate|exact Hx].
    + intros x Hx. destruct g; [|reflexivity]. apply set_range_out. intros Hin.
      destruct (slice_in_blocks a b0 n x Hin) as [b [Hb Hbx]]. exact (Hx b Hb Hbx).
    + intros b x Hin. destruct g; [|left; reflexivity].
      destruct (set_range_cases acc (block_slice a b0) (n * BLOCK_SLICES) false x) as [[Hr E]|[_ E]]; [|left; exact E].
      right. apply set_range_in. destruct (slice_in_blocks a b0 n x Hr) as [b' [Hb' Hbx]].
      rewrite (block_of_slice_unique a b b' x Hin Hbx). exact Hb'.
  - inversion H; subst; clear H. split; [|reflexivity]. split; cbn; auto. unfold same_arena_shape. cbn. auto.
Qed.

Lemma arena_free_spec c a acc b0 n allc o a' acc' o' :
  arena_free c a acc b0 n allc o = (a', acc', o') ->
  arena_revokes (fun b => b0 <= b < b0 + n) a acc a' acc' /\ a_inuse a' = set_range (a_inuse a) b0 n false /\
  (allc = false -> forall b, b0 <= b < b0 + n -> a_committed a' b = false).
Proof.
  unfold arena_free. intros H.
  set (a1 := if allc then a else with_committed a (set_range (a_committed a) b0 n false)) in *.
  assert (H1 : arena_revokes (fun b => b0 <= b < b0 + n) a acc a1 acc /\ a_inuse a1 = a_inuse a /\
               (allc = false -> forall b, b0 <= b < b0 + n -> a_committed a1 b = false)).
  { subst a1. destruct allc.
    - split; [apply arena_revokes_refl|]. split; [reflexivity|discriminate].
    - split; [|split; [reflexivity|intros _ b Hb; cbn; apply set_range_in; exact Hb]].
      split; cbn; auto.
      + unfold same_arena_shape; cbn; auto.
      + intros b Hb. destruct (set_range_cases (a_committed a) b0 n false b) as [[_ E]|[_ E]]; rewrite E in Hb; [discriminate|exact Hb].
      + intros b Hb. apply set_range_out. exact Hb. }
  destruct H1 as [R1 [I1 C1]].
  destruct (negb (c_allow_purge c)).
  - inversion H; subst; clear H. cbn. split; [|split].
    + destruct R1. split; auto.
    + rewrite I1. reflexivity.
    + exact C1.
  - destruct (c_arena_purge_now c).
    + destruct (arena_purge c a1 acc b0 n o) as [[a2 acc2] o2] eqn:Ep. inversion H; subst; clear H.
      destruct (arena_purge_spec _ _ _ _ _ _ _ _ _ Ep) as [R2 I2].
      assert (R : arena_revokes (fun b => b0 <= b < b0 + n) a acc a2 acc') by (eapply arena_revokes_trans; eauto).
      cbn. split; [|split].
      * destruct R. split; auto.
      * rewrite I2, I1. reflexivity.
      * intros Hc b Hb. destruct (a_committed a2 b) eqn:E; [|reflexivity]. apply (ar_committed_dec _ _ _ _ _ R2) in E.
        rewrite (C1 Hc b Hb) in E. discriminate.
    + inversion H; subst; clear H. cbn. split; [|split].
      * destruct R1. split; auto.
      * rewrite I1. reflexivity.
      * exact C1.
Qed.

Lemma arena_purge_scan_spec c fuel : forall a acc o i a' acc' o',
  arena_purge_scan fuel c a acc o i = (a', acc', o') ->
  arena_revokes (fun b => b < a_nblocks a /\ a_inuse a b = false) a acc a' acc' /\ a_inuse a' = a_inuse a.
Proof.
  induction fuel as [|f IH]; intros a acc o i a' acc' o' H; cbn [arena_purge_scan] in H.
  - inversion H; subst. split; [apply arena_revokes_refl|reflexivity].
  - destruct (a_nblocks a <=? i) eqn:Ei.
    + inversion H; subst. split; [apply arena_revokes_refl|reflexivity].
    + b2p.
      set (lim := N.min (a_nblocks a) ((i / FIELD_BITS + 1) * FIELD_BITS) - i) in *.
      set (P := fun j => a_purge a j && negb (a_inuse a j)) in *.
      set (len := run_len (N.to_nat lim) P i) in *.
      destruct (len =? 0) eqn:El.
      * apply IH in H. exact H.
      * destruct (arena_purge c a acc i len o) as [[a1 acc1] o1] eqn:Ep.
        destruct (arena_purge_spec _ _ _ _ _ _ _ _ _ Ep) as [R1 I1].
        apply IH in H. destruct H as [R2 I2].
        assert (Hlen : len <= lim) by (subst len; pose proof (run_len_le (N.to_nat lim) P i) as Hl; rewrite N2Nat.id in Hl; exact Hl).
        assert (Hlim : i + lim <= a_nblocks a) by (subst lim; remember ((i / FIELD_BITS + 1) * FIELD_BITS) as fe; lia).
        assert (Hsh : same_arena_shape a a1) by (destruct R1; assumption).
        split; [|rewrite I2, I1; reflexivity].
        eapply arena_revokes_trans.
        -- eapply arena_revokes_weaken; [|exact R1]. intros b Hb. cbv beta in Hb |- *.
           assert (HP : P b = true) by (apply (run_len_spec (N.to_nat lim) P i b); exact Hb).
           split; [clearbody len lim; lia|].
           subst P. cbv beta in HP. b2p. assumption.
        -- destruct Hsh as [Hs1 [Hs2 Hs3]].
           destruct R2 as [G1 G2 G3 G4 G5 G6]. split; auto.
           ++ intros b Hb. apply G3. rewrite Hs2, I1. exact Hb.
           ++ intros x Hx. apply G5. intros b Hb. rewrite Hs2, I1 in Hb. intros Hin. exact (Hx b Hb Hin).
Qed.

Lemma arenas_try_purge_spec c a acc o a' acc' o' :
  arenas_try_purge c a acc o = (a', acc', o') ->
  arena_revokes (fun b => b < a_nblocks a /\ a_inuse a b = false) a acc a' acc' /\ a_inuse a' = a_inuse a.
Proof.
  unfold arenas_try_purge. intros H. destruct (negb (c_allow_purge c) || c_arena_purge_now c).
  - inversion H; subst. split; [apply arena_revokes_refl|reflexivity].
  - eapply arena_purge_scan_spec; eauto.
Qed.

(* ---------------------------------------------------------------- segments *)
Definition same_seg_shape (s s' : segment) : Prop :=
  sg_base s' = sg_base s /\ sg_nslices s' = sg_nslices s /\ sg_kind s' = sg_kind s /\ sg_info s' = sg_info s /\
  sg_mem s' = sg_mem s.
Lemma same_seg_shape_refl s : same_seg_shape s s.
Proof. unfold same_seg_shape. auto. Qed.
Lemma same_seg_shape_trans s s1 s2 : same_seg_shape s s1 -> same_seg_shape s1 s2 -> same_seg_shape s s2.
Proof. unfold same_seg_shape. intros [? [? [? [? ?]]]] [? [? [? [? ?]]]]. repeat split; congruence. Qed.
Lemma same_shape_huge s s' : same_seg_shape s s' -> is_huge s' = is_huge s.
Proof. intros [_ [_ [H _]]]. unfold is_huge. rewrite H. reflexivity. Qed.

Lemma commit_range_some s lo n n' :
  commit_range s lo n = Some n' ->
  is_huge s = false /\ 0 < n /\ n <= MASK_BITS /\ lo < sg_nslices s /\ 0 < n' /\ lo + n' = N.min (lo + n) (sg_nslices s).
Proof.
  unfold commit_range. destruct ((n =? 0) || (MASK_BITS <? n) || is_huge s || (sg_nslices s <=? lo)) eqn:E; [discriminate|].
  b2p. destruct (N.min (lo + n) (sg_nslices s) - lo =? 0) eqn:E2; [discriminate|]. intros H'. inversion H'; subst. b2p.
  repeat split; try assumption; lia.
Qed.
Lemma commit_range_huge s lo n : is_huge s = true -> commit_range s lo n = None.
Proof. intros H. unfold commit_range. rewrite H. rewrite !orb_true_r. reflexivity. Qed.
(* the clipped range covers every slice of [lo, lo+n) that exists *)
Lemma commit_range_none s lo n :
  commit_range s lo n = None -> is_huge s = false -> n <= MASK_BITS -> forall i, lo <= i < lo + n -> i < sg_nslices s -> False.
Proof.
  unfold commit_range. intros H Hh Hn i Hi Hs. rewrite Hh in H.
  destruct ((n =? 0) || (MASK_BITS <? n) || false || (sg_nslices s <=? lo)) eqn:E.
  - rewrite !orb_true_iff in E. destruct E as [[[E|E]|E]|E]; b2p; try lia; try discriminate.
  - destruct (N.min (lo + n) (sg_nslices s) - lo =? 0) eqn:E2; [|discriminate]. b2p. lia.
Qed.

(* a transformation of (segment, kernel) that only revokes, on the slice indices Q *)
Record purge_like (Q : N -> Prop) (s : segment) (acc : bits) (s' : segment) (acc' : bits) : Prop := {
  pl_shape : same_seg_shape s s';
  pl_acc_dec : forall x, acc' x = true -> acc x = true;
  pl_acc_frame : forall x, (forall i, Q i -> i < sg_nslices s -> x <> sg_base s + i) -> acc' x = acc x;
  pl_commit_dec : forall i, sg_commit s' i = true -> sg_commit s i = true;
  pl_frame : forall i, ~ Q i -> sg_commit s' i = sg_commit s i /\ sg_purge s' i = sg_purge s i;
  pl_sync : forall i, i < sg_nslices s -> acc' (sg_base s + i) = acc (sg_base s + i) \/ sg_commit s' i = false;
  pl_sub : forall i, (sg_purge s i = true -> sg_commit s i = true) -> (sg_purge s' i = true -> sg_commit s' i = true);
  pl_huge : is_huge s = true -> forall x, acc' x = acc x
}.

Lemma purge_like_refl Q s acc : purge_like Q s acc s acc.
Proof. split; auto using same_seg_shape_refl. Qed.
Lemma purge_like_weaken (Q Q' : N -> Prop) s acc s' acc' :
  (forall i, Q i -> Q' i) -> purge_like Q s acc s' acc' -> purge_like Q' s acc s' acc'.
Proof. intros HQ [H1 H2 H3 H4 H5 H6 H7 H8]. split; auto. Qed.
Lemma purge_like_trans Q s acc s1 acc1 s2 acc2 :
  purge_like Q s acc s1 acc1 -> purge_like Q s1 acc1 s2 acc2 -> purge_like Q s acc s2 acc2.
Proof.
  intros [H1 H2 H3 H4 H5 H6 H7 H8] [G1 G2 G3 G4 G5 G6 G7 G8].
  destruct H1 as [Hb [Hn [Hk [Hi Hm]]]].
  split; auto.
  - eapply same_seg_shape_trans; [|exact G1]. unfold same_seg_shape; auto.
  - intros x Hx. rewrite G3, H3; auto. intros i Hq Hl. rewrite Hb. apply Hx; [exact Hq|rewrite <- Hn; exact Hl].
  - intros i Hq. destruct (G5 i Hq) as [E1 E2], (H5 i Hq) as [E3 E4]. split; congruence.
  - intros i Hl. destruct (G6 i) as [E|E]; [rewrite Hn; exact Hl| |right; exact E]. rewrite Hb in E.
    destruct (H6 i Hl) as [E'|E']; [left; congruence|]. right.
    destruct (sg_commit s2 i) eqn:E2; [|reflexivity]. apply G4 in E2. congruence.
  - intros Hh x. rewrite G8, H8; auto. unfold is_huge in *. rewrite Hk. exact Hh.
Qed.

(* masks with purge-scheduling added on a free range: the kernel is untouched *)
Lemma purge_like_schedule (Q : N -> Prop) s acc (m : bits) :
  (forall i, ~ Q i -> m i = sg_purge s i) -> (forall i, m i = true -> sg_purge s i = true \/ sg_commit s i = true) ->
  purge_like Q s acc (with_purge s m) acc.
Proof.
  intros H1 H2. split; cbn; auto using same_seg_shape_refl.
  - unfold same_seg_shape. cbn. auto.
  - intros i Hs Hi. destruct (H2 i Hi); auto.
Qed.

Lemma segment_purge_spec c s acc lo n o s' acc' o' :
  segment_purge c s acc lo n o = (s', acc', o') ->
  purge_like (fun i => lo <= i < lo + n) s acc s' acc'.
Proof.
  unfold segment_purge. intros H. destruct (negb (c_allow_purge c)); [inversion H; subst; apply purge_like_refl|].
  destruct (commit_range s lo n) as [n'|] eqn:Er; [|inversion H; subst; apply purge_like_refl].
  destruct (commit_range_some _ _ _ _ Er) as [Hh [Hn0 [Hn [Hlo [Hn' Hmin]]]]].
  assert (Hin : forall i, lo <= i < lo + n' -> lo <= i < lo + n /\ i < sg_nslices s) by (intros i Hi; lia).
  destruct (any_in (sg_commit s) lo n' && c_decommits c).
  - destruct (ask_cases o) as [g [o1 Ha]]. rewrite Ha in H. inversion H; subst; clear H. split; cbn.
    + unfold same_seg_shape. cbn. auto.
    + intros x Hx. destruct g; [|exact Hx].
      destruct (set_range_cases acc (sg_base s + lo) n' false x) as [[_ E]|[_ E]]; rewrite E in Hx; [discriminate|exact Hx].
    + intros x Hx. destruct g; [|reflexivity]. apply set_range_out. intros Hr.
      apply (Hx (x - sg_base s)); [apply Hin; lia|lia|lia].
    + intros i Hi. destruct (set_range_cases (sg_commit s) lo n' false i) as [[_ E]|[_ E]]; rewrite E in Hi; [discriminate|exact Hi].
    + intros i Hi. rewrite !set_range_out; [auto| |]; intros Hr; apply Hi; apply Hin; exact Hr.
    + intros i Hi. destruct g; [|left; reflexivity].
      destruct (set_range_cases acc (sg_base s + lo) n' false (sg_base s + i)) as [[Hr E]|[_ E]]; [|left; exact E].
      right. apply set_range_in. lia.
    + intros i Hs Hi. destruct (set_range_cases (sg_purge s) lo n' false i) as [[_ E]|[Hr E]]; rewrite E in Hi; [discriminate|].
      rewrite set_range_out by exact Hr. apply Hs. exact Hi.
    + intros Hh'. congruence.
  - inversion H; subst; clear H.
    apply purge_like_schedule.
    + intros i Hi. apply set_range_out. intros Hr. apply Hi. apply Hin. exact Hr.
    + intros i Hi. left. destruct (set_range_cases (sg_purge s) lo n' false i) as [[_ E]|[_ E]]; rewrite E in Hi; [discriminate|exact Hi].
Qed.

Lemma seg_purge_scan_spec c pm fuel : forall s acc o i s' acc' o',
  seg_purge_scan fuel c pm s acc o i = (s', acc', o') ->
  purge_like (fun j => pm j = true) s acc s' acc'.
Proof.
  induction fuel as [|f IH]; intros s acc o i s' acc' o' H; cbn [seg_purge_scan] in H.
  - inversion H; subst. apply purge_like_refl.
  - destruct (MASK_BITS <=? i); [inversion H; subst; apply purge_like_refl|].
    set (len := run_len (N.to_nat (MASK_BITS - i)) pm i) in *.
    destruct (len =? 0); [apply IH in H; exact H|].
    destruct (segment_purge c s acc i len o) as [[s1 acc1] o1] eqn:Ep.
    apply segment_purge_spec in Ep. apply IH in H.
    eapply purge_like_trans; [|exact H].
    eapply purge_like_weaken; [|exact Ep]. intros j Hj. cbv beta in Hj |- *.
    apply (run_len_spec (N.to_nat (MASK_BITS - i)) pm i j). exact Hj.
Qed.

Lemma segment_try_purge_spec c s acc o s' acc' o' :
  segment_try_purge c s acc o = (s', acc', o') ->
  purge_like (fun j => sg_purge s j = true) s acc s' acc'.
Proof.
  unfold segment_try_purge. intros H.
  destruct (negb (c_allow_purge c) || mask_is_empty (sg_purge s)); [inversion H; subst; apply purge_like_refl|].
  apply seg_purge_scan_spec in H.
  eapply purge_like_trans; [|exact H].
  apply purge_like_schedule.
  - intros i Hi. cbn. unfold no_bits. destruct (sg_purge s i); [contradiction Hi; reflexivity|reflexivity].
  - intros i Hi. discriminate.
Qed.

Lemma span_free_spec c s acc lo n ap o s' acc' o' :
  span_free c s acc lo n ap o = (s', acc', o') ->
  purge_like (fun i => lo <= i < lo + n) s acc s' acc'.
Proof.
  unfold span_free. intros H.
  destruct (negb ap || negb (c_allow_purge c)); [inversion H; subst; apply purge_like_refl|].
  destruct (c_purge_now c); [eapply segment_purge_spec; exact H|].
  destruct (commit_range s lo n) as [n'|] eqn:Er; [|inversion H; subst; apply purge_like_refl].
  destruct (commit_range_some _ _ _ _ Er) as [Hh [Hn0 [Hn [Hlo [Hn' Hmin]]]]].
  inversion H; subst; clear H. apply purge_like_schedule.
  - intros i Hi. destruct (in_range lo n' i) eqn:E; [apply in_range_spec in E; exfalso; apply Hi; lia|].
    cbn. apply orb_false_r.
  - intros i Hi. apply orb_true_iff in Hi. destruct Hi as [Hi|Hi]; [left; exact Hi|right]. b2p. assumption.
Qed.

(* ---- commits *)
Record commit_like (lo n : N) (s : segment) (acc : bits) (s' : segment) (acc' : bits) (ok : bool) : Prop := {
  cl_shape : same_seg_shape s s';
  cl_acc_inc : forall x, acc x = true -> acc' x = true;
  cl_acc_frame : forall x, ~ (sg_base s + lo <= x < sg_base s + lo + n /\ x < sg_base s + sg_nslices s) -> acc' x = acc x;
  cl_fail : ok = false -> s' = s /\ acc' = acc;
  cl_commit_inc : forall i, sg_commit s i = true -> sg_commit s' i = true;
  cl_purge_dec : forall i, sg_purge s' i = true -> sg_purge s i = true;
  cl_frame : forall i, ~ (lo <= i < lo + n) -> sg_commit s' i = sg_commit s i /\ sg_purge s' i = sg_purge s i;
  (* a bit is set only when the commit of that slice was granted *)
  cl_sound : forall i, sg_commit s' i = true -> sg_commit s i = true \/
                                                 (ok = true /\ lo <= i < lo + n /\ i < sg_nslices s /\ acc' (sg_base s + i) = true);
  cl_done : ok = true -> is_huge s = false -> n <= MASK_BITS -> forall i, lo <= i < lo + n -> i < sg_nslices s -> i < MASK_BITS ->
            sg_commit s' i = true /\ sg_purge s' i = false
}.

Lemma segment_commit_spec s acc lo n o s' acc' ok o' :
  segment_commit s acc lo n o = (s', acc', ok, o') ->
  commit_like lo n s acc s' acc' ok /\
  (ok = false -> o = false :: o') /\ (ok = true -> o' = o \/ o = true :: o' \/ o = [] /\ o' = []).
Proof.
  unfold segment_commit. intros H.
  destruct (commit_range s lo n) as [n'|] eqn:Er.
  - destruct (commit_range_some _ _ _ _ Er) as [Hh [Hn0 [Hn [Hlo [Hn' Hmin]]]]].
    assert (Hin : forall i, lo <= i < lo + n' <-> lo <= i < lo + n /\ i < sg_nslices s) by (intros i; lia).
    destruct (all_in (sg_commit s) lo n') eqn:Ea.
    + inversion H; subst; clear H. rewrite all_in_spec in Ea. split; [|split; [discriminate|auto]].
      split; cbn; auto.
      * unfold same_seg_shape; cbn; auto.
      * discriminate.
      * intros i Hi. destruct (set_range_cases (sg_purge s) lo n' false i) as [[_ E]|[_ E]]; rewrite E in Hi; [discriminate|exact Hi].
      * intros i Hi. split; [reflexivity|]. apply set_range_out. rewrite Hin. tauto.
      * intros _ _ _ i Hi Hs _. split; [apply Ea; apply Hin; auto|apply set_range_in; apply Hin; auto].
    + destruct (ask_cases o) as [g [o1 Ha]]. rewrite Ha in H. destruct g; inversion H; subst; clear H.
      * split; [|split; [discriminate|intros _; destruct o as [|g r]; cbn in Ha; inversion Ha; subst; auto]].
        split; cbn.
        -- unfold same_seg_shape; cbn; auto.
        -- intros x Hx. destruct (set_range_cases acc (sg_base s + lo) n' true x) as [[_ E]|[_ E]]; rewrite E; auto.
        -- intros x Hx. apply set_range_out. intros Hr. apply Hx. lia.
        -- discriminate.
        -- intros i Hi. destruct (set_range_cases (sg_commit s) lo n' true i) as [[_ E]|[_ E]]; rewrite E; auto.
        -- intros i Hi. destruct (set_range_cases (sg_purge s) lo n' false i) as [[_ E]|[_ E]]; rewrite E in Hi; [discriminate|exact Hi].
        -- intros i Hi. rewrite !set_range_out; [auto| |]; rewrite Hin; tauto.
        -- intros i Hi. destruct (set_range_cases (sg_commit s) lo n' true i) as [[Hr E]|[_ E]]; rewrite E in Hi; [|left; exact Hi].
           right. split; [reflexivity|]. apply Hin in Hr. destruct Hr as [Hr1 Hr2]. split; [exact Hr1|]. split; [exact Hr2|].
           apply set_range_in. lia.
        -- intros _ _ _ i Hi Hs _. split; apply set_range_in; apply Hin; auto.
      * split; [|split; [intros _; destruct o as [|g r]; cbn in Ha; inversion Ha; subst; reflexivity|discriminate]].
        split; auto using same_seg_shape_refl; try discriminate.
  - inversion H; subst; clear H. split; [|split; [discriminate|auto]].
    split; auto using same_seg_shape_refl; try discriminate.
    intros _ Hh Hn i Hi Hs _. exfalso. exact (commit_range_none _ _ _ Er Hh Hn i Hi Hs).
Qed.

Lemma segment_ensure_committed_spec s acc lo n o s' acc' ok o' :
  segment_ensure_committed s acc lo n o = (s', acc', ok, o') ->
  commit_like lo n s acc s' acc' ok /\
  (ok = false -> o = false :: o') /\ (ok = true -> o' = o \/ o = true :: o' \/ o = [] /\ o' = []).
Proof.
  unfold segment_ensure_committed. intros H.
  destruct (mask_is_full (sg_commit s) && mask_is_empty (sg_purge s)) eqn:E; [|apply segment_commit_spec; exact H].
  inversion H; subst; clear H. b2p. rewrite mask_is_full_spec in H. rewrite mask_is_empty_spec in H0.
  split; [|split; [discriminate|auto]].
  split; auto using same_seg_shape_refl; try discriminate.
Qed.

Lemma span_allocate_spec s acc lo n o r acc' o' :
  span_allocate s acc lo n o = (r, acc', o') ->
  match r with
  | Some s' => commit_like lo n s acc s' acc' true /\ (o' = o \/ o = true :: o' \/ o = [] /\ o' = [])
  | None => acc' = acc /\ o = false :: o'
  end.
Proof.
  unfold span_allocate. intros H.
  destruct (segment_ensure_committed s acc lo n o) as [[[s1 acc1] ok] o1] eqn:E.
  apply segment_ensure_committed_spec in E. destruct E as [E1 [E2 E3]].
  destruct ok; inversion H; subst; clear H.
  - split; [exact E1|apply E3; reflexivity].
  - split; [apply (cl_fail _ _ _ _ _ _ _ E1); reflexivity|apply E2; reflexivity].
Qed.
