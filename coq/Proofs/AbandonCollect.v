(* Property C09, clause "once the last block in it has been freed the memory is released instead of leaked"
   (model part): a forced collect run solo from a quiescent state frees every dead abandoned segment of the
   collector's sub-process.  Model: Model/Abandon.v (collect_prog, collect_prog_of).

   Method: solo-run simulation.  `steps k st t` = k transitions of thread t.  For every op of the collect program
   one lemma characterises the run of the op from Idle to Idle (the number of transitions, the segment that changes
   and how, the OS list, the locks): solo_visit_arena (4 paths: not marked / other sub-process: cleared and marked
   again / dead: reclaimed and freed / live: marked again), solo_visit_os (3 paths: list empty / head dead: popped
   and freed / head live: popped and pushed at the tail), solo_visit_lock, solo_cursor_done.  The arena phase is an
   induction over the visit order (every visited arena segment is clean afterwards and stays clean); the OS phase
   is an induction over the number of visits with the measure `length U` where the entries of the sub-process in
   the OS list are U ++ V, U = not yet popped, V = popped and pushed back (all live). *)
From Coq Require Import NArith ZArith List Bool Lia Arith.
From MiV Require Import Gen.Consts Model.Abandon Proofs.AbandonProofs.
Import ListNotations.
Local Open Scope N_scope.
Local Open Scope bool_scope.

(* ---------------------------------------------------------------------------------------------- *)
(* k transitions of one thread                                                                      *)
(* ---------------------------------------------------------------------------------------------- *)

Fixpoint steps (k : nat) (st : state) (t : nat) : option state :=
  match k with
  | O => Some st
  | S k' => match step st t with Some st' => steps k' st' t | None => None end
  end.

Lemma steps_S k st t : steps (S k) st t = match step st t with Some st' => steps k st' t | None => None end.
Proof. reflexivity. Qed.

Lemma run_solo_steps k : forall st t st' n, steps k st t = Some st' -> run_solo (k + n) st t = run_solo n st' t.
Proof.
  induction k as [|k IH]; intros st t st' n H; cbn [steps] in H.
  - inversion H; subst. reflexivity.
  - cbn [Nat.add run_solo]. destruct (step st t) as [st1|]; [|discriminate]. apply IH. exact H.
Qed.

Lemma steps_app k1 : forall k2 st t st1 st2,
  steps k1 st t = Some st1 -> steps k2 st1 t = Some st2 -> steps (k1 + k2) st t = Some st2.
Proof.
  induction k1 as [|k1 IH]; intros k2 st t st1 st2 H1 H2; cbn [steps] in H1.
  - inversion H1; subst. exact H2.
  - cbn [Nat.add steps]. destruct (step st t) as [st'|]; [|discriminate]. eapply IH; eauto.
Qed.

Lemma steps_Inv k : forall st t st', Inv st -> steps k st t = Some st' -> Inv st'.
Proof.
  induction k as [|k IH]; intros st t st' HI H; cbn [steps] in H.
  - inversion H; subst. exact HI.
  - destruct (step st t) as [st1|] eqn:E; [|discriminate]. eapply IH; [|exact H]. eapply step_Inv; eauto.
Qed.

Lemma steps_reachable k : forall st0 st t st', reachable st0 st -> steps k st t = Some st' -> reachable st0 st'.
Proof.
  induction k as [|k IH]; intros st0 st t st' Hr H; cbn [steps] in H.
  - inversion H; subst. exact Hr.
  - destruct (step st t) as [st1|] eqn:E; [|discriminate]. eapply IH; [|exact H]. eapply reach_step; eauto.
Qed.

(* ---------------------------------------------------------------------------------------------- *)
(* lists                                                                                            *)
(* ---------------------------------------------------------------------------------------------- *)

Lemma upd_nth_const {A} (l : list A) n a f : upd_nth (upd_nth l n (fun _ => a)) n f = upd_nth l n (fun _ => f a).
Proof. revert n. induction l as [|x r IH]; intros [|k]; cbn; auto. rewrite IH. reflexivity. Qed.

Lemma upd_nth_id {A} (l : list A) n x : nth_error l n = Some x -> upd_nth l n (fun _ => x) = l.
Proof.
  revert n. induction l as [|y r IH]; intros [|k] H; cbn in *; try discriminate; [inversion H; reflexivity|].
  rewrite (IH k H). reflexivity.
Qed.

Lemma nth_upd_const {A} (l : list A) n x a : nth_error l n = Some x -> nth_error (upd_nth l n (fun _ => a)) n = Some a.
Proof. intros H. exact (nth_upd_eq l n (fun _ => a) x H). Qed.

Lemma upd_nth_fun_const {A} (l : list A) n x f : nth_error l n = Some x -> upd_nth l n f = upd_nth l n (fun _ => f x).
Proof.
  revert n. induction l as [|y r IH]; intros [|k] H; cbn in *; try discriminate; [inversion H; reflexivity|].
  rewrite (IH k H). reflexivity.
Qed.

Lemma find_filter_hd {A} (f : A -> bool) l : find f l = hd_error (filter f l).
Proof. induction l as [|x r IH]; cbn; [reflexivity|]. destruct (f x); [reflexivity|exact IH]. Qed.

Lemma filter_remove_from f l s : filter f (remove_from l s) = remove_from (filter f l) s.
Proof.
  unfold remove_from. induction l as [|x r IH]; cbn; [reflexivity|].
  destruct (negb (Nat.eqb s x)) eqn:E1; destruct (f x) eqn:E2; cbn; rewrite ?E1, ?E2, IH; reflexivity.
Qed.

Lemma remove_from_app l1 l2 s : remove_from (l1 ++ l2) s = remove_from l1 s ++ remove_from l2 s.
Proof. unfold remove_from. apply filter_app. Qed.

Lemma remove_from_cons_self l s : remove_from (s :: l) s = remove_from l s.
Proof. unfold remove_from. cbn. rewrite Nat.eqb_refl. reflexivity. Qed.

Lemma remove_from_length l s : (length (remove_from l s) <= length l)%nat.
Proof. unfold remove_from. induction l as [|x r IH]; cbn; [lia|]. destruct (negb (Nat.eqb s x)); cbn; lia. Qed.

Lemma remove_from_In l s x : In x (remove_from l s) -> In x l /\ x <> s.
Proof.
  unfold remove_from. intros H. apply filter_In in H as [H1 H2]. split; [exact H1|].
  intros ->. rewrite Nat.eqb_refl in H2. discriminate.
Qed.

Lemma indexed_nth {A} (l : list A) : forall n i x, In (i, x) (indexed n l) -> (n <= i)%nat /\ nth_error l (i - n) = Some x.
Proof.
  induction l as [|y r IH]; intros n i x H; cbn in H; [contradiction|]. destruct H as [H|H].
  - inversion H; subst. split; [lia|]. rewrite Nat.sub_diag. reflexivity.
  - apply IH in H as [H1 H2]. split; [lia|]. replace (i - n)%nat with (S (i - S n)) by lia. exact H2.
Qed.

Lemma forallb_upd_nth {A} (P : A -> bool) l n a :
  forallb P l = true -> P a = true -> forallb P (upd_nth l n (fun _ => a)) = true.
Proof.
  revert n. induction l as [|x r IH]; intros [|k] H Ha; cbn in *; auto; apply andb_prop in H as [H1 H2]; apply andb_true_intro; auto.
Qed.

(* ---------------------------------------------------------------------------------------------- *)
(* symbolic execution of thread t from a state in normal form                                       *)
(*   mkS (upd_nth sgs s (fun _ => G)) l lk vl cnt (upd_nth thr t (fun _ => TH))                     *)
(* ---------------------------------------------------------------------------------------------- *)

Ltac simp_rec :=
  cbv [g_arena g_bit g_subproc g_tid g_flag g_live g_tfree g_delayed g_visits g_freed g_holder
       set_tid set_bit set_flag set_holder set_visits set_blocks set_freed negb
       t_subproc t_prog t_pc t_vlock segs os_list os_lock os_vlock acount threads tl
       o_segs o_list o_lock o_vlock o_count o_pc o_hold o_pop
       keep with_seg with_count apply_outcome decide all_free lock_held existsb fst].

Ltac one_step Hth Hg :=
  rewrite steps_S;
  unfold step at 1, stepx; cbn [threads];
  rewrite (nth_upd_const _ _ _ _ Hth);
  unfold exec; cbn [t_pc t_prog segs t_subproc t_vlock os_lock os_vlock];
  unfold subproc_of; cbn [segs];
  try rewrite (nth_upd_const _ _ _ _ Hg);
  simp_rec;
  rewrite ?upd_nth_const; simp_rec.

Lemma lock_release_self sp t : lock_release [(sp, t)] sp = [].
Proof. unfold lock_release. cbn. rewrite N.eqb_refl. reflexivity. Qed.

Section Paths.
  Variables (sgs : list seg) (l : list nat) (cnt : list (N * Z)) (thr : list thread) (t : nat) (sp : N) (rest : list op) (s : nat).
  Variables (th0 : thread) (g0 : seg).
  Hypothesis Hth : nth_error thr t = Some th0.
  Hypothesis Hg : nth_error sgs s = Some g0.

  Local Notation NF G L lk vl c TH := (mkS (upd_nth sgs s (fun _ => G)) L lk vl c (upd_nth thr t (fun _ => TH))).

  (* --- one cursor visit of arena segment s by _mi_abandoned_collect --- *)

  (* marked, other sub-process: mi_arena_segment_clear_abandoned_at clears the bit, fails the sub-process test, sets it again *)
  Lemma path_arena_other gsp gtid gflag glive gtfree gdel gvis gfr gh lk vl hold :
    (gsp =? sp) = false ->
    steps 4 (NF (mkSeg true gsp gtid true gflag glive gtfree gdel gvis gfr gh) l lk vl cnt (mkT sp (OVisitArena MCollect s false :: rest) Idle hold)) t =
    Some (NF (mkSeg true gsp gtid true gflag glive gtfree gdel gvis gfr None) l lk vl cnt (mkT sp rest Idle hold)).
  Proof.
    intros Hne. one_step Hth Hg. one_step Hth Hg. one_step Hth Hg. rewrite Hne. one_step Hth Hg. reflexivity.
  Qed.

  (* marked, own sub-process, no live block: check_free, used == 0, mi_segment_reclaim frees the segment *)
  Lemma path_arena_dead gtid gflag gtfree gdel gvis gfr gh lk vl hold :
    exists cnt',
    steps 7 (NF (mkSeg true sp gtid true gflag 0 gtfree gdel gvis gfr gh) l lk vl cnt (mkT sp (OVisitArena MCollect s false :: rest) Idle hold)) t =
    Some (NF (mkSeg true sp (tid_of t) false USE 0 0 gdel 0 true None) l lk vl cnt' (mkT sp rest Idle hold)).
  Proof.
    eexists. one_step Hth Hg. one_step Hth Hg. one_step Hth Hg. rewrite N.eqb_refl. one_step Hth Hg. one_step Hth Hg.
    change (0 + 0 =? 0) with true. cbv iota. one_step Hth Hg. one_step Hth Hg. change (0 =? 0) with true. cbv iota.
    simp_rec. rewrite ?upd_nth_const. simp_rec. reflexivity.
  Qed.

  (* marked, own sub-process, live blocks: check_free, then _mi_arena_segment_mark_abandoned *)
  Lemma path_arena_live gtid gflag glive gtfree gdel gvis gfr gh lk vl hold :
    glive <> 0 ->
    exists cnt',
    steps 8 (NF (mkSeg true sp gtid true gflag glive gtfree gdel gvis gfr gh) l lk vl cnt (mkT sp (OVisitArena MCollect s false :: rest) Idle hold)) t =
    Some (NF (mkSeg true sp 0 true gflag glive 0 gdel gvis gfr None) l lk vl cnt' (mkT sp rest Idle hold)).
  Proof.
    intros Hl. apply N.eqb_neq in Hl.
    eexists. one_step Hth Hg. one_step Hth Hg. one_step Hth Hg. rewrite N.eqb_refl. one_step Hth Hg. one_step Hth Hg.
    rewrite N.add_0_r, Hl. one_step Hth Hg. one_step Hth Hg. one_step Hth Hg. reflexivity.
  Qed.

  (* --- one cursor visit of the abandoned OS list: from Vo2 (visit lock and abandoned_os_lock held) --- *)

  Definition head_is (G : seg) (L : list nat) (x : option nat) : Prop :=
    find (fun s0 => match nth_error (upd_nth sgs s (fun _ => G)) s0 with Some g => g_subproc g | None => 0 end =? sp) L = x.

  Lemma path_os_dead gtid gbit gflag gtfree gdel gvis gfr gh vl m :
    let G := mkSeg false sp gtid gbit gflag 0 gtfree gdel gvis gfr gh in
    head_is G l (Some s) ->
    exists cnt',
    steps 6 (NF G l [(sp, t)] vl cnt (mkT sp (OVisitOs MCollect false true :: rest) (Vo2 MCollect false) m)) t =
    Some (NF (mkSeg false sp (tid_of t) gbit USE 0 0 gdel 0 true None) (remove_from l s) [] vl cnt' (mkT sp rest Idle m)).
  Proof.
    intros G Hh. unfold head_is in Hh. subst G.
    eexists. rewrite steps_S. unfold step at 1, stepx; cbn [threads]. rewrite (nth_upd_const _ _ _ _ Hth).
    unfold exec; cbn [t_pc t_prog segs t_subproc t_vlock os_lock os_vlock]. unfold os_head, subproc_of. cbn [segs os_list t_subproc].
    rewrite Hh. simp_rec. rewrite ?upd_nth_const. simp_rec.
    one_step Hth Hg. one_step Hth Hg. rewrite lock_release_self. one_step Hth Hg.
    change (0 + 0 =? 0) with true. cbv iota. one_step Hth Hg. one_step Hth Hg. change (0 =? 0) with true. cbv iota.
    simp_rec. rewrite ?upd_nth_const. simp_rec. reflexivity.
  Qed.

  Lemma path_os_live gtid gbit gflag glive gtfree gdel gvis gfr gh vl m :
    let G := mkSeg false sp gtid gbit gflag glive gtfree gdel gvis gfr gh in
    glive <> 0 ->
    head_is G l (Some s) ->
    exists cnt',
    steps 9 (NF G l [(sp, t)] vl cnt (mkT sp (OVisitOs MCollect false true :: rest) (Vo2 MCollect false) m)) t =
    Some (NF (mkSeg false sp 0 gbit gflag glive 0 gdel gvis gfr None) (remove_from l s ++ [s]) [] vl cnt' (mkT sp rest Idle m)).
  Proof.
    intros G Hl Hh. unfold head_is in Hh. subst G. apply N.eqb_neq in Hl.
    eexists. rewrite steps_S. unfold step at 1, stepx; cbn [threads]. rewrite (nth_upd_const _ _ _ _ Hth).
    unfold exec; cbn [t_pc t_prog segs t_subproc t_vlock os_lock os_vlock]. unfold os_head, subproc_of. cbn [segs os_list t_subproc].
    rewrite Hh. simp_rec. rewrite ?upd_nth_const. simp_rec.
    one_step Hth Hg. one_step Hth Hg. rewrite lock_release_self. one_step Hth Hg.
    rewrite N.add_0_r, Hl. one_step Hth Hg. one_step Hth Hg. one_step Hth Hg. one_step Hth Hg.
    one_step Hth Hg. rewrite lock_release_self. reflexivity.
  Qed.
End Paths.

Section Paths2.
  Variables (sgs : list seg) (l : list nat) (cnt : list (N * Z)) (thr : list thread) (t : nat) (sp : N) (rest : list op).
  Variables (th0 : thread).
  Hypothesis Hth : nth_error thr t = Some th0.

  (* mi_arena_segment_clear_abandoned_next_list up to the pop: the visit lock (already held or free), then abandoned_os_lock *)
  Lemma path_os_prefix (hold : bool) :
    steps 2 (mkS sgs l [] (if hold then [(sp, t)] else []) cnt (upd_nth thr t (fun _ => mkT sp (OVisitOs MCollect false true :: rest) Idle hold))) t =
    Some (mkS sgs l [(sp, t)] [(sp, t)] cnt (upd_nth thr t (fun _ => mkT sp (OVisitOs MCollect false true :: rest) (Vo2 MCollect false) true))).
  Proof. destruct hold; one_step Hth Hth; one_step Hth Hth; reflexivity. Qed.

  (* the list of the sub-process is empty *)
  Lemma path_os_none vl m :
    find (fun s0 => match nth_error sgs s0 with Some g => g_subproc g | None => 0 end =? sp) l = None ->
    steps 2 (mkS sgs l [(sp, t)] vl cnt (upd_nth thr t (fun _ => mkT sp (OVisitOs MCollect false true :: rest) (Vo2 MCollect false) m))) t =
    Some (mkS sgs l [] vl cnt (upd_nth thr t (fun _ => mkT sp rest Idle m))).
  Proof.
    intros Hh. rewrite steps_S. unfold step at 1, stepx; cbn [threads]. rewrite (nth_upd_const _ _ _ _ Hth).
    unfold exec; cbn [t_pc t_prog segs t_subproc t_vlock os_lock os_vlock]. unfold os_head, subproc_of. cbn [segs os_list t_subproc].
    rewrite Hh. simp_rec. rewrite ?upd_nth_const. simp_rec.
    one_step Hth Hth. rewrite lock_release_self. reflexivity.
  Qed.
End Paths2.

(* one transition, general state *)
Lemma steps1 st t TH o : thr_at st t TH -> exec st t TH = Some o ->
  steps 1 st t = Some (mkS (o_segs o) (o_list o) (o_lock o) (o_vlock o) (o_count o)
                         (upd_nth (threads st) t (fun _ => mkT (t_subproc TH) (if o_pop o then tl (t_prog TH) else t_prog TH) (o_pc o) (o_hold o)))).
Proof.
  intros Hth He. cbn [steps]. unfold step, stepx. unfold thr_at in Hth. rewrite Hth, He. unfold apply_outcome.
  rewrite (upd_nth_fun_const _ _ _ _ Hth). reflexivity.
Qed.

Lemma nf_state st t TH s g : thr_at st t TH -> seg_at st s g ->
  st = mkS (upd_nth (segs st) s (fun _ => g)) (os_list st) (os_lock st) (os_vlock st) (acount st) (upd_nth (threads st) t (fun _ => TH)).
Proof. destruct st; unfold thr_at, seg_at; cbn. intros H1 H2. rewrite (upd_nth_id _ _ _ H1), (upd_nth_id _ _ _ H2). reflexivity. Qed.

Lemma nf_state_thr st t TH : thr_at st t TH ->
  st = mkS (segs st) (os_list st) (os_lock st) (os_vlock st) (acount st) (upd_nth (threads st) t (fun _ => TH)).
Proof. destruct st; unfold thr_at; cbn. intros H1. rewrite (upd_nth_id _ _ _ H1). reflexivity. Qed.

(* ---------------------------------------------------------------------------------------------- *)
(* what a collect may do to a segment; clean segments                                               *)
(* ---------------------------------------------------------------------------------------------- *)

(* immutable parts and the live blocks are kept; a segment that is not freed afterwards was not freed before and has the
   same thread_id; a segment that is freed afterwards was freed before or had no live block *)
Definition seg_evol (g g' : seg) : Prop :=
  g_arena g' = g_arena g /\ g_subproc g' = g_subproc g /\ g_live g' = g_live g /\
  (g_freed g' = false -> g_freed g = false /\ g_tid g' = g_tid g) /\
  (g_freed g' = true -> g_freed g = true \/ g_live g = 0).

Lemma seg_evol_refl g : seg_evol g g.
Proof. unfold seg_evol. repeat split; auto. Qed.

Lemma seg_evol_trans g1 g2 g3 : seg_evol g1 g2 -> seg_evol g2 g3 -> seg_evol g1 g3.
Proof.
  intros (A1 & A2 & A3 & A4 & A5) (B1 & B2 & B3 & B4 & B5). unfold seg_evol. repeat split; try congruence.
  - destruct (B4 H) as [X _]. destruct (A4 X) as [Y _]. exact Y.
  - destruct (B4 H) as [X Y]. destruct (A4 X) as [_ Z]. congruence.
  - intros Hf. destruct (B5 Hf) as [X|X]; [auto|right; congruence].
Qed.

Definition evol (st st' : state) : Prop := forall i g, seg_at st i g -> exists g', seg_at st' i g' /\ seg_evol g g'.

Lemma evol_refl st : evol st st.
Proof. intros i g H. exists g. split; [exact H|apply seg_evol_refl]. Qed.

Lemma evol_trans st1 st2 st3 : evol st1 st2 -> evol st2 st3 -> evol st1 st3.
Proof.
  intros H1 H2 i g Hg. destruct (H1 i g Hg) as (g2 & A & B). destruct (H2 i g2 A) as (g3 & C & D).
  exists g3. split; [exact C|eapply seg_evol_trans; eauto].
Qed.

(* arena segment i is clean: not (of sub-process sp, marked, without live block) *)
Definition aclean (st : state) (sp : N) (i : nat) : Prop :=
  forall g, seg_at st i g -> g_arena g = true -> g_subproc g = sp -> g_bit g = true -> g_live g <> 0.

(* the frame of one op of thread t that works on segment s *)
Record op_frame (st st' : state) (t : nat) (TH' : thread) (s : nat) : Prop := mkFrame {
  of_thr : threads st' = upd_nth (threads st) t (fun _ => TH');
  of_len : length (segs st') = length (segs st);
  of_other : forall j, j <> s -> nth_error (segs st') j = nth_error (segs st) j;
  of_evol : forall g, seg_at st s g -> exists g', seg_at st' s g' /\ seg_evol g g'
}.

Lemma op_frame_evol st st' t TH' s : op_frame st st' t TH' s -> evol st st'.
Proof.
  intros [_ _ F3 F4] i g Hg. destruct (Nat.eq_dec i s) as [->|Hne]; [exact (F4 g Hg)|].
  exists g. split; [unfold seg_at; rewrite (F3 i Hne); exact Hg|apply seg_evol_refl].
Qed.

Lemma op_frame_subproc st st' t TH' s x : op_frame st st' t TH' s -> subproc_of st' x = subproc_of st x.
Proof.
  intros F. unfold subproc_of. destruct (Nat.eq_dec x s) as [->|Hne]; [|rewrite (of_other _ _ _ _ _ F x Hne); reflexivity].
  destruct (nth_error (segs st) s) as [g|] eqn:E.
  - destruct (of_evol _ _ _ _ _ F g E) as (g' & A & B). unfold seg_at in A. rewrite A. destruct B as (_ & B & _). exact B.
  - destruct (nth_error (segs st') s) as [g'|] eqn:E'; [|reflexivity].
    exfalso. apply nth_error_None in E. assert (X : nth_error (segs st') s <> None) by congruence.
    apply nth_error_Some in X. rewrite (of_len _ _ _ _ _ F) in X. lia.
Qed.

Lemma nf_frame st t TH s g G' l' lk' vl' cnt' TH' :
  thr_at st t TH -> seg_at st s g -> seg_evol g G' ->
  let st' := mkS (upd_nth (segs st) s (fun _ => G')) l' lk' vl' cnt' (upd_nth (threads st) t (fun _ => TH')) in
  op_frame st st' t TH' s /\ seg_at st' s G'.
Proof.
  intros Hth Hg He st'. split; [constructor|].
  - reflexivity.
  - cbn. apply upd_nth_length.
  - intros j Hj. cbn. apply nth_upd_neq. auto.
  - intros g1 Hg1. unfold seg_at in Hg, Hg1. rewrite Hg in Hg1. inversion Hg1; subst g1. exists G'. split; [|exact He].
    unfold seg_at. cbn. exact (nth_upd_const _ _ _ _ Hg).
  - unfold seg_at. cbn. exact (nth_upd_const _ _ _ _ Hg).
Qed.

Lemma same_frame st t l' lk' vl' cnt' TH' s :
  let st' := mkS (segs st) l' lk' vl' cnt' (upd_nth (threads st) t (fun _ => TH')) in
  op_frame st st' t TH' s.
Proof.
  intros st'. constructor; try reflexivity. intros g Hg. exists g. split; [exact Hg|apply seg_evol_refl].
Qed.

(* ---------------------------------------------------------------------------------------------- *)
(* the ops of a forced collect, run solo from Idle to Idle                                          *)
(* ---------------------------------------------------------------------------------------------- *)

Lemma aclean_same st st' sp i : nth_error (segs st') i = nth_error (segs st) i -> aclean st sp i -> aclean st' sp i.
Proof. intros E H g Hg. unfold seg_at in Hg. rewrite E in Hg. exact (H g Hg). Qed.

(* one cursor visit of arena segment s (OVisitArena MCollect s false) *)
Lemma solo_visit_arena st t sp s rest hold :
  Inv st -> thr_at st t (mkT sp (OVisitArena MCollect s false :: rest) Idle hold) ->
  exists k st', (k <= 8)%nat /\ steps k st t = Some st' /\
    op_frame st st' t (mkT sp rest Idle hold) s /\
    os_list st' = os_list st /\ os_lock st' = os_lock st /\ os_vlock st' = os_vlock st /\
    (forall g, seg_at st s g -> g_arena g = false -> seg_at st' s g) /\
    aclean st' sp s.
Proof.
  intros HI Hth.
  (* the visit that finds nothing to do: one transition *)
  assert (Hskip : exec st t (mkT sp (OVisitArena MCollect s false :: rest) Idle hold) =
                  Some (keep st (mkT sp (OVisitArena MCollect s false :: rest) Idle hold) Idle true
                          match nth_error (segs st) s with
                          | Some g => if g_arena g then [(t, LBit s, zb (g_bit g), zb (g_bit g))] else []
                          | None => [] end) ->
          (forall g, seg_at st s g -> g_arena g = true -> g_bit g = false) ->
          exists k st', (k <= 8)%nat /\ steps k st t = Some st' /\
            op_frame st st' t (mkT sp rest Idle hold) s /\
            os_list st' = os_list st /\ os_lock st' = os_lock st /\ os_vlock st' = os_vlock st /\
            (forall g, seg_at st s g -> g_arena g = false -> seg_at st' s g) /\
            aclean st' sp s).
  { intros He Hb. exists 1%nat. eexists. split; [lia|]. split; [exact (steps1 _ _ _ _ Hth He)|].
    unfold keep. cbn [o_segs o_list o_lock o_vlock o_count o_pop o_pc o_hold t_subproc t_prog t_vlock tl].
    split; [apply same_frame|]. cbn [os_list os_lock os_vlock]. repeat split; auto.
    intros g Hg Ha Hsp Hbit. unfold seg_at in Hg. cbn [segs] in Hg. rewrite (Hb g Hg Ha) in Hbit. discriminate. }
  destruct (nth_error (segs st) s) as [g|] eqn:Eg.
  2:{ apply Hskip; [unfold exec; cbn [t_pc t_prog]; rewrite Eg; reflexivity|]. intros g Hg. unfold seg_at in Hg. congruence. }
  destruct (g_arena g) eqn:Ea.
  2:{ apply Hskip; [unfold exec; cbn [t_pc t_prog]; rewrite Eg, Ea; reflexivity|].
      intros g1 Hg1. unfold seg_at in Hg1. rewrite Eg in Hg1. inversion Hg1; subst g1. congruence. }
  destruct (g_bit g) eqn:Eb.
  2:{ apply Hskip; [unfold exec; cbn [t_pc t_prog]; rewrite Eg, Ea, Eb; reflexivity|].
      intros g1 Hg1. unfold seg_at in Hg1. rewrite Eg in Hg1. inversion Hg1; subst g1. auto. }
  clear Hskip.
  assert (Hm : marked st s = true) by (rewrite (marked_self st s g Eg), Ea; exact Eb).
  destruct (inv_marked st s g HI Eg Hm) as (Hf & Ht & Hh & Hfl).
  assert (Hold : forall g1, seg_at st s g1 -> g_arena g1 = false -> False).
  { intros g1 Hg1 Ha1. unfold seg_at in Hg1. rewrite Eg in Hg1. inversion Hg1; subst g1. congruence. }
  destruct g as [ga gsp gtid gbit gflag glive gtfree gdel gvis gfr gh]. cbn in Ea, Eb, Hf, Ht, Hh, Hfl. subst ga gbit gfr gtid gh.
  destruct (gsp =? sp) eqn:Esp.
  - apply N.eqb_eq in Esp. subst gsp. destruct (N.eq_dec glive 0) as [El|El].
    + (* dead: freed *)
      subst glive.
      destruct (path_arena_dead (segs st) (os_list st) (acount st) (threads st) t sp rest s _ _ Hth Eg 0 gflag gtfree gdel gvis false None
                  (os_lock st) (os_vlock st) hold) as (cnt' & P).
      rewrite <- (nf_state st t _ s _ Hth Eg) in P.
      exists 7%nat. eexists. split; [lia|]. split; [exact P|].
      match goal with |- op_frame _ ?st' _ _ _ /\ _ =>
        destruct (nf_frame st t _ s _ (mkSeg true sp (tid_of t) false USE 0 0 gdel 0 true None) (os_list st) (os_lock st) (os_vlock st) cnt'
                    (mkT sp rest Idle hold) Hth Eg) as [F1 F2] end.
      { unfold seg_evol. cbn. repeat split; auto; discriminate. }
      split; [exact F1|]. cbn [os_list os_lock os_vlock]. repeat split; auto.
      * intros g1 Hg1 Ha1. exfalso. eauto.
      * intros g1 Hg1 _ _ Hb1. unfold seg_at in Hg1, F2. rewrite F2 in Hg1. inversion Hg1; subst g1. discriminate.
    + (* live: marked again *)
      destruct (path_arena_live (segs st) (os_list st) (acount st) (threads st) t sp rest s _ _ Hth Eg 0 gflag glive gtfree gdel gvis false None
                  (os_lock st) (os_vlock st) hold El) as (cnt' & P).
      rewrite <- (nf_state st t _ s _ Hth Eg) in P.
      exists 8%nat. eexists. split; [lia|]. split; [exact P|].
      destruct (nf_frame st t _ s _ (mkSeg true sp 0 true gflag glive 0 gdel gvis false None) (os_list st) (os_lock st) (os_vlock st) cnt'
                  (mkT sp rest Idle hold) Hth Eg) as [F1 F2].
      { unfold seg_evol. cbn. repeat split; auto; discriminate. }
      split; [exact F1|]. cbn [os_list os_lock os_vlock]. repeat split; auto.
      * intros g1 Hg1 Ha1. exfalso. eauto.
      * intros g1 Hg1 _ _ _. unfold seg_at in Hg1, F2. rewrite F2 in Hg1. inversion Hg1; subst g1. exact El.
  - (* other sub-process: cleared and marked again *)
    pose proof (path_arena_other (segs st) (os_list st) (acount st) (threads st) t sp rest s _ _ Hth Eg gsp 0 gflag glive gtfree gdel gvis false None
                  (os_lock st) (os_vlock st) hold Esp) as P.
    rewrite <- (nf_state st t _ s _ Hth Eg) in P.
    exists 4%nat. eexists. split; [lia|]. split; [exact P|].
    destruct (nf_frame st t _ s _ (mkSeg true gsp 0 true gflag glive gtfree gdel gvis false None) (os_list st) (os_lock st) (os_vlock st) (acount st)
                (mkT sp rest Idle hold) Hth Eg) as [F1 F2].
    { apply seg_evol_refl. }
    split; [exact F1|]. cbn [os_list os_lock os_vlock]. repeat split; auto.
    * intros g1 Hg1 Ha1. exfalso. eauto.
    * intros g1 Hg1 _ Hsp1 _. unfold seg_at in Hg1, F2. rewrite F2 in Hg1. inversion Hg1; subst g1. cbn in Hsp1. subst gsp.
      rewrite N.eqb_refl in Esp. discriminate.
Qed.

Lemma os_head_entries st sp : os_head st sp = hd_error (os_entries st sp).
Proof. unfold os_head, os_entries. apply find_filter_hd. Qed.

(* one cursor visit of the abandoned OS list (OVisitOs MCollect false true): the head entry of the sub-process is popped;
   dead: reclaimed and freed; live: pushed at the tail *)
Lemma solo_visit_os st t sp rest hold :
  Inv st -> thr_at st t (mkT sp (OVisitOs MCollect false true :: rest) Idle hold) ->
  os_lock st = [] -> os_vlock st = (if hold then [(sp, t)] else []) ->
  exists k st', (k <= 11)%nat /\ steps k st t = Some st' /\ os_lock st' = [] /\ os_vlock st' = [(sp, t)] /\
    ((os_entries st sp = [] /\ op_frame st st' t (mkT sp rest Idle true) 0 /\ segs st' = segs st /\ os_list st' = os_list st) \/
     (exists s R g g', os_entries st sp = s :: R /\ seg_at st s g /\ g_arena g = false /\ g_subproc g = sp /\
        op_frame st st' t (mkT sp rest Idle true) s /\ seg_at st' s g' /\
        ((g_live g = 0 /\ g_freed g' = true /\ os_list st' = remove_from (os_list st) s) \/
         (g_live g <> 0 /\ os_list st' = remove_from (os_list st) s ++ [s])))).
Proof.
  intros HI Hth Hlk Hvl.
  pose proof (path_os_prefix (segs st) (os_list st) (acount st) (threads st) t sp rest _ Hth hold) as P0.
  pose proof (nf_state_thr st t _ Hth) as Est. rewrite Hlk, Hvl in Est. rewrite <- Est in P0. clear Est.
  destruct (os_head st sp) as [s|] eqn:Eh.
  - (* an entry *)
    pose proof Eh as Eh'. rewrite os_head_entries in Eh'. destruct (os_entries st sp) as [|s' R] eqn:Ee; [discriminate|].
    cbn in Eh'. inversion Eh'; subst s'. clear Eh'.
    unfold os_head in Eh. apply find_some in Eh as [Hin Hsp]. apply N.eqb_eq in Hsp.
    destruct HI as (HS & HT & HL). destruct (HL s Hin) as (g & Eg & Ha).
    assert (Hsp' : g_subproc g = sp) by (unfold subproc_of in Hsp; unfold seg_at in Eg; rewrite Eg in Hsp; exact Hsp).
    assert (Hhd : forall G, G = g -> head_is (segs st) sp s G (os_list st) (Some s)).
    { intros G ->. unfold head_is. rewrite (upd_nth_id _ _ _ Eg).
      pose proof (os_head_entries st sp) as X. rewrite Ee in X. exact X. }
    destruct g as [ga gsp gtid gbit gflag glive gtfree gdel gvis gfr gh]. cbn in Ha, Hsp'. subst ga gsp.
    destruct (N.eq_dec glive 0) as [El|El].
    + subst glive.
      destruct (path_os_dead (segs st) (os_list st) (acount st) (threads st) t sp (rest) s _ _ Hth Eg gtid gbit gflag gtfree gdel gvis gfr gh
                  [(sp, t)] true (Hhd _ eq_refl)) as (cnt' & P).
      rewrite (upd_nth_id _ _ _ Eg) in P.
      exists (2 + 6)%nat. eexists. split; [lia|]. split; [exact (steps_app _ _ _ _ _ _ P0 P)|].
      cbn [os_lock os_vlock]. split; [reflexivity|]. split; [reflexivity|]. right.
      destruct (nf_frame st t _ s _ (mkSeg false sp (tid_of t) gbit USE 0 0 gdel 0 true None) (remove_from (os_list st) s) [] [(sp, t)] cnt'
                  (mkT sp rest Idle true) Hth Eg) as [F1 F2].
      { unfold seg_evol. cbn. repeat split; auto; discriminate. }
      eexists s, R, _, _. split; [reflexivity|]. split; [exact Eg|]. split; [reflexivity|]. split; [reflexivity|].
      split; [exact F1|]. split; [exact F2|]. left. cbn. auto.
    + destruct (path_os_live (segs st) (os_list st) (acount st) (threads st) t sp (rest) s _ _ Hth Eg gtid gbit gflag glive gtfree gdel gvis gfr gh
                  [(sp, t)] true El (Hhd _ eq_refl)) as (cnt' & P).
      rewrite (upd_nth_id _ _ _ Eg) in P.
      exists (2 + 9)%nat. eexists. split; [lia|]. split; [exact (steps_app _ _ _ _ _ _ P0 P)|].
      cbn [os_lock os_vlock]. split; [reflexivity|]. split; [reflexivity|]. right.
      assert (Hm : marked st s = true).
      { rewrite (marked_self st s _ Eg). cbn. apply in_list_spec. exact Hin. }
      destruct (inv_marked st s _ (conj HS (conj HT HL)) Eg Hm) as (Hf & Ht & Hh & Hfl). cbn in Hf, Ht, Hh, Hfl. subst gfr gtid gh.
      destruct (nf_frame st t _ s _ (mkSeg false sp 0 gbit gflag glive 0 gdel gvis false None) (remove_from (os_list st) s ++ [s]) [] [(sp, t)] cnt'
                  (mkT sp rest Idle true) Hth Eg) as [F1 F2].
      { unfold seg_evol. cbn. repeat split; auto; discriminate. }
      eexists s, R, _, _. split; [reflexivity|]. split; [exact Eg|]. split; [reflexivity|]. split; [reflexivity|].
      split; [exact F1|]. split; [exact F2|]. right. cbn. auto.
  - (* no entry of this sub-process *)
    pose proof Eh as Eh'. rewrite os_head_entries in Eh'. destruct (os_entries st sp) as [|s' R] eqn:Ee; [|discriminate].
    pose proof (path_os_none (segs st) (os_list st) (acount st) (threads st) t sp rest _ Hth [(sp, t)] true Eh) as P.
    exists (2 + 2)%nat. eexists. split; [lia|]. split; [exact (steps_app _ _ _ _ _ _ P0 P)|].
    cbn [os_lock os_vlock]. split; [reflexivity|]. split; [reflexivity|]. left.
    split; [reflexivity|]. split; [apply same_frame|]. cbn. auto.
Qed.

(* OVisitLock true: the blocking acquire of the visit lock without a list visit *)
Lemma solo_visit_lock st t sp rest hold :
  thr_at st t (mkT sp (OVisitLock true :: rest) Idle hold) -> os_vlock st = (if hold then [(sp, t)] else []) ->
  exists st', steps 1 st t = Some st' /\ op_frame st st' t (mkT sp rest Idle true) 0 /\
    segs st' = segs st /\ os_list st' = os_list st /\ os_lock st' = os_lock st /\ os_vlock st' = [(sp, t)].
Proof.
  intros Hth Hvl. destruct hold.
  - eexists. split; [eapply steps1; [exact Hth|]; unfold exec; cbn [t_pc t_prog t_vlock]; reflexivity|].
    unfold keep. cbn [o_segs o_list o_lock o_vlock o_count o_pop o_pc o_hold t_subproc t_prog t_vlock tl].
    split; [apply same_frame|]. cbn. auto.
  - eexists. split; [eapply steps1; [exact Hth|]; unfold exec; cbn [t_pc t_prog t_vlock t_subproc]; rewrite Hvl; cbn [lock_held existsb]; reflexivity|].
    cbn [o_segs o_list o_lock o_vlock o_count o_pop o_pc o_hold t_subproc t_prog t_vlock tl].
    split; [apply same_frame|]. cbn. auto.
Qed.

(* OCursorDone: _mi_arena_field_cursor_done releases the visit lock when the cursor holds it *)
Lemma solo_cursor_done st t sp rest hold :
  thr_at st t (mkT sp (OCursorDone :: rest) Idle hold) -> os_vlock st = (if hold then [(sp, t)] else []) ->
  exists st', steps 1 st t = Some st' /\ op_frame st st' t (mkT sp rest Idle false) 0 /\
    segs st' = segs st /\ os_list st' = os_list st /\ os_lock st' = os_lock st /\ os_vlock st' = [].
Proof.
  intros Hth Hvl. destruct hold.
  - eexists. split; [eapply steps1; [exact Hth|]; unfold exec; cbn [t_pc t_prog t_vlock t_subproc]; reflexivity|].
    cbn [o_segs o_list o_lock o_vlock o_count o_pop o_pc o_hold t_subproc t_prog t_vlock tl].
    split; [apply same_frame|]. cbn [segs os_list os_lock os_vlock]. rewrite Hvl, lock_release_self. auto.
  - eexists. split; [eapply steps1; [exact Hth|]; unfold exec; cbn [t_pc t_prog t_vlock]; reflexivity|].
    unfold keep. cbn [o_segs o_list o_lock o_vlock o_count o_pop o_pc o_hold t_subproc t_prog t_vlock tl].
    split; [apply same_frame|]. cbn. auto.
Qed.

(* ---------------------------------------------------------------------------------------------- *)
(* the arena phase: induction over the visit order                                                  *)
(* ---------------------------------------------------------------------------------------------- *)

Lemma thr_at_frame st st' t TH TH' s : thr_at st t TH -> op_frame st st' t TH' s -> thr_at st' t TH'.
Proof. intros Hth F. unfold thr_at. rewrite (of_thr _ _ _ _ _ F). exact (nth_upd_const _ _ _ _ Hth). Qed.

Lemma arena_phase order : forall st t sp rest hold,
  Inv st -> thr_at st t (mkT sp (map (fun s => OVisitArena MCollect s false) order ++ rest) Idle hold) ->
  exists k st', (k <= 8 * length order)%nat /\ steps k st t = Some st' /\
    threads st' = upd_nth (threads st) t (fun _ => mkT sp rest Idle hold) /\
    length (segs st') = length (segs st) /\
    os_list st' = os_list st /\ os_lock st' = os_lock st /\ os_vlock st' = os_vlock st /\
    evol st st' /\
    (forall i g, seg_at st i g -> g_arena g = false -> seg_at st' i g) /\
    (forall i, In i order -> aclean st' sp i) /\
    (forall i, aclean st sp i -> aclean st' sp i).
Proof.
  induction order as [|s order IH]; intros st t sp rest hold HI Hth.
  - exists 0%nat, st. cbn [map app] in Hth. split; [cbn; lia|]. split; [reflexivity|].
    split; [symmetry; apply upd_nth_id; exact Hth|]. repeat split; auto. apply evol_refl. intros i [].
  - cbn [map app] in Hth.
    destruct (solo_visit_arena st t sp s _ hold HI Hth) as (k1 & st1 & Hk1 & P1 & F & E1 & E2 & E3 & Hos & Hcl).
    pose proof (steps_Inv _ _ _ _ HI P1) as HI1. pose proof (thr_at_frame _ _ _ _ _ _ Hth F) as Hth1.
    destruct (IH st1 t sp rest hold HI1 Hth1) as (k2 & st2 & Hk2 & P2 & T2 & L2 & E1' & E2' & E3' & Ev2 & Hos2 & Hin2 & Hcl2).
    exists (k1 + k2)%nat, st2. split; [cbn [length]; lia|]. split; [exact (steps_app _ _ _ _ _ _ P1 P2)|].
    split; [rewrite T2, (of_thr _ _ _ _ _ F), upd_nth_const; reflexivity|].
    split; [rewrite L2; exact (of_len _ _ _ _ _ F)|].
    split; [congruence|]. split; [congruence|]. split; [congruence|].
    split; [eapply evol_trans; [exact (op_frame_evol _ _ _ _ _ F)|exact Ev2]|].
    split; [|split].
    + intros i g Hg Ha. apply Hos2; [|exact Ha]. destruct (Nat.eq_dec i s) as [->|Hne]; [auto|].
      unfold seg_at. rewrite (of_other _ _ _ _ _ F i Hne). exact Hg.
    + intros i [<-|Hi]; [apply Hcl2; exact Hcl|apply Hin2; exact Hi].
    + intros i Hi. apply Hcl2. destruct (Nat.eq_dec i s) as [->|Hne]; [exact Hcl|].
      eapply aclean_same; [exact (of_other _ _ _ _ _ F i Hne)|exact Hi].
Qed.

(* ---------------------------------------------------------------------------------------------- *)
(* the OS phase: the entries of the sub-process are U ++ V, U not yet popped, V popped and pushed back *)
(* ---------------------------------------------------------------------------------------------- *)

Definition live_at (st : state) (s : nat) : Prop := exists g, seg_at st s g /\ g_live g <> 0.

Definition os_inv (st : state) (sp : N) (u : nat) : Prop :=
  exists U V, os_entries st sp = U ++ V /\ (length U <= u)%nat /\ Forall (live_at st) V.

Lemma os_entries_frame st st' t TH' s sp l' :
  op_frame st st' t TH' s -> os_list st' = l' -> os_entries st' sp = filter (fun x => subproc_of st x =? sp) l'.
Proof.
  intros F El. unfold os_entries. rewrite El. apply filter_ext. intros x. rewrite (op_frame_subproc _ _ _ _ _ x F). reflexivity.
Qed.

Lemma os_visit_inv st st' t sp rest hold k u :
  Inv st -> thr_at st t (mkT sp (OVisitOs MCollect false true :: rest) Idle hold) ->
  os_lock st = [] -> os_vlock st = (if hold then [(sp, t)] else []) -> os_inv st sp u ->
  forall (R : (os_entries st sp = [] /\ op_frame st st' t (mkT sp rest Idle true) 0 /\ segs st' = segs st /\ os_list st' = os_list st) \/
     (exists s R g g', os_entries st sp = s :: R /\ seg_at st s g /\ g_arena g = false /\ g_subproc g = sp /\
        op_frame st st' t (mkT sp rest Idle true) s /\ seg_at st' s g' /\
        ((g_live g = 0 /\ g_freed g' = true /\ os_list st' = remove_from (os_list st) s) \/
         (g_live g <> 0 /\ os_list st' = remove_from (os_list st) s ++ [s])))),
  steps k st t = Some st' ->
  os_inv st' sp (u - 1) /\ (forall i g, seg_at st i g -> g_arena g = true -> seg_at st' i g).
Proof.
  intros HI Hth Hlk Hvl (U & V & HUV & HU & HV) R P.
  destruct R as [(He & F & Es & El)|(s & R & g & g' & He & Hg & Ha & Hsp & F & Hg' & Hcase)].
  - split.
    + assert (Hent : os_entries st' sp = []).
      { rewrite (os_entries_frame _ _ _ _ _ sp _ F El). fold (os_entries st sp). exact He. }
      exists [], []. rewrite Hent. split; [reflexivity|]. split; [cbn; lia|constructor].
    + intros i g Hg _. unfold seg_at. rewrite Es. exact Hg.
  - assert (Hkeep : forall x, x <> s -> live_at st x -> live_at st' x).
    { intros x Hx (gx & A & B). exists gx. split; [|exact B]. unfold seg_at. rewrite (of_other _ _ _ _ _ F x Hx). exact A. }
    destruct (of_evol _ _ _ _ _ F g Hg) as (g1 & Hg1 & Ev). unfold seg_at in Hg1, Hg'. rewrite Hg' in Hg1. inversion Hg1; subst g1. clear Hg1.
    destruct Ev as (Ea & _ & Elive & _ & _).
    split.
    2:{ intros i gi Hi Hai. destruct (Nat.eq_dec i s) as [->|Hne].
        - unfold seg_at in Hi, Hg. rewrite Hg in Hi. inversion Hi; subst gi. congruence.
        - unfold seg_at. rewrite (of_other _ _ _ _ _ F i Hne). exact Hi. }
    assert (HR : U ++ V = s :: R) by congruence.
    assert (Hfs : (subproc_of st s =? sp) = true).
    { unfold subproc_of. unfold seg_at in Hg. rewrite Hg, Hsp. apply N.eqb_refl. }
    destruct Hcase as [(Hl & _ & El)|(Hl & El)].
    + (* dead: popped and freed *)
      assert (Hent : os_entries st' sp = remove_from (U ++ V) s).
      { rewrite (os_entries_frame _ _ _ _ _ sp _ F El), filter_remove_from. fold (os_entries st sp). rewrite HUV. reflexivity. }
      unfold os_inv. rewrite Hent. clear Hent.
      destruct U as [|u0 U'].
      * cbn [app] in HR. subst V. exfalso. inversion HV as [|x y Hx Hy]; subst. destruct Hx as (gx & A & B).
        unfold seg_at in A, Hg. rewrite Hg in A. inversion A; subst gx. auto.
      * cbn [app] in HR. inversion HR; subst u0. clear HR.
        exists (remove_from U' s), (remove_from V s). cbn [app]. rewrite remove_from_cons_self, remove_from_app.
        split; [reflexivity|]. split; [pose proof (remove_from_length U' s); cbn [length] in HU; lia|].
        apply Forall_forall. intros x Hx. apply remove_from_In in Hx as [Hx1 Hx2]. apply Hkeep; [exact Hx2|].
        rewrite Forall_forall in HV. auto.
    + (* live: popped and pushed at the tail *)
      assert (Hls : live_at st' s) by (exists g'; split; [exact Hg'|congruence]).
      assert (Hent : os_entries st' sp = remove_from (U ++ V) s ++ [s]).
      { rewrite (os_entries_frame _ _ _ _ _ sp _ F El), filter_app, filter_remove_from. fold (os_entries st sp). rewrite HUV.
        cbn [filter]. rewrite Hfs. reflexivity. }
      unfold os_inv. rewrite Hent. clear Hent.
      destruct U as [|u0 U'].
      * cbn [app] in HR. subst V. exists [], (remove_from (s :: R) s ++ [s]). cbn [app].
        split; [reflexivity|]. split; [cbn; lia|].
        apply Forall_app. split; [|constructor; [exact Hls|constructor]].
        apply Forall_forall. intros x Hx. apply remove_from_In in Hx as [Hx1 Hx2]. apply Hkeep; [exact Hx2|].
        rewrite Forall_forall in HV. auto.
      * cbn [app] in HR. inversion HR; subst u0. clear HR.
        exists (remove_from U' s), (remove_from V s ++ [s]). cbn [app]. rewrite remove_from_cons_self, remove_from_app, app_assoc.
        split; [reflexivity|]. split; [pose proof (remove_from_length U' s); cbn [length] in HU; lia|].
        apply Forall_app. split; [|constructor; [exact Hls|constructor]].
        apply Forall_forall. intros x Hx. apply remove_from_In in Hx as [Hx1 Hx2]. apply Hkeep; [exact Hx2|].
        rewrite Forall_forall in HV. auto.
Qed.

Lemma os_phase n : forall st t sp rest hold u,
  Inv st -> thr_at st t (mkT sp (repeat (OVisitOs MCollect false true) n ++ rest) Idle hold) ->
  os_lock st = [] -> os_vlock st = (if hold then [(sp, t)] else []) -> os_inv st sp u ->
  exists k st' hold', (k <= 11 * n)%nat /\ steps k st t = Some st' /\
    threads st' = upd_nth (threads st) t (fun _ => mkT sp rest Idle hold') /\
    length (segs st') = length (segs st) /\
    os_lock st' = [] /\ os_vlock st' = (if hold' then [(sp, t)] else []) /\
    evol st st' /\
    (forall i g, seg_at st i g -> g_arena g = true -> seg_at st' i g) /\
    os_inv st' sp (u - n).
Proof.
  induction n as [|n IH]; intros st t sp rest hold u HI Hth Hlk Hvl Hinv.
  - exists 0%nat, st, hold. cbn [repeat app] in Hth. split; [lia|]. split; [reflexivity|].
    split; [symmetry; apply upd_nth_id; exact Hth|]. repeat split; auto. apply evol_refl. rewrite Nat.sub_0_r. exact Hinv.
  - cbn [repeat app] in Hth.
    destruct (solo_visit_os st t sp _ hold HI Hth Hlk Hvl) as (k1 & st1 & Hk1 & P1 & Hlk1 & Hvl1 & R).
    destruct (os_visit_inv st st1 t sp _ hold k1 u HI Hth Hlk Hvl Hinv R P1) as (Hinv1 & Har1).
    assert (F : exists s, op_frame st st1 t (mkT sp (repeat (OVisitOs MCollect false true) n ++ rest) Idle true) s).
    { destruct R as [(_ & F & _)|(s & _ & _ & _ & _ & _ & _ & _ & F & _)]; eauto. }
    destruct F as (s & F).
    pose proof (steps_Inv _ _ _ _ HI P1) as HI1. pose proof (thr_at_frame _ _ _ _ _ _ Hth F) as Hth1.
    destruct (IH st1 t sp rest true (u - 1)%nat HI1 Hth1 Hlk1 Hvl1 Hinv1) as (k2 & st2 & hold' & Hk2 & P2 & T2 & L2 & Hlk2 & Hvl2 & Ev2 & Har2 & Hinv2).
    exists (k1 + k2)%nat, st2, hold'. split; [lia|]. split; [exact (steps_app _ _ _ _ _ _ P1 P2)|].
    split; [rewrite T2, (of_thr _ _ _ _ _ F), upd_nth_const; reflexivity|].
    split; [rewrite L2; exact (of_len _ _ _ _ _ F)|].
    split; [exact Hlk2|]. split; [exact Hvl2|].
    split; [eapply evol_trans; [exact (op_frame_evol _ _ _ _ _ F)|exact Ev2]|].
    split; [intros i g Hg Ha; apply Har2; auto|].
    replace (u - S n)%nat with (u - 1 - n)%nat by lia. exact Hinv2.
Qed.

(* ---------------------------------------------------------------------------------------------- *)
(* quiescent states                                                                                 *)
(* ---------------------------------------------------------------------------------------------- *)

Lemma quiescent_thr st t th : quiescent st = true -> thr_at st t th -> t_pc th = Idle /\ t_vlock th = false.
Proof.
  intros Hq Hth. unfold quiescent in Hq. apply andb_prop in Hq as [Hq _]. rewrite forallb_forall in Hq.
  specialize (Hq th (nth_error_In _ _ Hth)). destruct (t_pc th); try discriminate. split; [reflexivity|].
  apply negb_true_iff in Hq. exact Hq.
Qed.

Lemma quiescent_locks st : quiescent st = true -> os_lock st = [] /\ os_vlock st = [].
Proof.
  intros Hq. unfold quiescent in Hq. apply andb_prop in Hq as [_ Hq].
  destruct (os_lock st); [|discriminate]. destruct (os_vlock st); [|discriminate]. auto.
Qed.

Lemma quiescent_after st st' t sp prog :
  quiescent st = true -> threads st' = upd_nth (threads st) t (fun _ => mkT sp prog Idle false) ->
  os_lock st' = [] -> os_vlock st' = [] -> quiescent st' = true.
Proof.
  intros Hq Ht Hl Hv. unfold quiescent in *. rewrite Ht, Hl, Hv. apply andb_prop in Hq as [Hq _].
  rewrite andb_true_r. apply forallb_upd_nth; [exact Hq|reflexivity].
Qed.

(* no segment is orphaned: in a quiescent state of the invariant every abandoned segment (thread_id = 0, not freed) is
   marked -- its bit is set or it is in the abandoned OS list -- so the cursor of the next collect finds it *)
Lemma quiescent_abandoned_marked st i g :
  Inv st -> quiescent st = true -> seg_at st i g -> g_freed g = false -> g_tid g = 0 -> marked st i = true.
Proof.
  intros (HS & _ & _) Hq Hg Hf Ht. destruct (HS i g Hg) as [_ _ S3 S4 _ _].
  destruct (S3 Hf Ht) as [[_ Hm]|[[t2 Hh] _]]; [exact Hm|].
  destruct (S4 t2 Hh) as (th2 & Hth2 & Hp). destruct (quiescent_thr st t2 th2 Hq Hth2) as [Hpc _].
  rewrite Hpc in Hp. discriminate.
Qed.

Lemma no_dead_intro st sp :
  (forall i g, seg_at st i g -> g_subproc g = sp -> marked st i = true -> g_freed g = false -> g_live g <> 0) ->
  no_dead_abandoned_b st sp = true.
Proof.
  intros H. unfold no_dead_abandoned_b. apply forallb_forall. intros [i g] Hin. apply indexed_nth in Hin as [_ Hin].
  rewrite Nat.sub_0_r in Hin. cbn [fst snd]. apply negb_true_iff.
  destruct (g_subproc g =? sp) eqn:E1; [|reflexivity]. destruct (marked st i) eqn:E2; [|reflexivity].
  destruct (g_freed g) eqn:E3; [reflexivity|]. cbn. apply N.eqb_neq. apply N.eqb_eq in E1. apply (H i g); auto.
Qed.

Lemma no_dead_elim st sp i g :
  no_dead_abandoned_b st sp = true -> seg_at st i g -> g_subproc g = sp -> marked st i = true -> g_freed g = false -> g_live g <> 0.
Proof.
  intros H Hg Hsp Hm Hf. unfold no_dead_abandoned_b in H. rewrite forallb_forall in H.
  specialize (H (i, g) (indexed_In _ 0%nat i g Hg)). cbn [fst snd] in H. rewrite Hm, Hf in H.
  apply N.eqb_eq in Hsp. rewrite Hsp in H. cbn in H. apply negb_true_iff in H. apply N.eqb_neq in H. exact H.
Qed.

Lemma run_solo_done n st t sp hold : thr_at st t (mkT sp [] Idle hold) -> run_solo n st t = st.
Proof.
  intros Hth. destruct n; [reflexivity|]. cbn [run_solo]. unfold step, stepx. unfold thr_at in Hth. rewrite Hth. reflexivity.
Qed.

(* ---------------------------------------------------------------------------------------------- *)
(* the forced collect                                                                               *)
(* ---------------------------------------------------------------------------------------------- *)

(* what a forced collect of thread t (sub-process sp) run solo from st establishes in st' *)
Definition collect_post (st st' : state) (t : nat) (sp : N) : Prop :=
  no_dead_abandoned_b st' sp = true /\ quiescent st' = true /\ Inv st' /\
  (* t is back between two calls with nothing left to do *)
  thr_at st' t (mkT sp [] Idle false) /\
  (* segments: immutable parts and live blocks kept; only segments without live blocks are freed; thread_id of the others kept *)
  evol st st' /\
  (* every abandoned segment of the sub-process without live blocks is freed *)
  (forall i g, seg_at st i g -> g_subproc g = sp -> g_tid g = 0 -> g_freed g = false -> g_live g = 0 ->
     exists g', seg_at st' i g' /\ g_freed g' = true).

Theorem collect_solo_gen st t th order vl n_os fuel :
  Inv st -> quiescent st = true -> thr_at st t th ->
  t_prog th = collect_prog_of order vl n_os ->
  (forall i, (i < length (segs st))%nat -> In i order) ->
  (os_count st (t_subproc th) <= n_os)%nat ->
  (8 * length order + 11 * n_os + 2 <= fuel)%nat ->
  collect_post st (run_solo fuel st t) t (t_subproc th).
Proof.
  intros HI Hq Hth Hprog Hord Hnos Hfuel.
  destruct (quiescent_thr _ _ _ Hq Hth) as [Hpc Hvl0]. destruct (quiescent_locks _ Hq) as [Hlk Hvl].
  destruct th as [sp prog pc hold0]. cbn [t_subproc t_prog t_pc t_vlock] in *. subst prog pc hold0.
  unfold collect_prog_of in Hth.
  (* arena phase *)
  destruct (arena_phase order st t sp _ false HI Hth) as (k1 & st1 & Hk1 & P1 & T1 & L1 & El1 & Elk1 & Evl1 & Ev1 & Hos1 & Hcl1 & _).
  pose proof (steps_Inv _ _ _ _ HI P1) as HI1.
  assert (Hth1 : thr_at st1 t (mkT sp ((if vl then [OVisitLock true] else []) ++ repeat (OVisitOs MCollect false true) n_os ++ [OCursorDone]) Idle false)).
  { unfold thr_at. rewrite T1. exact (nth_upd_const _ _ _ _ Hth). }
  (* the visit lock without a visit *)
  assert (Hmid : exists k st2 hold, (k <= 1)%nat /\ steps k st1 t = Some st2 /\
            threads st2 = upd_nth (threads st1) t (fun _ => mkT sp (repeat (OVisitOs MCollect false true) n_os ++ [OCursorDone]) Idle hold) /\
            segs st2 = segs st1 /\ os_list st2 = os_list st1 /\ os_lock st2 = [] /\ os_vlock st2 = (if hold then [(sp, t)] else [])).
  { destruct vl.
    - cbn [app] in Hth1. destruct (solo_visit_lock st1 t sp _ false Hth1) as (st2 & P & F & E1 & E2 & E3 & E4); [congruence|].
      exists 1%nat, st2, true. split; [lia|]. split; [exact P|]. split; [exact (of_thr _ _ _ _ _ F)|]. repeat split; congruence.
    - cbn [app] in Hth1. exists 0%nat, st1, false. split; [lia|]. split; [reflexivity|].
      split; [symmetry; apply upd_nth_id; exact Hth1|]. repeat split; congruence. }
  destruct Hmid as (km & st2 & hold & Hkm & P2 & T2 & S2 & El2 & Elk2 & Evl2).
  pose proof (steps_Inv _ _ _ _ HI1 P2) as HI2.
  assert (Hth2 : thr_at st2 t (mkT sp (repeat (OVisitOs MCollect false true) n_os ++ [OCursorDone]) Idle hold)).
  { unfold thr_at. rewrite T2. exact (nth_upd_const _ _ _ _ Hth1). }
  (* OS phase *)
  assert (Hent2 : os_entries st2 sp = os_entries st sp).
  { unfold os_entries. rewrite El2, El1. apply filter_ext. intros x. unfold subproc_of. rewrite S2.
    destruct (nth_error (segs st) x) as [g|] eqn:E.
    - destruct (Ev1 x g E) as (g' & A & B). unfold seg_at in A. rewrite A. destruct B as (_ & B & _). rewrite B. reflexivity.
    - destruct (nth_error (segs st1) x) as [g'|] eqn:E'; [|reflexivity].
      exfalso. apply nth_error_None in E. assert (X : nth_error (segs st1) x <> None) by congruence.
      apply nth_error_Some in X. lia. }
  assert (Hinv2 : os_inv st2 sp n_os).
  { exists (os_entries st2 sp), []. rewrite app_nil_r. split; [reflexivity|]. split; [|constructor].
    rewrite Hent2. exact Hnos. }
  destruct (os_phase n_os st2 t sp _ hold n_os HI2 Hth2 Elk2 Evl2 Hinv2)
    as (k3 & st3 & hold3 & Hk3 & P3 & T3 & L3 & Elk3 & Evl3 & Ev3 & Har3 & Hinv3).
  pose proof (steps_Inv _ _ _ _ HI2 P3) as HI3.
  assert (Hth3 : thr_at st3 t (mkT sp [OCursorDone] Idle hold3)).
  { unfold thr_at. rewrite T3. exact (nth_upd_const _ _ _ _ Hth2). }
  (* cursor done *)
  destruct (solo_cursor_done st3 t sp [] hold3 Hth3 Evl3) as (st4 & P4 & F4 & S4 & El4 & Elk4 & Evl4).
  pose proof (steps_Inv _ _ _ _ HI3 P4) as HI4.
  pose proof (thr_at_frame _ _ _ _ _ _ Hth3 F4) as Hth4.
  (* the run *)
  pose proof (steps_app _ _ _ _ _ _ (steps_app _ _ _ _ _ _ (steps_app _ _ _ _ _ _ P1 P2) P3) P4) as P.
  assert (Hrun : run_solo fuel st t = st4).
  { replace fuel with ((k1 + km + k3 + 1) + (fuel - (k1 + km + k3 + 1)))%nat by lia.
    rewrite (run_solo_steps _ _ _ _ _ P). exact (run_solo_done _ _ _ _ _ Hth4). }
  rewrite Hrun. clear Hrun P.
  assert (Ev : evol st st4).
  { eapply evol_trans; [exact Ev1|]. eapply evol_trans; [|eapply evol_trans; [exact Ev3|]].
    - intros i g Hg. exists g. split; [unfold seg_at; rewrite S2; exact Hg|apply seg_evol_refl].
    - intros i g Hg. exists g. split; [unfold seg_at; rewrite S4; exact Hg|apply seg_evol_refl]. }
  assert (Hq4 : quiescent st4 = true).
  { eapply quiescent_after with (st := st) (t := t) (sp := sp) (prog := []); [exact Hq| |congruence|exact Evl4].
    rewrite (of_thr _ _ _ _ _ F4), T3, T2, T1, !upd_nth_const. reflexivity. }
  assert (Hnd : no_dead_abandoned_b st4 sp = true).
  { apply no_dead_intro. intros i g Hg Hsp Hm Hf. unfold seg_at in Hg. rewrite S4 in Hg.
    assert (Hi : (i < length (segs st))%nat).
    { rewrite <- L1, <- S2, <- L3. apply nth_error_Some. congruence. }
    rewrite (marked_self st4 i g) in Hm by (unfold seg_at; rewrite S4; exact Hg).
    destruct (g_arena g) eqn:Ea.
    - (* arena segment: visited in the arena phase, not touched afterwards *)
      assert (H1 : exists g1, nth_error (segs st1) i = Some g1).
      { destruct (nth_error (segs st1) i) eqn:E; [eauto|]. apply nth_error_None in E. lia. }
      destruct H1 as (g1 & Hg1). assert (Hg2 : seg_at st2 i g1) by (unfold seg_at; rewrite S2; exact Hg1).
      destruct (Ev3 i g1 Hg2) as (g3 & Hg3 & (Ea3 & _)). unfold seg_at in Hg3. rewrite Hg in Hg3. inversion Hg3; subst g3.
      assert (Ea1 : g_arena g1 = true) by congruence.
      pose proof (Har3 i g1 Hg2 Ea1) as X. unfold seg_at in X. rewrite Hg in X. inversion X; subst g1.
      exact (Hcl1 i (Hord i Hi) g Hg1 Ea Hsp Hm).
    - (* OS segment: every entry of the sub-process has been popped *)
      rewrite El4 in Hm. apply in_list_spec in Hm.
      destruct Hinv3 as (U & V & HUV & HU & HV). rewrite Nat.sub_diag in HU. destruct U; [|cbn in HU; lia]. cbn [app] in HUV.
      assert (Hin : In i (os_entries st3 sp)).
      { unfold os_entries. apply filter_In. split; [exact Hm|]. unfold subproc_of. rewrite Hg, Hsp. apply N.eqb_refl. }
      rewrite HUV in Hin. rewrite Forall_forall in HV. destruct (HV i Hin) as (g' & A & B).
      unfold seg_at in A. rewrite Hg in A. inversion A; subst g'. exact B. }
  unfold collect_post. split; [exact Hnd|]. split; [exact Hq4|]. split; [exact HI4|]. split; [exact Hth4|]. split; [exact Ev|].
  intros i g Hg Hsp Ht Hf Hl. destruct (Ev i g Hg) as (g' & Hg' & (_ & Esp & Elive & Enf & _)). exists g'. split; [exact Hg'|].
  destruct (g_freed g') eqn:Ef'; [reflexivity|]. exfalso. destruct (Enf eq_refl) as [_ Et].
  assert (Hm : marked st4 i = true) by (apply (quiescent_abandoned_marked st4 i g' HI4 Hq4 Hg' Ef'); congruence).
  apply (no_dead_elim st4 sp i g' Hnd Hg'); congruence.
Qed.

Lemma collect_prog_of_seq nsegs nos : collect_prog nsegs nos = collect_prog_of (seq 0 nsegs) false nos.
Proof. reflexivity. Qed.

Lemma os_count_le st sp : (os_count st sp <= length (os_list st))%nat.
Proof.
  unfold os_count, os_entries. generalize (os_list st). intros l. induction l as [|x r IH]; cbn; [lia|].
  destruct (subproc_of st x =? sp); cbn; lia.
Qed.

(* the cursor of _mi_abandoned_collect as collect_prog describes it: arena segments in index order, no visit lock without a visit *)
Theorem collect_solo st t th n_os fuel :
  Inv st -> quiescent st = true -> thr_at st t th ->
  t_prog th = collect_prog (length (segs st)) n_os ->
  (os_count st (t_subproc th) <= n_os)%nat ->
  (16 * (length (segs st) + n_os + 1) <= fuel)%nat ->
  collect_post st (run_solo fuel st t) t (t_subproc th).
Proof.
  intros HI Hq Hth Hprog Hnos Hfuel. rewrite collect_prog_of_seq in Hprog.
  apply (collect_solo_gen st t th (seq 0 (length (segs st))) false n_os fuel HI Hq Hth Hprog); [|exact Hnos|rewrite seq_length; lia].
  intros i Hi. apply in_seq. lia.
Qed.

(* the statement that was open in Proofs/AbandonOpen.v (collect_frees_dead_abandoned_stmt), verbatim *)
Theorem collect_frees_dead_abandoned :
  forall st t th n_os fuel,
    Inv st -> quiescent st = true -> nth_error (threads st) t = Some th ->
    t_prog th = collect_prog (length (segs st)) n_os -> (length (os_list st) <= n_os)%nat ->
    (16 * (length (segs st) + n_os + 1) <= fuel)%nat ->
    let st' := run_solo fuel st t in
    no_dead_abandoned_b st' (t_subproc th) = true /\ quiescent st' = true /\ Inv st'.
Proof.
  intros st t th n_os fuel HI Hq Hth Hprog Hn Hfuel st'.
  assert (Hnos : (os_count st (t_subproc th) <= n_os)%nat) by (pose proof (os_count_le st (t_subproc th)); lia).
  destruct (collect_solo st t th n_os fuel HI Hq Hth Hprog Hnos Hfuel) as (A & B & C & _). auto.
Qed.

Lemma run_solo_reachable fuel : forall st0 st t, reachable st0 st -> reachable st0 (run_solo fuel st t).
Proof.
  induction fuel as [|k IH]; intros st0 st t Hr; [exact Hr|]. cbn [run_solo].
  destruct (step st t) as [st'|] eqn:E; [|exact Hr]. apply IH. eapply reach_step; eauto.
Qed.

(* never leaked, over reachable states: no abandoned segment is orphaned at quiescence ... *)
Theorem no_orphan_quiescent st0 st i g :
  Inv st0 -> reachable st0 st -> quiescent st = true -> seg_at st i g -> g_freed g = false -> g_tid g = 0 ->
  marked st i = true /\ (forall t, ~ in_hand st i t).
Proof.
  intros H0 Hr Hq Hg Hf Ht. pose proof (reachable_Inv _ _ H0 Hr) as HI. split.
  - eapply quiescent_abandoned_marked; eauto.
  - intros t (th & Hth & Hp). destruct (quiescent_thr st t th Hq Hth) as [Hpc _]. rewrite Hpc in Hp. discriminate.
Qed.

(* ... and the next forced collect of any thread of its sub-process releases it when its last block has been freed *)
Theorem dead_abandoned_released st0 st t th order vl n_os fuel i g :
  Inv st0 -> reachable st0 st -> quiescent st = true ->
  thr_at st t th -> t_prog th = collect_prog_of order vl n_os ->
  (forall j, (j < length (segs st))%nat -> In j order) -> (os_count st (t_subproc th) <= n_os)%nat ->
  (8 * length order + 11 * n_os + 2 <= fuel)%nat ->
  seg_at st i g -> g_subproc g = t_subproc th -> g_tid g = 0 -> g_freed g = false -> g_live g = 0 ->
  let st' := run_solo fuel st t in
  reachable st0 st' /\ quiescent st' = true /\ exists g', seg_at st' i g' /\ g_freed g' = true.
Proof.
  intros H0 Hr Hq Hth Hprog Hord Hnos Hfuel Hg Hsp Ht Hf Hl st'.
  pose proof (reachable_Inv _ _ H0 Hr) as HI.
  destruct (collect_solo_gen st t th order vl n_os fuel HI Hq Hth Hprog Hord Hnos Hfuel) as (_ & B & _ & _ & _ & F).
  split; [apply run_solo_reachable; exact Hr|]. split; [exact B|]. exact (F i g Hg Hsp Ht Hf Hl).
Qed.

(* ---------------------------------------------------------------------------------------------- *)
(* examples (non-vacuity)                                                                           *)
(* ---------------------------------------------------------------------------------------------- *)

(* two sub-processes; segments 0 arena/sp 1/dead (two blocks on the page thread-free lists), 1 OS/sp 1/dead, 2 arena/sp 1/live,
   3 arena/sp 2/dead, 4 OS/sp 1/live, 5 OS/sp 2/dead, 6 arena/sp 1/owned by thread 0; the OS list interleaves the entries of
   the two sub-processes.  Thread 0 (sp 1): the cursor starts at segment 3 and wraps, takes the visit lock, os_list_count = 2.
   Thread 1 (sp 2): index order, os_list_count = 1. *)
Definition ex_quiet2 : state :=
  mkS [mkSeg true 1 0 true NEVER 0 2 0 1 false None; mkSeg false 1 0 false NEVER 0 0 0 1 false None;
       mkSeg true 1 0 true NEVER 3 1 0 1 false None; mkSeg true 2 0 true NEVER 0 0 0 1 false None;
       mkSeg false 1 0 false NEVER 1 0 0 1 false None; mkSeg false 2 0 false NEVER 0 1 0 1 false None;
       mkSeg true 1 1 false USE 2 0 0 0 false None]
      [1; 5; 4]%nat [] [] [(1, 4%Z); (2, 2%Z)]
      [mkT 1 (collect_prog_of [3; 4; 5; 6; 0; 1; 2]%nat true 2) Idle false; mkT 2 (collect_prog 7 1) Idle false].

Example ex_collect2 :
  inv_b ex_quiet2 = true /\ quiescent ex_quiet2 = true /\ count_ok_b ex_quiet2 [1; 2] = true /\
  os_count ex_quiet2 1 = 2%nat /\ os_count ex_quiet2 2 = 1%nat /\
  no_dead_abandoned_b ex_quiet2 1 = false /\ no_dead_abandoned_b ex_quiet2 2 = false /\
  let st := run_solo (8 * 7 + 11 * 2 + 2) ex_quiet2 0 in
  inv_b st = true /\ quiescent st = true /\ no_dead_abandoned_b st 1 = true /\ no_dead_abandoned_b st 2 = false /\
  map g_freed (segs st) = [true; true; false; false; false; false; false] /\ os_list st = [5; 4]%nat /\
  map g_live (segs st) = map g_live (segs ex_quiet2) /\ count_ok_b st [1; 2] = true /\
  let st2 := run_solo (16 * (7 + 1 + 1)) st 1 in
  inv_b st2 = true /\ quiescent st2 = true /\ finished st2 = true /\ no_dead_abandoned_b st2 1 = true /\ no_dead_abandoned_b st2 2 = true /\
  map g_freed (segs st2) = [true; true; false; true; false; true; false] /\ os_list st2 = [4]%nat /\
  map (fun g => (g_tid g, g_bit g)) (segs st2) = [(1, false); (1, false); (0, true); (2, false); (0, false); (2, false); (1, false)] /\
  count_ok_b st2 [1; 2] = true.
Proof. vm_compute. repeat split; reflexivity. Qed.

(* the hypotheses of collect_solo_gen / dead_abandoned_released hold for thread 0 in ex_quiet2 *)
Example ex_collect2_hyps :
  Inv ex_quiet2 /\ quiescent ex_quiet2 = true /\
  thr_at ex_quiet2 0 (mkT 1 (collect_prog_of [3; 4; 5; 6; 0; 1; 2]%nat true 2) Idle false) /\
  (forall j, (j < length (segs ex_quiet2))%nat -> In j [3; 4; 5; 6; 0; 1; 2]%nat) /\
  (os_count ex_quiet2 1 <= 2)%nat.
Proof.
  split; [apply inv_b_sound; vm_compute; reflexivity|]. split; [vm_compute; reflexivity|]. split; [reflexivity|].
  split; [|vm_compute; lia].
  intros j Hj. cbn in Hj. do 7 (destruct j as [|j]; [cbn; tauto|]). lia.
Qed.
