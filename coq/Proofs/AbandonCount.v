(* The accounting of subproc->abandoned_count in the abandonment model (property C09, model part):
   in every reachable state, for every sub-process, abandoned_count = number of marked segments of the sub-process
   + the corrections of the threads that are between the change of a mark and the change of the count
   (a clear decrements afterwards, a mark increments afterwards); hence at quiescence the count is exact.
   This proves the statement that was kept open as abandoned_count_quiescent_stmt in Proofs/AbandonOpen.v. *)
From Coq Require Import NArith ZArith List Bool Lia Arith.
From MiV Require Import Gen.Consts Model.Abandon Proofs.AbandonProofs Proofs.AbandonTrace.
Import ListNotations.
Local Open Scope Z_scope.
Local Open Scope bool_scope.

(* the segment whose mark a pc has changed without the matching change of the count, and the correction *)
Definition pend_seg (p : pc) : option (nat * Z) :=
  match p with
  | Ab4a s | Ab4p s => Some (s, -1)
  | Fr4 s | Fr3p s | Vs1 _ s _ | VsR s | Vs2 _ s _ | Vo2c _ s _ => Some (s, 1)
  | _ => None
  end.

Definition pend (sg : list seg) (p : pc) (sp : N) : Z :=
  match pend_seg p with
  | Some (s, d) => match nth_error sg s with Some g => if (g_subproc g =? sp)%N then d else 0 | None => 0 end
  | None => 0
  end.

Definition pend_sum (sg : list seg) (thr : list thread) (sp : N) : Z :=
  fold_right (fun th a => pend sg (t_pc th) sp + a) 0 thr.

Definition count_inv (st : state) (sp : N) : Prop :=
  get_count (acount st) sp = marked_count st sp + pend_sum (segs st) (threads st) sp.

(* ---- counting over an indexed list ---- *)
Definition cnt (P : nat -> seg -> bool) (n : nat) (l : list seg) : Z :=
  Z.of_nat (length (filter (fun ig => P (fst ig) (snd ig)) (indexed n l))).

Lemma cnt_cons P n g l : cnt P n (g :: l) = zb (P n g) + cnt P (S n) l.
Proof. unfold cnt. cbn [indexed filter fst snd]. destruct (P n g); cbn [length zb]; lia. Qed.

Lemma cnt_ext P P' n l :
  (forall i g, nth_error l i = Some g -> P' (n + i)%nat g = P (n + i)%nat g) -> cnt P' n l = cnt P n l.
Proof.
  revert n. induction l as [|g r IH]; intros n H; [reflexivity|]. rewrite !cnt_cons.
  pose proof (H 0%nat g eq_refl) as H0. rewrite Nat.add_0_r in H0. rewrite H0. f_equal.
  apply IH. intros i gi Hi. replace (S n + i)%nat with (n + S i)%nat by lia. apply H. exact Hi.
Qed.

Lemma cnt_upd P P' n l k f g :
  nth_error l k = Some g ->
  (forall i gi, nth_error l i = Some gi -> i <> k -> P' (n + i)%nat gi = P (n + i)%nat gi) ->
  cnt P' n (upd_nth l k f) = cnt P n l + zb (P' (n + k)%nat (f g)) - zb (P (n + k)%nat g).
Proof.
  revert n k. induction l as [|x r IH]; intros n [|k] Hk H; try discriminate.
  - cbn in Hk. inversion Hk; subst x. cbn [upd_nth]. rewrite !cnt_cons. rewrite !Nat.add_0_r.
    rewrite (cnt_ext P P' (S n) r); [lia|].
    intros i gi Hi. replace (S n + i)%nat with (n + S i)%nat by lia. apply H; [exact Hi|discriminate].
  - cbn in Hk. cbn [upd_nth]. rewrite !cnt_cons.
    rewrite (IH (S n) k Hk).
    + pose proof (H 0%nat x eq_refl ltac:(discriminate)) as H0. rewrite Nat.add_0_r in H0. rewrite H0.
      replace (S n + k)%nat with (n + S k)%nat by lia. lia.
    + intros i gi Hi Hne. replace (S n + i)%nat with (n + S i)%nat by lia. apply H; [exact Hi|lia].
Qed.

Lemma marked_count_cnt st sp :
  marked_count st sp = cnt (fun i g => (g_subproc g =? sp)%N && marked st i) 0 (segs st).
Proof. reflexivity. Qed.

(* ---- get_count / add_count ---- *)
Lemma get_add_count c sp d sp' :
  get_count (add_count c sp d) sp' = if (sp' =? sp)%N then get_count c sp + d else get_count c sp'.
Proof.
  unfold add_count, get_count at 1. cbn [find fst snd]. rewrite (N.eqb_sym sp sp').
  destruct (sp' =? sp)%N eqn:E; [reflexivity|].
  unfold get_count. induction c as [|[a b] r IH]; [reflexivity|]. cbn [filter find fst snd].
  destruct (a =? sp)%N eqn:E2; cbn [negb].
  - apply N.eqb_eq in E2. subst a. rewrite (N.eqb_sym sp sp'), E. exact IH.
  - cbn [find fst snd]. destruct (a =? sp')%N; [reflexivity|exact IH].
Qed.

(* ---- the corrections of the other threads do not change ---- *)
Lemma pend_sum_upd sg thr t th f sp :
  nth_error thr t = Some th ->
  pend_sum sg (upd_nth thr t f) sp = pend_sum sg thr sp + pend sg (t_pc (f th)) sp - pend sg (t_pc th) sp.
Proof.
  revert t. induction thr as [|x r IH]; intros [|k] H; try discriminate; cbn in H.
  - inversion H; subst x. cbn [upd_nth pend_sum fold_right]. lia.
  - cbn [upd_nth pend_sum fold_right]. fold (pend_sum sg (upd_nth r k f) sp). fold (pend_sum sg r sp). rewrite (IH k H). lia.
Qed.

Lemma pend_segs_ext sg sg' p sp :
  (forall s, option_map g_subproc (nth_error sg' s) = option_map g_subproc (nth_error sg s)) -> pend sg' p sp = pend sg p sp.
Proof.
  intros H. unfold pend. destruct (pend_seg p) as [[s d]|]; [|reflexivity]. specialize (H s).
  destruct (nth_error sg' s), (nth_error sg s); cbn in H; try discriminate; [inversion H as [E]; rewrite E|]; reflexivity.
Qed.

Lemma pend_sum_segs_ext sg sg' thr sp :
  (forall s, option_map g_subproc (nth_error sg' s) = option_map g_subproc (nth_error sg s)) -> pend_sum sg' thr sp = pend_sum sg thr sp.
Proof.
  intros H. induction thr as [|x r IH]; [reflexivity|]. cbn [pend_sum fold_right]. fold (pend_sum sg' r sp). fold (pend_sum sg r sp).
  rewrite IH, (pend_segs_ext sg sg' _ sp H). reflexivity.
Qed.

Lemma upd_subproc_ext (sg : list seg) s0 f :
  (forall g, g_subproc (f g) = g_subproc g) ->
  forall s, option_map g_subproc (nth_error (upd_nth sg s0 f) s) = option_map g_subproc (nth_error sg s).
Proof.
  intros Hf s. destruct (Nat.eq_dec s s0) as [->|Hne].
  - destruct (nth_error sg s0) as [g|] eqn:E.
    + rewrite (nth_upd_eq _ _ _ _ E). cbn. rewrite Hf. reflexivity.
    + destruct (nth_error (upd_nth sg s0 f) s0) eqn:E2; [|reflexivity].
      apply nth_upd_inv in E2 as [[_ (x & Hx & _)]|[Hn _]]; congruence.
  - rewrite nth_upd_neq by auto. reflexivity.
Qed.

Lemma upd_subproc_ext_at (sg : list seg) s0 f g :
  nth_error sg s0 = Some g -> g_subproc (f g) = g_subproc g ->
  forall s, option_map g_subproc (nth_error (upd_nth sg s0 f) s) = option_map g_subproc (nth_error sg s).
Proof.
  intros Hg Hf s. destruct (Nat.eq_dec s s0) as [->|Hne].
  - rewrite (nth_upd_eq _ _ _ _ Hg), Hg. cbn. rewrite Hf. reflexivity.
  - rewrite nth_upd_neq by auto. reflexivity.
Qed.

(* ---- the two frame lemmas ---- *)
Lemma count_inv_keep st t th lk vl cnt' pop p' hold' sp :
  thr_at st t th ->
  get_count cnt' sp - get_count (acount st) sp = pend (segs st) p' sp - pend (segs st) (t_pc th) sp ->
  count_inv st sp -> count_inv (new_state st t (segs st) (os_list st) lk vl cnt' pop p' hold') sp.
Proof.
  intros Hth He HJ. unfold count_inv in *. unfold new_state. cbn [acount segs threads].
  rewrite (pend_sum_upd _ _ _ _ _ sp Hth). cbn [t_pc].
  change (marked_count {| segs := segs st; os_list := os_list st; os_lock := lk; os_vlock := vl; acount := cnt';
            threads := upd_nth (threads st) t (fun th0 => {| t_subproc := t_subproc th0; t_prog := if pop then tl (t_prog th0) else t_prog th0; t_pc := p'; t_vlock := hold' |}) |} sp)
    with (marked_count st sp).
  lia.
Qed.

Lemma count_inv_seg st t th s0 g f l' lk vl cnt' pop p' hold' sp :
  thr_at st t th -> seg_at st s0 g -> g_subproc (f g) = g_subproc g ->
  (forall j, j <> s0 -> in_list l' j = in_list (os_list st) j) ->
  get_count cnt' sp - get_count (acount st) sp =
    (if (g_subproc g =? sp)%N then zb (if g_arena (f g) then g_bit (f g) else in_list l' s0) - zb (marked st s0) else 0)
    + pend (segs st) p' sp - pend (segs st) (t_pc th) sp ->
  count_inv st sp -> count_inv (new_state st t (upd_nth (segs st) s0 f) l' lk vl cnt' pop p' hold') sp.
Proof.
  intros Hth Hg Hsp Hl He HJ. unfold count_inv in *.
  set (st' := new_state st t (upd_nth (segs st) s0 f) l' lk vl cnt' pop p' hold').
  assert (Hpend : pend_sum (segs st') (threads st') sp = pend_sum (segs st) (threads st) sp + pend (segs st) p' sp - pend (segs st) (t_pc th) sp).
  { unfold st', new_state. cbn [segs threads].
    rewrite (pend_sum_segs_ext (segs st) _ _ sp (upd_subproc_ext_at _ _ _ _ Hg Hsp)).
    rewrite (pend_sum_upd _ _ _ _ _ sp Hth). cbn [t_pc]. reflexivity. }
  assert (Hm : marked_count st' sp = marked_count st sp +
             (if (g_subproc g =? sp)%N then zb (if g_arena (f g) then g_bit (f g) else in_list l' s0) - zb (marked st s0) else 0)).
  { rewrite !marked_count_cnt. unfold st' at 2, new_state. cbn [segs].
    rewrite (cnt_upd (fun i gi => (g_subproc gi =? sp)%N && marked st i) (fun i gi => (g_subproc gi =? sp)%N && marked st' i) 0 (segs st) s0 f g Hg).
    - cbn [Nat.add]. rewrite Hsp.
      unfold st' at 1. rewrite (marked_new_self _ _ _ _ _ _ _ _ _ _ _ _ Hg).
      destruct (g_subproc g =? sp)%N; cbn [andb zb]; lia.
    - intros i gi Hi Hne. cbn [Nat.add]. f_equal. unfold st'. apply marked_new_other; [exact Hne|apply Hl; exact Hne]. }
  change (acount st') with cnt'. rewrite Hpend, Hm. lia.
Qed.

(* ---- every transition preserves the accounting ---- *)
Ltac fin_eq :=
  repeat match goal with
  | |- context [(?a =? ?b)%N] => let E := fresh "E" in destruct (a =? b)%N eqn:E; [apply N.eqb_eq in E|apply N.eqb_neq in E]
  end;
  repeat match goal with
  | H : g_subproc ?g = ?x |- _ => rewrite H in *; clear H
  | H : ?x = g_subproc ?g |- _ => rewrite <- H in *; clear H
  end;
  cbn [zb]; try lia; try congruence; try (exfalso; congruence).

Ltac norm He :=
  inversion He; subst; clear He; unfold with_seg, keep, with_count;
  cbn [o_segs o_list o_lock o_vlock o_count o_pop o_pc o_hold].

Lemma subproc_of_at st s g : nth_error (segs st) s = Some g -> subproc_of st s = g_subproc g.
Proof. intros H. unfold subproc_of. rewrite H. reflexivity. Qed.

Lemma exec_count st t th o sp :
  Inv st -> thr_at st t th -> exec st t th = Some o -> count_inv st sp -> count_inv (apply_outcome st t o) sp.
Proof.
  intros HI Hth He HJ. rewrite apply_outcome_new. unfold exec in He.
  (* a step that changes neither a mark nor the count, between two pcs without correction *)
  assert (K0 : forall lk vl pop p' hold', pend (segs st) p' sp = 0 -> pend (segs st) (t_pc th) sp = 0 ->
               count_inv (new_state st t (segs st) (os_list st) lk vl (acount st) pop p' hold') sp).
  { intros. apply count_inv_keep with (th := th); auto. lia. }
  (* a step that updates segment s without changing its mark, the list or the count, between two pcs without correction *)
  assert (S0 : forall s g f lk vl pop p' hold', nth_error (segs st) s = Some g -> g_subproc (f g) = g_subproc g ->
               g_arena (f g) = g_arena g -> g_bit (f g) = g_bit g -> pend (segs st) p' sp = 0 -> pend (segs st) (t_pc th) sp = 0 ->
               count_inv (new_state st t (upd_nth (segs st) s f) (os_list st) lk vl (acount st) pop p' hold') sp).
  { intros s g f lk vl pop p' hold' Hg H1 H2 H3 H4 H5. apply count_inv_seg with (th := th) (g := g); auto.
    rewrite H2, H3, H4, H5, (marked_self st s g Hg). destruct (g_subproc g =? sp)%N; lia. }
  destruct (t_pc th) eqn:Epc.
  - (* Idle *)
    destruct (t_prog th) as [|o' r]; [discriminate|]. destruct o'.
    + destruct (nth_error (segs st) s) as [g|] eqn:Eg.
      * destruct ((g_tid g =? tid_of t)%N && negb (g_freed g)); norm He; [eapply S0; eauto|apply K0; reflexivity].
      * norm He. apply K0; reflexivity.
    + destruct (nth_error (segs st) s) as [g|] eqn:Eg.
      * destruct (g_freed g || (g_live g =? 0)%N); [norm He; apply K0; reflexivity|].
        destruct (g_tid g =? tid_of t)%N; [norm He; apply K0; reflexivity|]. destruct rof; norm He; apply K0; reflexivity.
      * norm He. apply K0; reflexivity.
    + destruct (nth_error (segs st) s) as [g|] eqn:Eg.
      * destruct (g_arena g); [destruct (g_bit g)|]; norm He; apply K0; reflexivity.
      * norm He. apply K0; reflexivity.
    + destruct (t_vlock th); [norm He; apply K0; reflexivity|].
      destruct (lock_held (os_vlock st) (t_subproc th)); [destruct all; [discriminate|]|]; norm He; apply K0; reflexivity.
    + destruct (t_vlock th); norm He; apply K0; reflexivity.
    + destruct (t_vlock th); [norm He; apply K0; reflexivity|].
      destruct (lock_held (os_vlock st) (t_subproc th)); [destruct all; [discriminate|]|]; norm He; apply K0; reflexivity.
  - (* Ab1 *)
    destruct (nth_error (segs st) s) as [g|] eqn:Eg; [|discriminate]. norm He. eapply S0; eauto.
  - (* Ab2 *)
    destruct (nth_error (segs st) s) as [g|] eqn:Eg; [|discriminate]. norm He. eapply S0; eauto.
  - (* Ab3 *)
    destruct (nth_error (segs st) s) as [g|] eqn:Eg; [|discriminate].
    destruct (g_arena g) eqn:Ea.
    + norm He. apply count_inv_seg with (th := th) (g := g); auto.
      cbn [g_arena g_bit set_holder set_bit]. rewrite Ea, (marked_self st s g Eg), Ea, Epc. unfold pend. cbn [pend_seg].
      destruct (g_bit g); cbn [pend_seg]; rewrite ?Eg; fin_eq.
    + destruct (lock_held (os_lock st) (g_subproc g)); [discriminate|]. norm He. apply K0; reflexivity.
  - (* Ab4a *)
    destruct (inv_range _ _ _ s HI Hth ltac:(rewrite Epc; reflexivity)) as (g & Eg). unfold seg_at in Eg. norm He.
    apply count_inv_keep with (th := th); auto. rewrite get_add_count, Epc, (subproc_of_at st s g Eg). unfold pend. cbn [pend_seg]. rewrite Eg. fin_eq.
  - (* Ab4o *)
    destruct (inv_range _ _ _ s HI Hth ltac:(rewrite Epc; reflexivity)) as (g & Eg).
    pose proof (inv_os _ _ _ s g HI Hth Eg ltac:(rewrite Epc; reflexivity)) as Ha.
    destruct (inv_holds _ _ _ _ _ HI Hth Eg ltac:(rewrite Epc; reflexivity)) as (_ & _ & Hm & _).
    unfold seg_at in Eg. norm He.
    apply count_inv_seg with (th := th) (g := g); auto.
    + intros j Hj. apply in_list_app_other. exact Hj.
    + cbn [g_arena g_bit set_holder]. rewrite Ha, in_list_app_self, Hm, Epc. unfold pend. cbn [pend_seg]. rewrite Eg. fin_eq.
  - (* Ab4p *)
    destruct (inv_range _ _ _ s HI Hth ltac:(rewrite Epc; reflexivity)) as (g & Eg). unfold seg_at in Eg. norm He.
    apply count_inv_keep with (th := th); auto. rewrite get_add_count, Epc, (subproc_of_at st s g Eg). unfold pend. cbn [pend_seg]. rewrite Eg. fin_eq.
  - (* Ab5o *)
    norm He. apply K0; reflexivity.
  - (* Fr1 *)
    destruct (nth_error (segs st) s) as [g|] eqn:Eg; [|discriminate]. norm He. apply K0; [destruct (g_tid g =? 0)%N|]; reflexivity.
  - (* Fr2 *)
    destruct (nth_error (segs st) s) as [g|] eqn:Eg; [|discriminate]. norm He.
    apply K0; [destruct ((g_tid g =? 0)%N && (g_subproc g =? t_subproc th)%N && heur)|]; reflexivity.
  - (* Fr3 *)
    destruct (nth_error (segs st) s) as [g|] eqn:Eg; [|discriminate].
    destruct (g_arena g) eqn:Ea.
    + norm He. apply count_inv_seg with (th := th) (g := g); auto.
      * destruct (g_bit g); reflexivity.
      * rewrite (marked_self st s g Eg), Ea, Epc. unfold pend. cbn [pend_seg].
        destruct (g_bit g) eqn:Eb; cbn [g_arena g_bit set_holder set_bit pend_seg]; rewrite ?Ea, ?Eb, ?Eg; fin_eq.
    + destruct (lock_held (os_lock st) (g_subproc g)); norm He; apply K0; reflexivity.
  - (* Fr3o *)
    destruct (inv_range _ _ _ s HI Hth ltac:(rewrite Epc; reflexivity)) as (g & Eg).
    pose proof (inv_os _ _ _ s g HI Hth Eg ltac:(rewrite Epc; reflexivity)) as Ha. unfold seg_at in Eg.
    destruct (in_list (os_list st) s) eqn:El; norm He.
    + apply count_inv_seg with (th := th) (g := g); auto.
      * intros j Hj. apply in_list_remove_other. congruence.
      * cbn [g_arena g_bit set_holder]. rewrite Ha, in_list_remove_self, (marked_self st s g Eg), Ha, El, Epc. unfold pend. cbn [pend_seg]. rewrite Eg. fin_eq.
    + apply K0; reflexivity.
  - (* Fr3p *)
    destruct (inv_range _ _ _ s HI Hth ltac:(rewrite Epc; reflexivity)) as (g & Eg). unfold seg_at in Eg. norm He.
    apply count_inv_keep with (th := th); auto. rewrite get_add_count, Epc, (subproc_of_at st s g Eg). unfold pend. cbn [pend_seg]. rewrite Eg. fin_eq.
  - (* Fr3q *)
    destruct (nth_error (segs st) s) as [g|] eqn:Eg; [|discriminate]. norm He. eapply S0; eauto.
  - (* Fr5o *)
    norm He. apply K0; [destruct won|]; reflexivity.
  - (* Fr4 *)
    destruct (inv_range _ _ _ s HI Hth ltac:(rewrite Epc; reflexivity)) as (g & Eg). unfold seg_at in Eg. norm He.
    apply count_inv_keep with (th := th); auto. rewrite get_add_count, Epc, (subproc_of_at st s g Eg). unfold pend. cbn [pend_seg]. rewrite Eg. fin_eq.
  - (* Fr4b *)
    destruct (nth_error (segs st) s) as [g|] eqn:Eg; [|discriminate]. norm He. eapply S0; eauto.
  - (* Rc1 *)
    destruct (nth_error (segs st) s) as [g|] eqn:Eg; [|discriminate]. norm He. eapply S0; eauto.
  - (* Rc2 *)
    destruct (nth_error (segs st) s) as [g|] eqn:Eg; [|discriminate].
    destruct (g_live g =? 0)%N; norm He; [eapply S0; eauto|]. eapply S0; eauto. destruct k; reflexivity.
  - (* FrR *)
    destruct (nth_error (segs st) s) as [g|] eqn:Eg; [|discriminate]. norm He. apply K0; reflexivity.
  - (* FrL *)
    destruct (nth_error (segs st) s) as [g|] eqn:Eg; [|discriminate]. norm He. eapply S0; eauto.
  - (* FrP *)
    destruct (nth_error (segs st) s) as [g|] eqn:Eg; [|discriminate].
    destruct (g_flag g =? USE)%N; norm He; eapply S0; eauto.
  - (* Vs0 *)
    destruct (nth_error (segs st) s) as [g|] eqn:Eg; [|discriminate]. norm He.
    pose proof (inv_arena _ _ _ s g HI Hth Eg ltac:(rewrite Epc; reflexivity)) as Ha.
    apply count_inv_seg with (th := th) (g := g); auto.
    + destruct (g_bit g); reflexivity.
    + rewrite (marked_self st s g Eg), Ha, Epc. unfold pend. cbn [pend_seg].
      destruct (g_bit g) eqn:Eb; cbn [g_arena g_bit set_holder set_bit pend_seg]; rewrite ?Ha, ?Eb, ?Eg; fin_eq.
  - (* Vs1 *)
    destruct (nth_error (segs st) s) as [g|] eqn:Eg; [|discriminate]. norm He.
    apply count_inv_keep with (th := th); auto. rewrite Epc. unfold pend.
    destruct (g_subproc g =? t_subproc th)%N; cbn [pend_seg]; rewrite Eg; lia.
  - (* VsR *)
    destruct (nth_error (segs st) s) as [g|] eqn:Eg; [|discriminate]. norm He.
    pose proof (inv_arena _ _ _ s g HI Hth Eg ltac:(rewrite Epc; reflexivity)) as Ha.
    destruct (inv_holds _ _ _ _ _ HI Hth Eg ltac:(rewrite Epc; reflexivity)) as (_ & _ & Hm & _).
    apply count_inv_seg with (th := th) (g := g); auto.
    cbn [g_arena g_bit set_holder set_bit]. rewrite Ha, Hm, Epc. unfold pend. cbn [pend_seg]. rewrite Eg. fin_eq.
  - (* Vs2 *)
    destruct (inv_range _ _ _ s HI Hth ltac:(rewrite Epc; reflexivity)) as (g & Eg).
    pose proof (inv_subproc _ _ _ s g HI Hth Eg ltac:(rewrite Epc; reflexivity) ltac:(rewrite Epc; reflexivity)) as Hsp.
    unfold seg_at in Eg. norm He.
    apply count_inv_keep with (th := th); auto. rewrite get_add_count, Epc, <- Hsp. unfold pend. cbn [pend_seg]. rewrite Eg. fin_eq.
  - (* Hd0 *)
    destruct (nth_error (segs st) s) as [g|] eqn:Eg; [|discriminate]. norm He.
    eapply S0; eauto; try (destruct m; reflexivity).
    match goal with |- context [if ?c then _ else _] => destruct c end; reflexivity.
  - (* Vo1 *)
    destruct (lock_held (os_lock st) (t_subproc th)); [discriminate|]. norm He. apply K0; reflexivity.
  - (* Vo2 *)
    destruct (os_head st (t_subproc th)) as [s|] eqn:Eh; norm He.
    + unfold os_head in Eh. apply find_some in Eh as [Hin Hsp].
      pose proof HI as (_ & _ & HL). destruct (HL s Hin) as (g & Eg & Ha). unfold seg_at in Eg.
      apply in_list_spec in Hin.
      apply count_inv_seg with (th := th) (g := g); auto.
      * intros j Hj. apply in_list_remove_other. congruence.
      * cbn [g_arena g_bit set_holder]. rewrite Ha, in_list_remove_self, (marked_self st s g Eg), Ha, Hin, Epc. unfold pend. cbn [pend_seg]. rewrite Eg. fin_eq.
    + apply K0; reflexivity.
  - (* Vo2c *)
    destruct (inv_range _ _ _ s HI Hth ltac:(rewrite Epc; reflexivity)) as (g & Eg).
    pose proof (inv_subproc _ _ _ s g HI Hth Eg ltac:(rewrite Epc; reflexivity) ltac:(rewrite Epc; reflexivity)) as Hsp.
    unfold seg_at in Eg. norm He.
    apply count_inv_keep with (th := th); auto. rewrite get_add_count, Epc, <- Hsp. unfold pend. cbn [pend_seg]. rewrite Eg. fin_eq.
  - (* Vo3 *)
    destruct r as [s|]; norm He; apply K0; reflexivity.
Qed.

Theorem step_count st t st' sp : Inv st -> step st t = Some st' -> count_inv st sp -> count_inv st' sp.
Proof.
  intros HI Hs HJ. unfold step, stepx in Hs. destruct (nth_error (threads st) t) as [th|] eqn:Eth; [|discriminate].
  destruct (exec st t th) as [o|] eqn:Ee; [|discriminate]. inversion Hs; subst. eapply exec_count; eauto.
Qed.

Theorem reachable_count st0 st sp : Inv st0 -> count_inv st0 sp -> reachable st0 st -> count_inv st sp.
Proof.
  intros H0 HJ Hr. induction Hr; [exact HJ|]. eapply step_count; [eapply reachable_Inv; eauto| |]; eauto.
Qed.

(* at quiescence no thread carries a correction *)
Lemma quiescent_pend st sp : quiescent st = true -> pend_sum (segs st) (threads st) sp = 0.
Proof.
  unfold quiescent. intros H. apply andb_prop in H as [H _]. revert H. generalize (segs st). generalize (threads st).
  induction l as [|th r IH]; intros sg H; [reflexivity|]. cbn [forallb] in H. apply andb_prop in H as [H1 H2].
  cbn [pend_sum fold_right]. fold (pend_sum sg r sp). rewrite (IH sg H2).
  destruct (t_pc th); try discriminate. reflexivity.
Qed.

Lemma count_ok_b_spec st sps :
  count_ok_b st sps = true <-> (forall sp, In sp sps -> get_count (acount st) sp = marked_count st sp).
Proof.
  unfold count_ok_b. rewrite forallb_forall. split; intros H sp Hin; [apply Z.eqb_eq|apply Z.eqb_eq]; apply H; exact Hin.
Qed.

(* the statement that was open in Proofs/AbandonOpen.v: the accounting of subproc->abandoned_count is exact at quiescence *)
Theorem abandoned_count_quiescent :
  forall st0 st sps,
    inv_b st0 = true -> quiescent st0 = true -> count_ok_b st0 sps = true ->
    reachable st0 st -> quiescent st = true -> count_ok_b st sps = true.
Proof.
  intros st0 st sps Hb Hq0 Hc0 Hr Hq. apply count_ok_b_spec. intros sp Hin.
  assert (H0 : count_inv st0 sp).
  { unfold count_inv. rewrite (quiescent_pend st0 sp Hq0). rewrite (proj1 (count_ok_b_spec st0 sps) Hc0 sp Hin). lia. }
  pose proof (reachable_count st0 st sp (inv_b_sound st0 Hb) H0 Hr) as HJ. unfold count_inv in HJ.
  rewrite (quiescent_pend st sp Hq) in HJ. lia.
Qed.
