(* Generic preservation lemmas: each part of the invariant under the kinds of update the transitions perform. *)
From Coq Require Import NArith List Bool Lia Arith.
From MiV Require Import Model.TFree Proofs.TFreeBase Proofs.TFreeInv.
Import ListNotations.
Local Open Scope N_scope.

(* ------------------------------------------------------------------------------------------ *)
(* agreement                                                                                  *)
(* ------------------------------------------------------------------------------------------ *)
Lemma agree_refl tx c : agree tx c c.
Proof. constructor; auto. Qed.
Lemma agree_trans tx c1 c2 c3 : agree tx c1 c2 -> (forall p, mWin c2 p = mWin c1 p) -> agree tx c2 c3 -> agree tx c1 c3.
Proof.
  intros A M B. constructor; intros.
  - rewrite (ag_p _ _ _ B), (ag_p _ _ _ A). reflexivity.
  - destruct (ag_u _ _ _ A p) as [E|E]; [|right; assumption].
    destruct (ag_u _ _ _ B p) as [E'|E']; [left; congruence|right].
    rewrite <- (own_view _ _ _ (ag_p _ _ _ A p)). assumption.
  - rewrite (ag_h _ _ _ B), (ag_h _ _ _ A). reflexivity.
  - destruct (ag_abs _ _ _ A _ _ _ H) as [H'|H']; [|right; assumption].
    destruct (ag_abs _ _ _ B _ _ _ H') as [H''|H'']; [left; assumption|right]. rewrite <- M. assumption.
  - apply (ag_bot _ _ _ B), (ag_bot _ _ _ A); assumption.
Qed.
Lemma agree_setp tx c p pg : pview pg = pview (getp c p) ->
  (pg_used pg = pg_used (getp c p) \/ own (getp c p) tx = true) -> agree tx c (setp c p pg).
Proof.
  intros H Hu. constructor; intros; auto.
  - rewrite getp_setp. destruct (p0 =? p) eqn:E; [apply N.eqb_eq in E; subst; assumption|reflexivity].
  - rewrite getp_setp. destruct (p0 =? p) eqn:E; [apply N.eqb_eq in E; subst; assumption|left; reflexivity].
Qed.
Lemma agree_seth tx c h hp : hview hp = hview (geth c h) -> agree tx c (seth c h hp).
Proof.
  intros H. constructor; intros; auto.
  rewrite geth_seth. destruct (h0 =? h) eqn:E; [apply N.eqb_eq in E; subst; assumption|reflexivity].
Qed.
Lemma agree_sett tx c t th :
  (forall p h, absorbing (th_stk (gett c t)) p h = true -> absorbing (th_stk th) p h = true \/ mWin c p = 0%nat) ->
  (forall h, hd_bottom (th_stk (gett c t)) h = true -> hd_bottom (th_stk th) h = true) ->
  agree tx c (sett c t th).
Proof.
  intros H1 H2. constructor; intros; auto; rewrite gett_sett; destruct (t0 =? t) eqn:E; auto;
    apply N.eqb_eq in E; subst; auto.
Qed.

(* ------------------------------------------------------------------------------------------ *)
(* block accounting: conservation                                                             *)
(* ------------------------------------------------------------------------------------------ *)
Definition aview (pg : page) := (pg_alive pg, pg_cap pg, pg_res pg).

Lemma invA_conserve c c' :
  Inv c ->
  (forall P, mW c' P + mF c' P = mW c P + mF c P)%nat ->
  (forall p, aview (getp c' p) = aview (getp c p)) ->
  (forall p, pg_used (getp c' p) = N.of_nat (mW c' (onp p))) ->
  (forall p, forallb (onp p) (pg_blocks (getp c' p)) = true) ->
  InvA c'.
Proof.
  intros I Hc Hv Hu Hl. destruct (i_A _ I) as [U R C L].
  assert (Ha : forall p, pg_alive (getp c' p) = pg_alive (getp c p) /\ pg_cap (getp c' p) = pg_cap (getp c p)
                         /\ pg_res (getp c' p) = pg_res (getp c p)).
  { intros p. specialize (Hv p). unfold aview in Hv. inversion Hv; auto. }
  constructor.
  - intros b. rewrite Hc. apply U.
  - intros b. rewrite Hc. destruct (Ha (fst b)) as (E1 & E2 & E3). rewrite E1, E2. apply R.
  - intros p. destruct (Ha p) as (E1 & E2 & E3). destruct (C p) as (C1 & C2 & C3 & C4).
    rewrite E2, E3, Hc. auto.
  - assumption.
Qed.

(* sub16 / inc16 on values in range *)
Lemma sub16_small u k : k <= u -> u < 65536 -> sub16 u k = u - k.
Proof.
  intros H1 H2. unfold sub16. rewrite (N.mod_small k) by lia.
  replace (u + 65536 - k) with ((u - k) + 1 * 65536) by lia.
  rewrite N.mod_add by lia. apply N.mod_small. lia.
Qed.
Lemma inc16_small u : u + 1 < 65536 -> inc16 u = u + 1.
Proof. intros H. unfold inc16. apply N.mod_small. assumption. Qed.

(* ------------------------------------------------------------------------------------------ *)
(* the flag part when no flag changes                                                         *)
(* ------------------------------------------------------------------------------------------ *)
Lemma invB_same c c' :
  Inv c ->
  (forall p, pg_flag (getp c' p) = pg_flag (getp c p)) ->
  (forall p, mWin c' p = mWin c p) ->
  (forall p, mPw c' p = mPw c p) ->
  (forall p, (mD c (onp p) <= mD c' (onp p))%nat
             \/ (pg_flag (getp c p) <> NoD /\ pg_flag (getp c p) <> Freeing)) ->
  InvB c'.
Proof.
  intros I Hf Hw Hp Hd. destruct (i_B _ I) as [W ND]. constructor.
  - intros p. rewrite Hf, Hw. apply W.
  - intros p. rewrite Hf, Hp. intros H. destruct (Hd p) as [Hd'|[H1 H2]].
    + specialize (ND p H). lia.
    + exfalso. destruct H as [H|H]; [contradiction|].
      pose proof (mPw_le_mWin c p) as L. specialize (W p).
      destruct (flag_eqb (pg_flag (getp c p)) Freeing) eqn:F; [apply flag_eqb_eq in F; contradiction|lia].
Qed.

(* ------------------------------------------------------------------------------------------ *)
(* the structural part                                                                        *)
(* ------------------------------------------------------------------------------------------ *)
Lemma hd_fr_okP_agree tx c c' th fr : agree tx c c' ->
  (forall h, hp_del (geth c' h) = hp_del (geth c h)) ->
  hd_fr_okP c th fr -> hd_fr_okP c' th fr.
Proof.
  intros A Hd.
  assert (Ha : forall p, pg_alive (getp c' p) = pg_alive (getp c p) /\ pg_heap (getp c' p) = pg_heap (getp c p)).
  { intros p. pose proof (pview_eq _ _ (ag_p _ _ _ A p)) as (E1 & _ & E4). auto. }
  destruct fr; cbn [hd_fr_okP]; auto.
  - intros H p. destruct (Ha p) as [E1 E2]. rewrite E1, E2. apply H.
  - intros [H1 H2]. split.
    + intros p. destruct (Ha p) as [E1 E2]. rewrite E1, E2. apply H1.
    + rewrite Hd. assumption.
Qed.
Lemma hd_okP_agree tx c c' th : agree tx c c' ->
  (forall h, hp_del (geth c' h) = hp_del (geth c h)) ->
  hd_okP c th -> hd_okP c' th.
Proof. intros A Hd H fr Hin. apply (hd_fr_okP_agree tx c); auto. Qed.

(* a step of thread t that keeps all views, all other threads and the backing heap *)
Lemma invS_step_gen c c' t :
  Inv c -> agree t c c' ->
  (forall t', t' <> t -> gett c' t' = gett c t') ->
  th_backing (gett c' t) = th_backing (gett c t) ->
  (forall p, pg_alive (getp c' p) = false -> getp c' p = pg0) ->
  (forall h, hp_alive (geth c' h) = false -> hp_del (geth c' h) = []) ->
  (forall h, forallb (del_ok c' h) (hp_del (geth c' h)) = true) ->
  stk_ok (th_stk (gett c' t)) = true ->
  forallb (fr_ok c' t (gett c' t)) (th_stk (gett c' t)) = true ->
  (forall t', hd_okP c' (gett c' t')) ->
  InvS c'.
Proof.
  intros I A Ho Hb Hdead Hhd Hdel Hs Hf Hh. destruct (i_S _ I) as [S1 S2 S3 S4 S5 S6 S7 S8 S9].
  assert (Hbk : forall t', th_backing (gett c' t') = th_backing (gett c t')).
  { intros t'. destruct (N.eq_dec t' t) as [->|Hne]; [assumption|rewrite Ho by assumption; reflexivity]. }
  constructor; auto.
  - intros p Hp. pose proof (pview_eq _ _ (ag_p _ _ _ A p)) as (E1 & E2 & E4).
    rewrite E1 in Hp. destruct (S2 p Hp) as [h [H1 H2]]. exists h. rewrite E4, E2. split; [assumption|].
    rewrite (hown_view _ _ _ (ag_h _ _ _ A h)). assumption.
  - intros t' bk. rewrite Hbk. intros H. destruct (S3 t' bk H) as [H1 H2].
    pose proof (hview_eq _ _ (ag_h _ _ _ A bk)) as (_ & _ & E). rewrite E, (hown_view _ _ _ (ag_h _ _ _ A bk)). auto.
  - intros h. pose proof (hview_eq _ _ (ag_h _ _ _ A h)) as (E1 & E2 & E3). unfold hp_alive. rewrite E1, E2, E3, Hbk.
    apply S4.
  - intros t'. destruct (N.eq_dec t' t) as [->|Hne]; [assumption|rewrite Ho by assumption; apply S7].
  - intros t'. destruct (N.eq_dec t' t) as [->|Hne]; [assumption|]. rewrite Ho by assumption.
    specialize (S8 t'). rewrite forallb_forall in S8. apply forallb_forall. intros x Hin.
    apply (fr_ok_agree t c); [assumption|intros; assumption| |apply S8; assumption].
    destruct x; cbn; auto; pose proof (mWin_ge c t' (fst b)) as G;
      pose proof (sum_fr_In (win_fr (fst b)) _ _ Hin) as G'; cbn in G'; rewrite N.eqb_refl in G'; lia.
Qed.

(* ... and the delayed lists *)
Lemma invS_step c c' t :
  Inv c -> agree t c c' ->
  (forall t', t' <> t -> gett c' t' = gett c t') ->
  th_backing (gett c' t) = th_backing (gett c t) ->
  (forall p, pg_alive (getp c' p) = false -> getp c' p = pg0) ->
  (forall h, hp_del (geth c' h) = hp_del (geth c h)) ->
  stk_ok (th_stk (gett c' t)) = true ->
  forallb (fr_ok c' t (gett c' t)) (th_stk (gett c' t)) = true ->
  hd_okP c' (gett c' t) ->
  InvS c'.
Proof.
  intros I A Ho Hb Hdead Hdel Hs Hf Hh. destruct (i_S _ I) as [S1 S2 S3 S4 S5 S6 S7 S8 S9].
  apply (invS_step_gen c c' t); auto.
  - intros h. pose proof (hview_eq _ _ (ag_h _ _ _ A h)) as (E1 & E2 & E3). unfold hp_alive. rewrite E1, Hdel. apply S5.
  - intros h. rewrite Hdel. specialize (S6 h). revert S6. apply forallb_impl. intros x. apply (del_ok_agree t). assumption.
  - intros t'. destruct (N.eq_dec t' t) as [->|Hne]; [assumption|]. rewrite Ho by assumption.
    apply (hd_okP_agree t c); auto.
Qed.

(* ------------------------------------------------------------------------------------------ *)
(* steps that only change the stack / return register of the stepping thread                  *)
(* ------------------------------------------------------------------------------------------ *)
Lemma fr_ok_th c t th th' fr : th_backing th' = th_backing th -> fr_ok c t th' fr = fr_ok c t th fr.
Proof. intros H. destruct fr; cbn [fr_ok]; rewrite ?H; reflexivity. Qed.

Lemma th_set_backing th stk ret : th_backing (th_set th stk ret) = th_backing th.
Proof. reflexivity. Qed.

(* a pure thread update leaves used untouched, so also PF frames carry over *)
Lemma agree_used_same tx c c' t th fr : agree tx c c' -> (forall p, pg_used (getp c' p) = pg_used (getp c p)) ->
  fr_win_ok c fr ->
  fr_ok c t th fr = true -> fr_ok c' t th fr = true.
Proof.
  intros A Hu Hw H. destruct fr; try (apply (fr_ok_agree tx c); [assumption|discriminate|assumption|assumption]).
  cbn [fr_ok] in *. rewrite (own_view _ _ _ (ag_p _ _ _ A p)), Hu. assumption.
Qed.

(* a step that replaces the stepping thread's record; its blocks (held + frames) are conserved *)
Lemma step_thread_only c t th' :
  Inv c ->
  th_backing th' = th_backing (gett c t) ->
  (forall P, th_W P th' = th_W P (gett c t)) ->
  (forall p, sum_fr (win_fr p) (th_stk th') = sum_fr (win_fr p) (th_stk (gett c t))) ->
  (forall p, sum_fr (pw_fr p) (th_stk th') = sum_fr (pw_fr p) (th_stk (gett c t))) ->
  (forall p, (cnt (onp p) (d1_stk (th_ret (gett c t)) (th_stk (gett c t))) <= cnt (onp p) (d1_stk (th_ret th') (th_stk th')))%nat
             \/ (pg_flag (getp c p) <> NoD /\ pg_flag (getp c p) <> Freeing)) ->
  (forall p h, absorbing (th_stk (gett c t)) p h = true -> absorbing (th_stk th') p h = true \/ mWin c p = 0%nat) ->
  (forall h, hd_bottom (th_stk (gett c t)) h = true -> hd_bottom (th_stk th') h = true) ->
  stk_ok (th_stk th') = true ->
  forallb (fr_ok c t (gett c t)) (th_stk th') = true ->
  hd_okP c th' ->
  Inv (sett c t th').
Proof.
  intros I Hbk Hb Hw Hp Hd Ha Hbot Hs Hf Hh.
  set (c' := sett c t th').
  pose proof (i_wf _ I) as Hwf.
  assert (A : agree t c c') by (apply agree_sett; assumption).
  assert (Gt : gett c' t = th') by (unfold c'; rewrite gett_sett, N.eqb_refl; reflexivity).
  constructor.
  - apply wf_sett; assumption.
  - apply (invA_conserve c); auto.
    + intros P. unfold c'. rewrite mF_sett. pose proof (mW_sett c Hwf t th' P) as E. rewrite Hb in E. lia.
    + intros p. unfold c'. rewrite getp_sett. destruct (a_count _ (i_A _ I) p) as [E _]. rewrite E. f_equal.
      pose proof (mW_sett c Hwf t th' (onp p)) as E2. rewrite Hb in E2. unfold c'. lia.
    + intros p. apply (a_local _ (i_A _ I)).
  - apply (invB_same c); auto.
    + intros p. pose proof (mWin_sett c Hwf t th' p) as E. rewrite Hw in E. unfold c'. lia.
    + intros p. pose proof (mPw_sett c Hwf t th' p) as E. rewrite Hp in E. unfold c'. lia.
    + intros p. pose proof (mD_sett c Hwf t th' (onp p)) as E.
      destruct (Hd p) as [Hd'|Hd']; [left; unfold c'; lia|right; assumption].
  - apply (invS_step c c' t); auto.
    + intros t' Hne. unfold c'. rewrite gett_sett. apply N.eqb_neq in Hne. rewrite Hne. reflexivity.
    + rewrite Gt. assumption.
    + intros p. unfold c'. rewrite getp_sett. apply (s_dead _ (i_S _ I)).
    + rewrite Gt. assumption.
    + rewrite Gt. rewrite forallb_forall in Hf. apply forallb_forall. intros fr Hin.
      rewrite (fr_ok_th c' t (gett c t)) by assumption.
      apply (agree_used_same t c); [assumption|reflexivity| |apply Hf; assumption].
      destruct fr; cbn; auto; pose proof (mWin_ge c t (fst b)) as G;
        pose proof (sum_fr_In (win_fr (fst b)) _ _ Hin) as G'; cbn in G'; rewrite N.eqb_refl in G'; rewrite <- Hw in G; lia.
    + rewrite Gt. apply (hd_okP_agree t c); auto.
Qed.

Lemma step_stack_only c t stk' ret' :
  Inv c ->
  (forall P, cnt P (stk_blocks stk') = cnt P (stk_blocks (th_stk (gett c t)))) ->
  (forall p, sum_fr (win_fr p) stk' = sum_fr (win_fr p) (th_stk (gett c t))) ->
  (forall p, sum_fr (pw_fr p) stk' = sum_fr (pw_fr p) (th_stk (gett c t))) ->
  (forall p, (cnt (onp p) (d1_stk (th_ret (gett c t)) (th_stk (gett c t))) <= cnt (onp p) (d1_stk ret' stk'))%nat
             \/ (pg_flag (getp c p) <> NoD /\ pg_flag (getp c p) <> Freeing)) ->
  (forall p h, absorbing (th_stk (gett c t)) p h = true -> absorbing stk' p h = true \/ mWin c p = 0%nat) ->
  (forall h, hd_bottom (th_stk (gett c t)) h = true -> hd_bottom stk' h = true) ->
  stk_ok stk' = true ->
  forallb (fr_ok c t (gett c t)) stk' = true ->
  hd_okP c (th_set (gett c t) stk' ret') ->
  Inv (sett c t (th_set (gett c t) stk' ret')).
Proof.
  intros I Hb Hw Hp Hd Ha Hbot Hs Hf Hh.
  apply step_thread_only; auto.
  intros P. unfold th_W. cbn [th_held th_stk th_set]. rewrite Hb. reflexivity.
Qed.

(* ------------------------------------------------------------------------------------------ *)
(* fr_ok is monotone in the components it reads                                               *)
(* ------------------------------------------------------------------------------------------ *)
Definition rf_cond (c : cfg) (b : bid) (h : N) : bool :=
  pg_alive (getp c (fst b)) && hown (geth c h) (pg_tid (getp c (fst b)))
  && (oN_eqb (pg_heap (getp c (fst b))) (Some h) || absorbing (th_stk (gett c (pg_tid (getp c (fst b))))) (fst b) h).
Definition hd3_cond (c : cfg) (t h bk : N) (p : N) : bool :=
  own (getp c p) t && (oN_eqb (pg_heap (getp c p)) (Some h) || oN_eqb (pg_heap (getp c p)) (Some bk)).

Lemma fr_ok_mono c c' t th f :
  (forall q, own (getp c q) t = true -> own (getp c' q) t = true /\ pg_used (getp c' q) = pg_used (getp c q)) ->
  (forall h, hown (geth c h) t = true -> hown (geth c' h) t = true /\ hp_backing (geth c' h) = hp_backing (geth c h)) ->
  (forall h b, hown (geth c h) t = true -> del_ok c h b = true -> del_ok c' h b = true) ->
  (forall b h, rf_cond c b h = true -> rf_cond c' b h = true) ->
  (forall h bk p, hown (geth c h) t = true -> hd3_cond c t h bk p = true -> hd3_cond c' t h bk p = true) ->
  fr_ok c t th f = true -> fr_ok c' t th f = true.
Proof.
  intros Ho Hh Hd Hr H3.
  assert (Hdl : forall h l, hown (geth c h) t = true -> forallb (del_ok c h) l = true -> forallb (del_ok c' h) l = true).
  { intros h l Hw. apply forallb_impl. intros x. apply Hd. assumption. }
  assert (Ho1 : forall q, own (getp c q) t = true -> own (getp c' q) t = true) by (intros q H; apply Ho; assumption).
  assert (Hh1 : forall h, hown (geth c h) t = true -> hown (geth c' h) t = true) by (intros h H; apply Hh; assumption).
  destruct f; cbn [fr_ok]; auto; try (apply Hr); intros H; rewrite ?andb_true_iff in H;
    repeat match goal with H : _ /\ _ |- _ => destruct H end;
    rewrite ?andb_true_iff; repeat split; auto.
  - (* PF used *) destruct (Ho p H) as [_ ->]. assumption.
  - (* HD2 backing *) destruct (Hh h H) as [_ ->]. assumption.
  - destruct (Hh h H) as [_ ->]. assumption.
  - (* HD3 pages *) revert H0. apply forallb_impl. intros x. apply (H3 h bk x H).
  - destruct (Hh h H) as [_ ->]. assumption.
Qed.
