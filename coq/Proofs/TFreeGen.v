(* Generic preservation lemmas: each part of the invariant under the kinds of update the transitions perform. *)
From Coq Require Import NArith List Bool Lia Arith.
From MiV Require Import Model.TFree Proofs.TFreeBase Proofs.TFreeInv.
Import ListNotations.
Local Open Scope N_scope.

(* ------------------------------------------------------------------------------------------ *)
(* agreement                                                                                  *)
(* ------------------------------------------------------------------------------------------ *)
Lemma agree_refl c : agree c c.
Proof. constructor; auto. Qed.
Lemma agree_trans c1 c2 c3 : agree c1 c2 -> agree c2 c3 -> agree c1 c3.
Proof.
  intros A B. constructor; intros.
  - rewrite (ag_p _ _ B), (ag_p _ _ A). reflexivity.
  - rewrite (ag_h _ _ B), (ag_h _ _ A). reflexivity.
  - apply (ag_abs _ _ B), (ag_abs _ _ A); assumption.
  - apply (ag_bot _ _ B), (ag_bot _ _ A); assumption.
Qed.
Lemma agree_setp c p pg : pview pg = pview (getp c p) -> agree c (setp c p pg).
Proof.
  intros H. constructor; intros; auto.
  rewrite getp_setp. destruct (p0 =? p) eqn:E; [apply N.eqb_eq in E; subst; assumption|reflexivity].
Qed.
Lemma agree_seth c h hp : hview hp = hview (geth c h) -> agree c (seth c h hp).
Proof.
  intros H. constructor; intros; auto.
  rewrite geth_seth. destruct (h0 =? h) eqn:E; [apply N.eqb_eq in E; subst; assumption|reflexivity].
Qed.
Lemma agree_sett c t th :
  (forall p h, absorbing (th_stk (gett c t)) p h = true -> absorbing (th_stk th) p h = true) ->
  (forall h, hd_bottom (th_stk (gett c t)) h = true -> hd_bottom (th_stk th) h = true) ->
  agree c (sett c t th).
Proof.
  intros H1 H2. constructor; intros; auto; rewrite gett_sett; destruct (t0 =? t) eqn:E; auto;
    apply N.eqb_eq in E; subst; auto.
Qed.

(* bottom of a stack whose top changes *)
Lemma bottom_cons f g r : bottom (f :: g :: r) = bottom (g :: r).
Proof.
  unfold bottom. cbn [rev]. destruct (rev r ++ [g]) eqn:E.
  - destruct (rev r); discriminate.
  - reflexivity.
Qed.
Lemma bottom_swap f f' r : r <> [] -> bottom (f :: r) = bottom (f' :: r).
Proof. destruct r; [congruence|]. intros _. rewrite !bottom_cons. reflexivity. Qed.
Lemma bottom_single f : bottom [f] = Some f.
Proof. reflexivity. Qed.
Lemma bottom_app_cons a f r : bottom (a ++ f :: r) = bottom (f :: r).
Proof. induction a as [|x a IH]; [reflexivity|]. cbn [app]. destruct a; cbn [app] in *; rewrite bottom_cons; assumption. Qed.

(* ------------------------------------------------------------------------------------------ *)
(* block accounting: conservation                                                             *)
(* ------------------------------------------------------------------------------------------ *)
Definition aview (pg : page) := (pg_alive pg, pg_cap pg, pg_res pg).

Lemma invA_conserve c c' :
  Inv c ->
  (forall P, mW c' P + mF c' P = mW c P + mF c P)%nat ->
  (forall p, aview (getp c' p) = aview (getp c p)) ->
  (forall p, pg_used (getp c' p) = N.of_nat (mW c' (onp p))) ->
  (forall p, forallb (onp p) (pg_blocks (getp c' p)) = true) ->
  InvA c'.
Proof.
  intros I Hc Hv Hu Hl. destruct (i_A _ I) as [U R C L].
  assert (Ha : forall p, pg_alive (getp c' p) = pg_alive (getp c p) /\ pg_cap (getp c' p) = pg_cap (getp c p)
                         /\ pg_res (getp c' p) = pg_res (getp c p)).
  { intros p. specialize (Hv p). unfold aview in Hv. inversion Hv; auto. }
  constructor.
  - intros b. rewrite Hc. apply U.
  - intros b. rewrite Hc. destruct (Ha (fst b)) as (E1 & E2 & E3). rewrite E1, E2. apply R.
  - intros p. destruct (Ha p) as (E1 & E2 & E3). destruct (C p) as (C1 & C2 & C3 & C4).
    rewrite E2, E3, Hc. auto.
  - assumption.
Qed.

(* sub16 / inc16 on values in range *)
Lemma sub16_small u k : k <= u -> u < 65536 -> sub16 u k = u - k.
Proof.
  intros H1 H2. unfold sub16. rewrite (N.mod_small k) by lia.
  replace (u + 65536 - k) with ((u - k) + 1 * 65536) by lia.
  rewrite N.mod_add by lia. apply N.mod_small. lia.
Qed.
Lemma inc16_small u : u + 1 < 65536 -> inc16 u = u + 1.
Proof. intros H. unfold inc16. apply N.mod_small. assumption. Qed.

(* ------------------------------------------------------------------------------------------ *)
(* the flag part when no flag changes                                                         *)
(* ------------------------------------------------------------------------------------------ *)
Lemma invB_same c c' :
  Inv c ->
  (forall p, pg_flag (getp c' p) = pg_flag (getp c p)) ->
  (forall p, mWin c' p = mWin c p) ->
  (forall p, mPw c' p = mPw c p) ->
  (forall p, mD c (onp p) <= mD c' (onp p))%nat ->
  InvB c'.
Proof.
  intros I Hf Hw Hp Hd. destruct (i_B _ I) as [W ND]. constructor.
  - intros p. rewrite Hf, Hw. apply W.
  - intros p. rewrite Hf, Hp. intros H. specialize (ND p H). specialize (Hd p). lia.
Qed.

(* ------------------------------------------------------------------------------------------ *)
(* the structural part                                                                        *)
(* ------------------------------------------------------------------------------------------ *)
Lemma hd_okP_agree c c' th : agree c c' ->
  (forall h, hp_del (geth c' h) = hp_del (geth c h)) ->
  hd_okP c th -> hd_okP c' th.
Proof.
  intros A Hd. unfold hd_okP.
  assert (Ha : forall p, pg_alive (getp c' p) = pg_alive (getp c p) /\ pg_heap (getp c' p) = pg_heap (getp c p)).
  { intros p. pose proof (pview_eq _ _ (ag_p _ _ A p)) as (E1 & _ & _ & E4). auto. }
  destruct (bottom (th_stk th)) as [[]|]; auto.
  - intros H p. destruct (Ha p) as [E1 E2]. rewrite E1, E2. apply H.
  - intros [H1 H2]. split.
    + intros p. destruct (Ha p) as [E1 E2]. rewrite E1, E2. apply H1.
    + rewrite Hd. assumption.
Qed.

(* a step of thread t that keeps all views, all other threads, the backing heap and the delayed lists *)
Lemma invS_step c c' t :
  Inv c -> agree c c' ->
  (forall t', t' <> t -> gett c' t' = gett c t') ->
  th_backing (gett c' t) = th_backing (gett c t) ->
  (forall p, pg_alive (getp c' p) = false -> getp c' p = pg0) ->
  (forall h, hp_del (geth c' h) = hp_del (geth c h)) ->
  stk_ok (th_stk (gett c' t)) = true ->
  forallb (fr_ok c' t (gett c' t)) (th_stk (gett c' t)) = true ->
  hd_okP c' (gett c' t) ->
  InvS c'.
Proof.
  intros I A Ho Hb Hdead Hdel Hs Hf Hh. destruct (i_S _ I) as [S1 S2 S3 S4 S5 S6 S7 S8 S9].
  assert (Hbk : forall t', th_backing (gett c' t') = th_backing (gett c t')).
  { intros t'. destruct (N.eq_dec t' t) as [->|Hne]; [assumption|rewrite Ho by assumption; reflexivity]. }
  constructor.
  - assumption.
  - intros p Hp. pose proof (pview_eq _ _ (ag_p _ _ A p)) as (E1 & E2 & E3 & E4).
    rewrite E1 in Hp. destruct (S2 p Hp) as [h [H1 H2]]. exists h. rewrite E4, E2. split; [assumption|].
    rewrite (hown_view _ _ _ (ag_h _ _ A h)). assumption.
  - intros t' bk. rewrite Hbk. intros H. destruct (S3 t' bk H) as [H1 H2].
    pose proof (hview_eq _ _ (ag_h _ _ A bk)) as (_ & _ & E). rewrite E, (hown_view _ _ _ (ag_h _ _ A bk)). auto.
  - intros h. pose proof (hview_eq _ _ (ag_h _ _ A h)) as (E1 & E2 & E3). unfold hp_alive. rewrite E1, E2, E3, Hbk.
    apply S4.
  - intros h. pose proof (hview_eq _ _ (ag_h _ _ A h)) as (E1 & E2 & E3). unfold hp_alive. rewrite E1, Hdel. apply S5.
  - intros h. rewrite Hdel. specialize (S6 h). revert S6. apply forallb_impl. intros x. apply del_ok_agree. assumption.
  - intros t'. destruct (N.eq_dec t' t) as [->|Hne]; [assumption|rewrite Ho by assumption; apply S7].
  - intros t'. destruct (N.eq_dec t' t) as [->|Hne]; [assumption|]. rewrite Ho by assumption.
    specialize (S8 t'). revert S8. apply forallb_impl. intros x. apply fr_ok_agree. assumption.
  - intros t'. destruct (N.eq_dec t' t) as [->|Hne]; [assumption|]. rewrite Ho by assumption.
    apply (hd_okP_agree c); auto.
Qed.
