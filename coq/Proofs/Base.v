(* Shared proof infrastructure: finite sweeps lifted to universally quantified statements,
   and the basic facts about 64-bit wrap-around arithmetic. *)
From Coq Require Import NArith ZArith Lia Bool List.
From MiV Require Import Model.Arith.
Local Open Scope N_scope.

(* forallN f n = true  <->  f holds on 0 .. n-1 ; evaluated by vm_compute, lifted by forallN_spec *)
Definition forallN (f : N -> bool) (n : N) : bool :=
  N.recursion true (fun i acc => andb (f i) acc) n.

Lemma forallN_spec f n : forallN f n = true -> forall i, i < n -> f i = true.
Proof.
  unfold forallN. induction n using N.peano_ind; intros H i Hi; [lia|].
  rewrite N.recursion_succ in H; try (intros ? ? -> ? ? ->; reflexivity); try reflexivity.
  apply andb_prop in H as [H1 H2].
  destruct (N.eq_dec i n) as [->|Hne]; [exact H1|]. apply IHn; [exact H2|lia].
Qed.

Lemma W64_val : W64 = 18446744073709551616.
Proof. reflexivity. Qed.

Lemma W64_pow : W64 = 2 ^ 64.
Proof. reflexivity. Qed.

Lemma wrap_mod x : wrap x = x mod W64.
Proof.
  unfold wrap. destruct (x <? W64) eqn:E; [|reflexivity].
  apply N.ltb_lt in E. symmetry; apply N.mod_small; assumption.
Qed.

Lemma wrap_small x : x < W64 -> wrap x = x.
Proof. intros; rewrite wrap_mod; apply N.mod_small; assumption. Qed.

Lemma wrap_lt x : wrap x < W64.
Proof. rewrite wrap_mod; apply N.mod_lt; rewrite W64_val; lia. Qed.

Lemma wsub_small a b : b <= a -> wsub a b = a - b.
Proof. intros Hb. unfold wsub. apply N.leb_le in Hb. rewrite Hb. reflexivity. Qed.

Lemma wsub_mod a b : a < W64 -> b < W64 -> wsub a b = (a + W64 - b) mod W64.
Proof.
  intros Ha Hb. unfold wsub. destruct (b <=? a) eqn:E.
  - apply N.leb_le in E. replace (a + W64 - b) with ((a - b) + 1 * W64) by lia.
    rewrite N.mod_add by (rewrite W64_val; lia). symmetry; apply N.mod_small; lia.
  - apply wrap_mod.
Qed.

Lemma wsub_lt a b : a < W64 -> wsub a b < W64.
Proof.
  intros Ha. unfold wsub. destruct (b <=? a) eqn:E; [apply N.leb_le in E; lia|apply wrap_lt].
Qed.

Lemma wadd_small a b : a + b < W64 -> wadd a b = a + b.
Proof. intros; unfold wadd; apply wrap_small; assumption. Qed.

Lemma wmul_small a b : a * b < W64 -> wmul a b = a * b.
Proof. intros; unfold wmul; apply wrap_small; assumption. Qed.
