(* Composition layer (C01): PROGRESS.  Model/Compose.v turns assertions of the C code into dynamic checks
   (None = the assertion would fail).  This file shows that on the path "new segment, new page, pop" the
   checks never fail: a request of at most MI_LARGE_OBJ_SIZE_MAX bytes with a fresh segment at an address
   the OS contract allows always succeeds.  Uses C16 (bin_size_ge, align_up_props) for `usable >= size`. *)
From Coq Require Import NArith ZArith Lia Bool List.
From Coq Require Import ZifyN ZifyBool.
From MiV Require Import Gen.Consts Gen.Bins Model.Arith Model.Page Model.Span Model.Compose
  Proofs.Base Proofs.ArithProofs Proofs.BitsProofs Proofs.PageProofs Proofs.SpanBase Proofs.SpanInv Proofs.SpanProofs Proofs.OsProofs
  Proofs.ComposeBase Proofs.ComposeInv Proofs.ComposeSpan Proofs.ComposeOps Proofs.ComposeSeg.
Import ListNotations.
Local Open Scope N_scope.

(* ---- block sizes ---- *)
Definition chk_bin_range (b : N) : bool := (b =? 0) || ((8 <=? bin_size b) && (bin_size b <=? MI_MEDIUM_OBJ_SIZE_MAX)).
Lemma sweep_bin_range : forallN chk_bin_range (mi_bin MI_MEDIUM_OBJ_SIZE_MAX + 1) = true.
Proof. vm_compute. reflexivity. Qed.

Lemma block_size_of_bounds size : size <= MI_LARGE_OBJ_SIZE_MAX ->
  size <= block_size_of size /\ 8 <= block_size_of size /\ block_size_of size <= MI_LARGE_OBJ_SIZE_MAX /\
  (MI_MEDIUM_OBJ_SIZE_MAX < size -> MI_MEDIUM_OBJ_SIZE_MAX < block_size_of size) /\
  (size <= MI_MEDIUM_OBJ_SIZE_MAX -> block_size_of size <= MI_MEDIUM_OBJ_SIZE_MAX).
Proof.
  intros Hs. unfold block_size_of. destruct (size <=? MI_MEDIUM_OBJ_SIZE_MAX) eqn:E.
  - apply N.leb_le in E. destruct (bin_size_ge size E) as (H1 & H2 & H3).
    assert (Hmono : mi_bin size <= mi_bin MI_MEDIUM_OBJ_SIZE_MAX).
    { apply bin_monotone; [assumption|]. rewrite W64_val. unfold MI_MEDIUM_OBJ_SIZE_MAX. lia. }
    pose proof (forallN_spec _ _ sweep_bin_range (mi_bin size) ltac:(lia)) as R. unfold chk_bin_range in R.
    rewrite orb_true_iff, andb_true_iff, N.eqb_eq, !N.leb_le in R.
    unfold MI_LARGE_OBJ_SIZE_MAX, MI_MEDIUM_OBJ_SIZE_MAX in *. destruct R as [R|(R1 & R2)]; [lia|]. repeat split; lia.
  - apply N.leb_gt in E. unfold os_good_alloc_size, MI_LARGE_OBJ_SIZE_MAX, MI_MEDIUM_OBJ_SIZE_MAX in *.
    change os_page_size_default with 4096. change SIZE_MAX_ with 18446744073709551615.
    assert (A : forall a, 0 < a -> a <= 1048576 -> 16777216 mod a = 0 ->
                size <= align_up size a /\ align_up size a <= 16777216).
    { intros a Ha Hle Hm. destruct (align_up_props size a) as (A1 & A2 & A3); [lia|rewrite W64_val; lia|rewrite W64_val; lia|].
      split; [assumption|].
      pose proof (N.div_mod (align_up size a) a ltac:(lia)) as D1. rewrite A3 in D1.
      pose proof (N.div_mod 16777216 a ltac:(lia)) as D2. rewrite Hm in D2.
      assert (align_up size a / a <= 16777216 / a); [|nia].
      apply N.lt_succ_r. apply (N.mul_lt_mono_pos_l a); [lia|]. nia. }
    destruct (size <? 512 * 1024) eqn:E1.
    + assert (E0 : (18446744073709551615 - 4096 <=? size) = false) by (apply N.leb_gt; lia). rewrite E0.
      destruct (A 4096) as (A1 & A2); [lia|lia|reflexivity|]. repeat split; lia.
    + destruct (size <? 2 * 1024 * 1024) eqn:E2.
      * assert (E0 : (18446744073709551615 - 64 * 1024 <=? size) = false) by (apply N.leb_gt; lia). rewrite E0.
        destruct (A (64 * 1024)) as (A1 & A2); [lia|lia|reflexivity|]. repeat split; lia.
      * destruct (size <? 8 * 1024 * 1024) eqn:E3.
        -- assert (E0 : (18446744073709551615 - 256 * 1024 <=? size) = false) by (apply N.leb_gt; lia). rewrite E0.
           destruct (A (256 * 1024)) as (A1 & A2); [lia|lia|reflexivity|]. repeat split; lia.
        -- assert (E4 : (size <? 32 * 1024 * 1024) = true) by (apply N.ltb_lt; lia). rewrite E4.
           assert (E0 : (18446744073709551615 - 1024 * 1024 <=? size) = false) by (apply N.leb_gt; lia). rewrite E0.
           destruct (A (1024 * 1024)) as (A1 & A2); [lia|lia|reflexivity|]. repeat split; lia.
Qed.

(* ---- the page area of a fresh page is large enough (the assertions of mi_page_init) ---- *)
Lemma slices_needed_cases bs : 8 <= bs -> bs <= MI_LARGE_OBJ_SIZE_MAX ->
  (bs <= 8192 /\ slices_needed bs = 1) \/ (8192 < bs /\ bs <= 65536 /\ slices_needed bs = 8) \/
  (65536 < bs /\ bs <= slices_needed bs * 65536 /\ 1 <= slices_needed bs).
Proof.
  intros H8 Hl. unfold slices_needed, MI_LARGE_OBJ_SIZE_MAX, MI_SMALL_OBJ_SIZE_MAX, MI_MEDIUM_OBJ_SIZE_MAX,
    MI_MEDIUM_PAGE_SIZE, MI_SEGMENT_SLICE_SIZE in *.
  destruct (bs <=? 8192) eqn:E1.
  - apply N.leb_le in E1. left. split; [assumption|].
    assert (E : (524288 <? bs) = false) by (apply N.ltb_ge; lia). rewrite E.
    destruct (align_up_props bs 65536) as (A1 & A2 & A3); [lia|rewrite W64_val; lia|rewrite W64_val; lia|].
    pose proof (N.div_mod (align_up bs 65536) 65536 ltac:(lia)) as D. rewrite A3 in D.
    assert (align_up bs 65536 / 65536 < 2) by (apply N.div_lt_upper_bound; lia).
    assert (align_up bs 65536 / 65536 <> 0) by (intros Z; rewrite Z in D; lia). lia.
  - apply N.leb_gt in E1. destruct (bs <=? 65536) eqn:E2.
    + apply N.leb_le in E2. right. left. split; [assumption|]. split; [assumption|]. vm_compute. reflexivity.
    + apply N.leb_gt in E2. right. right. split; [assumption|].
      destruct (524288 <? bs) eqn:E3.
      * destruct (align_up_props bs 524288) as (A1 & A2 & A3); [lia|rewrite W64_val; lia|rewrite W64_val; lia|].
        assert (M : align_up bs 524288 mod 65536 = 0).
        { pose proof (N.div_mod (align_up bs 524288) 524288 ltac:(lia)) as D. rewrite A3 in D.
          rewrite D. replace (524288 * (align_up bs 524288 / 524288) + 0) with ((8 * (align_up bs 524288 / 524288)) * 65536) by lia.
          apply N.mod_mul. lia. }
        pose proof (N.div_mod (align_up bs 524288) 65536 ltac:(lia)) as D2. rewrite M in D2.
        split; [lia|]. assert (align_up bs 524288 / 65536 <> 0) by (intros Z; rewrite Z in D2; lia). lia.
      * destruct (align_up_props bs 65536) as (A1 & A2 & A3); [lia|rewrite W64_val; lia|rewrite W64_val; lia|].
        pose proof (N.div_mod (align_up bs 65536) 65536 ltac:(lia)) as D2. rewrite A3 in D2.
        split; [lia|]. assert (align_up bs 65536 / 65536 <> 0) by (intros Z; rewrite Z in D2; lia). lia.
Qed.

Lemma fresh_psize_ok base idx bs : 8 <= bs -> bs <= MI_LARGE_OBJ_SIZE_MAX ->
  base mod MI_SEGMENT_SIZE = 0 -> base + MI_SEGMENT_SIZE < 2^63 -> idx <= MI_SLICES_PER_SEGMENT ->
  let psize := snd (page_start_from_slice base idx (slices_needed bs) bs) in
  bs <= psize /\ psize / bs < 65536.
Proof.
  intros H8 Hl Hal Hw Hi. cbv zeta.
  pose proof (slices_needed_le bs Hl) as Hk. unfold MI_MAX_SLICE_OFFSET_COUNT in Hk.
  destruct (slices_needed_cases bs H8 Hl) as [(Hb & Ek)|[(Hb1 & Hb2 & Ek)|(Hb & Hge & Hk1)]].
  - rewrite Ek. destruct (page_start_eq_gen base idx 1 bs Hal Hw ltac:(lia) ltac:(lia) Hi) as (E & _ & _). cbv zeta in E.
    rewrite E. cbn [snd]. clear E.
    set (pstart := base + idx * MI_SEGMENT_SLICE_SIZE). set (psize0 := 1 * MI_SEGMENT_SLICE_SIZE).
    pose proof (pstart_off0_bound pstart psize0 bs) as B0. set (off0 := pstart_off0 pstart psize0 bs) in *.
    assert (B1 : pstart_off1 bs off0 <= off0 + 1024 /\ (512 < bs -> pstart_off1 bs off0 = off0)).
    { unfold pstart_off1, MI_INTPTR_SIZE. destruct (8 <=? bs); [|lia].
      destruct (bs <=? 64) eqn:E64; [apply N.leb_le in E64; lia|]. destruct (bs <=? 512) eqn:E512; [apply N.leb_le in E512; apply N.leb_gt in E64; lia|].
      apply N.leb_gt in E512. lia. }
    set (off1 := pstart_off1 bs off0) in *. unfold psize0, MI_SEGMENT_SLICE_SIZE, MI_MAX_ALIGN_GUARANTEE in *.
    assert (Hso : (off1 + 15) / 16 * 16 <= off1 + 15) by (pose proof (N.div_mod (off1 + 15) 16 ltac:(lia)); lia).
    assert (Hoff : off1 <= 8192 + 1024 /\ (512 < bs -> off1 < bs)).
    { destruct B1 as (B1 & B2). destruct B0 as [B0|(B0 & _)]; split; try lia; intros Hb5; rewrite (B2 Hb5); lia. }
    assert (Hps : bs <= 1 * 65536 - (off1 + 15) / 16 * 16).
    { destruct (N.le_gt_cases bs 512); lia. }
    split; [exact Hps|].
    apply N.div_lt_upper_bound; lia.
  - rewrite Ek. destruct (page_start_eq_gen base idx 8 bs Hal Hw ltac:(lia) ltac:(lia) Hi) as (E & _ & _). cbv zeta in E.
    rewrite E. cbn [snd]. clear E.
    set (pstart := base + idx * MI_SEGMENT_SLICE_SIZE). set (psize0 := 8 * MI_SEGMENT_SLICE_SIZE).
    pose proof (pstart_off0_bound pstart psize0 bs) as B0. set (off0 := pstart_off0 pstart psize0 bs) in *.
    assert (B1 : pstart_off1 bs off0 = off0).
    { unfold pstart_off1, MI_INTPTR_SIZE. destruct (8 <=? bs); [|reflexivity].
      destruct (bs <=? 64) eqn:E64; [apply N.leb_le in E64; lia|]. destruct (bs <=? 512) eqn:E512; [apply N.leb_le in E512; lia|reflexivity]. }
    rewrite B1. unfold psize0, MI_SEGMENT_SLICE_SIZE, MI_MAX_ALIGN_GUARANTEE in *.
    assert (Hso : (off0 + 15) / 16 * 16 <= off0 + 15) by (pose proof (N.div_mod (off0 + 15) 16 ltac:(lia)); lia).
    assert (off0 <= 65536) by (destruct B0 as [B0|(B0 & _)]; lia).
    split; [lia|]. apply N.div_lt_upper_bound; lia.
  - assert (Hc : 0 < slices_needed bs) by lia.
    destruct (page_start_eq_gen base idx (slices_needed bs) bs Hal Hw Hc ltac:(lia) Hi) as (E & _ & _). cbv zeta in E.
    rewrite E. cbn [snd]. clear E.
    set (pstart := base + idx * MI_SEGMENT_SLICE_SIZE). set (psize0 := slices_needed bs * MI_SEGMENT_SLICE_SIZE).
    assert (B0 : pstart_off0 pstart psize0 bs = 0).
    { unfold pstart_off0, MI_MAX_ALIGN_GUARANTEE. assert (E : (bs <=? 65536) = false) by (apply N.leb_gt; lia). rewrite E, andb_false_r. reflexivity. }
    rewrite B0.
    assert (B1 : pstart_off1 bs 0 = 0).
    { unfold pstart_off1, MI_INTPTR_SIZE. destruct (8 <=? bs); [|reflexivity].
      destruct (bs <=? 64) eqn:E64; [apply N.leb_le in E64; lia|]. destruct (bs <=? 512) eqn:E512; [apply N.leb_le in E512; lia|reflexivity]. }
    rewrite B1. change ((0 + 15) / 16 * 16) with 0. rewrite N.sub_0_r. unfold psize0, MI_SEGMENT_SLICE_SIZE.
    split; [lia|]. apply N.div_lt_upper_bound; lia.
Qed.

(* ---- a fresh normal segment serves every page request ---- *)
Definition chk_alloc_init (k : N) : bool :=
  match fst (page_find_and_allocate init_normal k (fun _ => true) true) with Some _ => true | None => false end.
Lemma sweep_alloc_init : forallN chk_alloc_init (MI_MAX_SLICE_OFFSET_COUNT + 2) = true.
Proof. vm_compute. reflexivity. Qed.

Lemma kind_init_normal : kind (fst init_normal) = SegNormal.
Proof. apply span_inv_init_normal. Qed.

(* C01_compose_malloc_progress *)
Theorem malloc_fresh_seg_progress m size base : mem_inv m -> size <= MI_LARGE_OBJ_SIZE_MAX ->
  base_ok m base MI_SLICES_PER_SEGMENT = true ->
  exists m' p, mmalloc m size (ChFreshSeg base) = Some (m', p).
Proof.
  intros Hm Hs Hb. cbn [mmalloc]. unfold fresh_seg. rewrite Hb, segment_init_normal.
  destruct (block_size_of_bounds size Hs) as (Hge & H8 & Hle & _).
  set (bs := block_size_of size) in *.
  set (cs0 := mkCSeg base init_normal []). set (m0 := cs0 :: m).
  assert (Hm0 : mem_inv m0).
  { destruct (fresh_seg_spec m base m0 Hm) as (H & _); [|exact H]. unfold fresh_seg. rewrite Hb, segment_init_normal. reflexivity. }
  destruct (base_ok_spec _ _ _ Hb) as (B1 & B2 & B3 & _).
  (* fresh_page succeeds *)
  assert (Hfp : exists m1 idx, fresh_page m0 base bs = Some (m1, idx)).
  { unfold fresh_page.
    assert (E1 : negb ((0 <? bs) && (bs <=? MI_LARGE_OBJ_SIZE_MAX)) = false).
    { apply negb_false_iff. apply andb_true_intro. split; [apply N.ltb_lt; lia|apply N.leb_le; assumption]. }
    rewrite E1.
    assert (E2 : find_seg m0 base = Some cs0) by (unfold find_seg, m0; cbn [kfind cs0 cs_base]; rewrite N.eqb_refl; reflexivity).
    rewrite E2. cbn [cs0 cs_st cs_pages]. rewrite kind_init_normal.
    pose proof (slices_needed_le bs Hle) as Hk.
    pose proof (forallN_spec _ _ sweep_alloc_init (slices_needed bs) ltac:(lia)) as Sw. unfold chk_alloc_init in Sw.
    destruct (page_find_and_allocate init_normal (slices_needed bs) (fun _ => true) true) as [[idx|] st1] eqn:Ea; [|discriminate Sw].
    clear Sw. destruct span_inv_init_normal as (Hinv0 & _).
    destruct init_normal as [sg0 qs0] eqn:Ein.
    destruct (allocate_fresh sg0 qs0 _ _ _ _ Hinv0 Ea) as (sps & c & _ & _ & _ & _ & _ & Hus & _ & _ & Hinv1).
    set (k := if slices_needed bs =? 0 then 1 else slices_needed bs) in *.
    assert (Hk' : k = slices_needed bs).
    { unfold k. destruct (slices_needed bs =? 0) eqn:E0; [|reflexivity]. apply N.eqb_eq in E0.
      destruct (slices_needed_cases bs H8 Hle) as [(_ & E)|[(_ & _ & E)|(_ & _ & E)]]; lia. }
    assert (Hnew : In (idx, k) (used_spans (fst st1))) by (apply Hus; left; reflexivity).
    pose proof (set_block_size_facts st1 idx k bs Hinv1 Hnew ltac:(lia)) as F. cbv zeta in F.
    destruct F as (Hinv2 & Hus2 & _ & Hgi & _).
    assert (Hcnt : slice_count (get (entries (fst st1)) idx) = k /\ idx <= MI_SLICES_PER_SEGMENT).
    { destruct (used_spans_disjoint st1 Hinv1) as (_ & R). destruct (R idx k Hnew) as (_ & Hi & _).
      destruct Hinv1 as (sps1 & m1 & Hinv1). apply (In_used_spans _ _ _ _ _ _ Hinv1) in Hnew as (Hin1 & _).
      pose proof Hinv1 as (_ & _ & Hf & _ & _ & _ & _ & _ & _ & Hn & _). rewrite Forall_forall in Hf.
      destruct (Hf _ Hin1) as (_ & Hc & _). cbn [fst snd] in *. split; [assumption|lia]. }
    destruct Hcnt as (Hcnt & Hidx).
    unfold init_cpage.
    assert (Eps : snd (page_area {| cs_base := base; cs_st := set_block_size st1 idx bs; cs_pages := [] |} idx) =
                  snd (page_start_from_slice base idx (slices_needed bs) bs)).
    { unfold page_area, page_start. cbn [cs_base cs_st]. rewrite Hgi. cbn [slice_count bsz]. rewrite Hcnt, Hk'. reflexivity. }
    rewrite Eps.
    destruct (fresh_psize_ok base idx bs H8 Hle B1 B3 Hidx) as (P1 & P2). cbv zeta in P1, P2.
    assert (E3 : (0 <? bs) && (bs <=? snd (page_start_from_slice base idx (slices_needed bs) bs)) &&
                 (snd (page_start_from_slice base idx (slices_needed bs) bs) / bs <? 65536) = true).
    { apply andb_true_intro. split; [apply andb_true_intro; split|]; [apply N.ltb_lt; lia|apply N.leb_le; assumption|apply N.ltb_lt; assumption]. }
    rewrite E3. eexists _, _. reflexivity. }
  destruct Hfp as (m1 & idx & Efp). rewrite Efp.
  destruct (fresh_page_spec m0 base bs m1 idx Hm0 Efp) as (Hm1 & _ & cs' & cp' & Ef & Ep & Ebs & Hfree).
  unfold pop_block. rewrite Ef, Ep, Ebs.
  assert (E4 : (size <=? bs) = true) by (apply N.leb_le; assumption). rewrite E4.
  unfold page_malloc. destruct (free (cp_page cp')) as [|b rest] eqn:Efr; [contradiction|].
  eexists _, _. reflexivity.
Qed.

(* ---- the huge path: a block above MI_LARGE_OBJ_SIZE_MAX in its own segment ---- *)

(* the page area of a span whose block size is above MI_MAX_ALIGN_GUARANTEE is the whole span *)
Lemma big_page_area base idx cnt bs : base mod MI_SEGMENT_SIZE = 0 -> base + MI_SEGMENT_SIZE < 2^63 ->
  0 < cnt -> cnt < 4294967296 -> idx <= MI_SLICES_PER_SEGMENT -> MI_MAX_ALIGN_GUARANTEE < bs ->
  snd (page_start_from_slice base idx cnt bs) = cnt * MI_SEGMENT_SLICE_SIZE.
Proof.
  intros Hal Hw Hc Hc32 Hi Hb.
  destruct (page_start_eq_gen base idx cnt bs Hal Hw Hc Hc32 Hi) as (E & _ & _). cbv zeta in E. rewrite E. cbn [snd].
  assert (B0 : pstart_off0 (base + idx * MI_SEGMENT_SLICE_SIZE) (cnt * MI_SEGMENT_SLICE_SIZE) bs = 0).
  { unfold pstart_off0. assert (E0 : (bs <=? MI_MAX_ALIGN_GUARANTEE) = false) by (apply N.leb_gt; assumption).
    rewrite E0, andb_false_r. reflexivity. }
  rewrite B0.
  assert (B1 : pstart_off1 bs 0 = 0).
  { unfold pstart_off1, MI_INTPTR_SIZE. unfold MI_MAX_ALIGN_GUARANTEE in Hb. destruct (8 <=? bs); [|reflexivity].
    destruct (bs <=? 64) eqn:E64; [apply N.leb_le in E64; lia|]. destruct (bs <=? 512) eqn:E512; [apply N.leb_le in E512; lia|reflexivity]. }
  rewrite B1. change ((0 + 15) / 16 * 16) with 0. lia.
Qed.

Theorem malloc_huge_progress m size base : mem_inv m -> MI_LARGE_OBJ_SIZE_MAX < size -> size < 2^47 ->
  base_ok m base ((block_size_of size + 131071) / 65536) = true ->
  exists m' p, mmalloc m size (ChHuge base 0) = Some (m', p).
Proof.
  intros Hm Hlo Hhi Hb. cbn [mmalloc].
  assert (E47 : 2 ^ 47 = 140737488355328) by reflexivity. rewrite E47 in Hhi.
  unfold MI_LARGE_OBJ_SIZE_MAX in Hlo.
  assert (Hbs : size <= block_size_of size /\ block_size_of size < 2^47 + 4194304).
  { unfold block_size_of. assert (E : (size <=? MI_MEDIUM_OBJ_SIZE_MAX) = false) by (apply N.leb_gt; unfold MI_MEDIUM_OBJ_SIZE_MAX; lia).
    rewrite E. split; [apply OsProofs.good_size_ge; rewrite W64_val; lia|].
    unfold os_good_alloc_size. change os_page_size_default with 4096. change SIZE_MAX_ with 18446744073709551615.
    assert (E1 : (size <? 512 * 1024) = false) by (apply N.ltb_ge; lia).
    assert (E2 : (size <? 2 * 1024 * 1024) = false) by (apply N.ltb_ge; lia).
    assert (E3 : (size <? 8 * 1024 * 1024) = false) by (apply N.ltb_ge; lia). rewrite E1, E2, E3, E47.
    destruct (size <? 32 * 1024 * 1024).
    - assert (E0 : (18446744073709551615 - 1024 * 1024 <=? size) = false) by (apply N.leb_gt; lia). rewrite E0.
      destruct (align_up_props size (1024 * 1024)) as (_ & A2 & _); [lia|rewrite W64_val; lia|rewrite W64_val; lia|]. lia.
    - assert (E0 : (18446744073709551615 - 4 * 1024 * 1024 <=? size) = false) by (apply N.leb_gt; lia). rewrite E0.
      destruct (align_up_props size (4 * 1024 * 1024)) as (_ & A2 & _); [lia|rewrite W64_val; lia|rewrite W64_val; lia|]. lia. }
  rewrite E47 in Hbs. destruct Hbs as (Hge & Hlt).
  set (bs := block_size_of size) in *.
  assert (Ebig : (MI_LARGE_OBJ_SIZE_MAX <? bs) || (0 <? 0) = true).
  { apply orb_true_iff. left. apply N.ltb_lt. unfold MI_LARGE_OBJ_SIZE_MAX. lia. }
  rewrite Ebig. unfold huge_seg.
  set (ss := (bs + 131071) / 65536) in *.
  assert (Hss : 2 <= ss /\ ss < 4294967296 /\ bs <= (ss - 1) * 65536 /\ 257 <= ss).
  { unfold ss. pose proof (N.div_mod (bs + 131071) 65536 ltac:(lia)) as D.
    pose proof (N.mod_lt (bs + 131071) 65536 ltac:(lia)) as M. lia. }
  destruct Hss as (H2 & H32 & Hcover & H257).
  assert (Er : segment_request bs 0 = (ss, 1, MI_SEGMENT_SIZE, 0)).
  { unfold segment_request. rewrite calculate_slices_huge by (rewrite ?W64_val; lia). reflexivity. }
  rewrite Er.
  assert (Eb0 : (bs =? 0) = false) by (apply N.eqb_neq; lia).
  assert (Ec : (2 <=? ss) && (ss <? 4294967296) && (1 =? 1) = true).
  { apply andb_true_intro. split; [apply andb_true_intro; split|reflexivity]; [apply N.leb_le|apply N.ltb_lt]; assumption. }
  rewrite Eb0, Ec. cbn [orb negb].
  destruct (huge_init_inv ss H2 H32) as (st & Hi & Hinv & Hu & Hk & Hinfo & Hn & Hg1 & _).
  rewrite (segment_init_huge bs 0 ss MI_SEGMENT_SIZE 0 ltac:(lia) Er), Hi, Hinfo.
  destruct (base_ok_spec _ _ _ Hb) as (B1 & B2 & B3 & _).
  (* the page area before and after page->block_size = psize *)
  assert (Ep0 : snd (page_area (mkCSeg base st []) 1) = (ss - 1) * MI_SEGMENT_SLICE_SIZE).
  { unfold page_area, page_start. cbn [cs_base cs_st]. rewrite Hg1. cbn [slice_count bsz].
    apply big_page_area; try assumption; unfold MI_SLICES_PER_SEGMENT, MI_MAX_ALIGN_GUARANTEE, MI_SEGMENT_SLICE_SIZE; lia. }
  rewrite Ep0. set (psize := (ss - 1) * MI_SEGMENT_SLICE_SIZE) in *.
  assert (HI : span_Inv st) by (exists [(0, 1); (1, ss - 1)], ss; rewrite Hu; exact Hinv).
  assert (Hused : In (1, ss - 1) (used_spans (fst st))).
  { apply (In_used_spans _ _ _ _ _ _ Hinv). split; [right; left; reflexivity|]. rewrite Hg1. cbn [bsz].
    unfold psize, MI_SEGMENT_SLICE_SIZE. lia. }
  assert (Hps0 : 0 < psize) by (unfold psize, MI_SEGMENT_SLICE_SIZE; lia).
  pose proof (set_block_size_facts st 1 (ss - 1) psize HI Hused Hps0) as F. cbv zeta in F.
  destruct F as (_ & _ & _ & Hgi & Hk2 & Hinfo2 & _ & _).
  set (st2 := set_block_size st 1 psize) in *.
  assert (Eslices : seg_slices (fst (cs_st (mkCSeg base st2 []))) = ss).
  { cbn [cs_st]. unfold seg_slices. rewrite Hk2, Hk, Hinfo2, Hinfo, Hgi. cbn [slice_count]. rewrite Hg1. cbn [slice_count]. lia. }
  rewrite Eslices, Hb.
  assert (Ep1 : snd (page_area (mkCSeg base st2 []) 1) = psize).
  { unfold page_area, page_start. cbn [cs_base cs_st]. rewrite Hgi. cbn [slice_count bsz]. rewrite Hg1. cbn [slice_count].
    apply big_page_area; try assumption; unfold psize, MI_SLICES_PER_SEGMENT, MI_MAX_ALIGN_GUARANTEE, MI_SEGMENT_SLICE_SIZE; lia. }
  unfold init_cpage. rewrite Ep1.
  assert (Ediv : psize / psize = 1) by (apply N.div_same; lia).
  assert (Echk : (0 <? psize) && (psize <=? psize) && (psize / psize <? 65536) = true).
  { rewrite Ediv. apply andb_true_intro. split; [apply andb_true_intro; split|reflexivity]; [apply N.ltb_lt; assumption|apply N.leb_refl]. }
  rewrite Echk.
  destruct (page_init_facts psize psize false Hps0 ltac:(rewrite Ediv; lia)) as (_ & Fb & Fr & _ & _).
  cbn [cp_page]. rewrite Fr, Ediv. cbn [N.eqb Pos.eqb].
  (* pop *)
  unfold pop_block, find_seg. cbn [kfind set_pages cs_base]. rewrite N.eqb_refl.
  unfold find_page. cbn [cs_pages set_pages kfind cp_idx]. rewrite N.eqb_refl. cbn [cp_page]. rewrite Fb.
  assert (Esz : (size <=? psize) = true) by (apply N.leb_le; unfold psize, MI_SEGMENT_SLICE_SIZE; lia). rewrite Esz.
  pose proof (page_init_free psize psize false Hps0 (N.le_refl _) ltac:(rewrite Ediv; lia)) as Hfree.
  unfold page_malloc. destruct (free (page_init psize psize false)) as [|b rest]; [contradiction|].
  eexists _, _. reflexivity.
Qed.
