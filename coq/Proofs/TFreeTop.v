(* Generic lemmas for transitions that replace the top frame of the stepping thread. *)
From Coq Require Import NArith List Bool Lia Arith.
From MiV Require Import Model.TFree Proofs.TFreeBase Proofs.TFreeInv Proofs.TFreeGen.
Import ListNotations.
Local Open Scope N_scope.

Definition good (r : result) : Prop :=
  match r with RNone => True | RErr _ => False | ROk c' _ => Inv c' end.

(* frames without a mi_heap_delete obligation *)
Definition plain (f : frame) : Prop := match f with HD3 _ _ _ | HD4 _ => False | _ => True end.
Lemma plain_hd_ok c th f : plain f -> hd_fr_okP c th f.
Proof. destruct f; cbn; tauto. Qed.

Lemma hd_bottom_app a b h : hd_bottom (a ++ b) h = hd_bottom a h || hd_bottom b h.
Proof. unfold hd_bottom. apply existsb_app. Qed.
Lemma has_af_app a b : has_af (a ++ b) = has_af a || has_af b.
Proof. unfold has_af. apply existsb_app. Qed.

(* facts about the stepping thread's stack *)
Lemma stack_facts c t fr rest : Inv c -> th_stk (gett c t) = fr :: rest ->
  stk_ok (fr :: rest) = true /\ fr_ok c t (gett c t) fr = true /\ forallb (fr_ok c t (gett c t)) rest = true
  /\ hd_okP c (gett c t).
Proof.
  intros I E. pose proof (s_shape _ (i_S _ I) t) as H1. pose proof (s_frames _ (i_S _ I) t) as H2.
  pose proof (s_hd _ (i_S _ I) t) as H3. rewrite E in H1, H2. cbn [forallb] in H2.
  apply andb_prop in H2 as [H2 H2']. auto.
Qed.

Lemma stack_win_ok c t x : In x (th_stk (gett c t)) -> fr_win_ok c x.
Proof.
  intros Hin. destruct x; cbn; auto; pose proof (mWin_ge c t (fst b)) as G;
    pose proof (sum_fr_In (win_fr (fst b)) _ _ Hin) as G'; cbn in G'; rewrite N.eqb_refl in G'; lia.
Qed.

(* replace the top frame fr by the frames nf *)
Lemma step_top c t fr rest nf ret' :
  Inv c -> th_stk (gett c t) = fr :: rest ->
  (forall P, cnt P (stk_blocks nf) = cnt P (fr_blocks fr)) ->
  (forall p, sum_fr (win_fr p) nf = win_fr p fr) ->
  (forall p, sum_fr (pw_fr p) nf = pw_fr p fr) ->
  (forall p, (cnt (onp p) (d1_stk (th_ret (gett c t)) (fr :: rest)) <= cnt (onp p) (d1_stk ret' (nf ++ rest)))%nat
             \/ (pg_flag (getp c p) <> NoD /\ pg_flag (getp c p) <> Freeing)) ->
  (forall p h, absorbing (fr :: rest) p h = true -> absorbing (nf ++ rest) p h = true \/ mWin c p = 0%nat) ->
  (forall h, is_hd_of h fr = true -> hd_bottom nf h = true) ->
  stk_ok (nf ++ rest) = true ->
  forallb (fr_ok c t (gett c t)) nf = true ->
  (forall f, In f nf -> hd_fr_okP c (th_set (gett c t) (nf ++ rest) ret') f) ->
  (hd4_quiet (nf ++ rest) ret' = true ->
   hd4_quiet (fr :: rest) (th_ret (gett c t)) = true \/ forall h, In (HD4 h) rest -> hp_del (geth c h) = []) ->
  Inv (sett c t (th_set (gett c t) (nf ++ rest) ret')).
Proof.
  intros I E Hb Hw Hp Hd Ha Hbot Hs Hf Hh Hq.
  destruct (stack_facts c t fr rest I E) as (S1 & S2 & S3 & S4).
  apply step_stack_only; rewrite ?E; auto.
  - intros P. rewrite stk_blocks_app, stk_blocks_cons, !cnt_app, Hb. reflexivity.
  - intros p. rewrite sum_fr_app. cbn [sum_fr]. rewrite Hw. reflexivity.
  - intros p. rewrite sum_fr_app. cbn [sum_fr]. rewrite Hp. reflexivity.
  - intros h. change (fr :: rest) with ([fr] ++ rest). rewrite !hd_bottom_app. intros H.
    apply orb_prop in H as [H|H]; [|rewrite H; apply orb_true_r].
    unfold hd_bottom in H at 1. cbn [existsb] in H. rewrite orb_false_r in H. rewrite (Hbot h H). reflexivity.
  - rewrite forallb_app, Hf, S3. reflexivity.
  - intros f Hin. cbn [th_stk th_set] in Hin. apply in_app_or in Hin as [Hin|Hin]; [apply Hh; assumption|].
    assert (Hold : hd_fr_okP c (gett c t) f) by (apply S4; rewrite E; right; assumption).
    destruct f; cbn [hd_fr_okP] in *; auto.
    destruct Hold as [H1 H2]. split; [assumption|]. cbn [th_stk th_ret th_set]. intros Q.
    destruct (Hq Q) as [Q'|Q']; [apply H2; rewrite E; assumption|apply Q'; assumption].
Qed.

(* a block in a frame of a thread / held by a thread is in a place *)
Lemma in_stack_W c t b : In b (stk_blocks (th_stk (gett c t))) -> wf c -> (1 <= mW c (bid_eqb b))%nat.
Proof.
  intros H Hwf. pose proof (mW_ge_th c t (bid_eqb b)) as G. unfold th_W in G.
  apply cnt_In in H. lia.
Qed.
Lemma frame_block_alive c t b : Inv c -> In b (stk_blocks (th_stk (gett c t))) ->
  pg_alive (getp c (fst b)) = true /\ snd b < pg_cap (getp c (fst b)).
Proof.
  intros I H. apply (a_range _ (i_A _ I)). pose proof (in_stack_W c t b H (i_wf _ I)). lia.
Qed.

Ltac stk_ok_top :=
  match goal with
  | S : stk_ok (_ :: ?rest) = true |- stk_ok _ = true =>
    cbn [app]; cbn [stk_ok] in S |- *;
    destruct rest as [|[] ?]; cbn in S |- *; try discriminate S; try exact S; try reflexivity; auto
  end.

Ltac top_side :=
  lazymatch goal with
  | |- forall P, cnt P (stk_blocks _) = cnt P (fr_blocks _) =>
    intros ?P; cbn [stk_blocks flat_map fr_blocks app]; rewrite ?app_nil_r; try reflexivity
  | |- forall p, sum_fr (win_fr p) _ = _ => intros ?p; cbn [sum_fr win_fr]; try lia
  | |- forall p, sum_fr (pw_fr p) _ = _ => intros ?p; cbn [sum_fr pw_fr]; try lia
  | |- forall p, (cnt (onp p) (d1_stk _ _) <= _)%nat \/ _ =>
    intros ?p; try (left; cbn [d1_stk d1_fr app flat_map]; rewrite ?app_nil_r; lia)
  | |- forall p, (cnt (onp p) (d1_stk _ _) <= _)%nat =>
    intros ?p; cbn [d1_stk d1_fr app flat_map]; rewrite ?app_nil_r; try lia
  | |- forall f, In f _ -> match f with PF _ => _ | _ => _ end =>
    intros ?f ?Hin; cbn [In] in *;
    repeat match goal with H : _ \/ _ |- _ => destruct H end; subst; try contradiction
  | |- forall f, In f _ -> noabs f =>
    intros ?f ?Hin; cbn [In] in *;
    repeat match goal with H : _ \/ _ |- _ => destruct H end; subst; try contradiction; try exact Logic.I
  | |- forall f, In f _ -> plain f =>
    intros ?f ?Hin; cbn [In] in *;
    repeat match goal with H : _ \/ _ |- _ => destruct H end; subst; try contradiction; try exact Logic.I
  | |- forall p h, absorbing _ p h = true -> _ => intros ?p ?h; cbn [absorbing app]; try discriminate; auto; try (intros ?Hx; left; exact Hx)
  | |- forall h, is_hd_of h _ = true -> _ => intros ?h; cbn [is_hd_of]; try discriminate
  | |- forallb (fr_ok _ _ _) _ = true => cbn [forallb fr_ok]
  | |- forall f, In f _ -> hd_fr_okP _ _ f =>
    intros ?f ?Hin; cbn [In] in *;
    repeat match goal with H : _ \/ _ |- _ => destruct H end; subst; try contradiction; try exact Logic.I
  | |- hd4_quiet _ _ = true -> _ =>
    cbn [hd4_quiet app has_af existsb orb]; try (intros ?Q; left; exact Q);
    try (intros ?Q; left; rewrite Q, ?orb_true_r; reflexivity)
  | _ => idtac
  end.


(* the shared side conditions of a top-frame replacement *)
Section Top.
  Variables (c : cfg) (t : N) (fr : frame) (rest nf : list frame) (ret' : bool).
  Hypothesis I : Inv c.
  Hypothesis E : th_stk (gett c t) = fr :: rest.
  Let th' := th_set (gett c t) (nf ++ rest) ret'.

  Hypothesis Ha : forall p h, absorbing (fr :: rest) p h = true -> absorbing (nf ++ rest) p h = true \/ mWin c p = 0%nat.
  Hypothesis Hbot : forall h, is_hd_of h fr = true -> hd_bottom nf h = true.

  Lemma top_agree_sett c1 : (forall t', gett c1 t' = gett c t') -> (forall p, mWin c1 p = mWin c p) ->
    agree t c1 (sett c1 t th').
  Proof.
    intros G M. apply agree_sett; rewrite G, E; cbn [th_stk th' th_set];
      [intros p h H; rewrite M; apply Ha; assumption|].
    intros h. change (fr :: rest) with ([fr] ++ rest). rewrite !hd_bottom_app. intros H.
    apply orb_prop in H as [H|H]; [|rewrite H; apply orb_true_r].
    unfold hd_bottom in H at 1. cbn [existsb] in H. rewrite orb_false_r in H. rewrite (Hbot h H). reflexivity.
  Qed.

  (* hd_okP of the stepping thread, for the frames that stay *)
  Lemma top_hd_rest c' :
    (forall p, pg_alive (getp c' p) = pg_alive (getp c p) /\ pg_heap (getp c' p) = pg_heap (getp c p)) ->
    (hd4_quiet (nf ++ rest) ret' = true ->
     hd4_quiet (fr :: rest) (th_ret (gett c t)) = true \/ forall h, In (HD4 h) rest -> hp_del (geth c' h) = []) ->
    (forall h, In (HD4 h) rest -> hd4_quiet (fr :: rest) (th_ret (gett c t)) = true ->
               hp_del (geth c h) = [] -> hp_del (geth c' h) = []) ->
    forall f, In f rest -> hd_fr_okP c' th' f.
  Proof.
    intros Hp Hq Hd f Hin.
    destruct (stack_facts c t fr rest I E) as (S1 & S2 & S3 & S4).
    assert (Hold : hd_fr_okP c (gett c t) f) by (apply S4; rewrite E; right; assumption).
    destruct f; cbn [hd_fr_okP] in *; auto.
    - intros p. destruct (Hp p) as [E1 E2]. rewrite E1, E2. apply Hold.
    - destruct Hold as [H1 H2]. split.
      + intros p. destruct (Hp p) as [E1 E2]. rewrite E1, E2. apply H1.
      + cbn [th_stk th_ret th' th_set]. intros Q.
        destruct (Hq Q) as [Q'|Q']; [|apply Q'; assumption]. apply Hd; auto. apply H2. rewrite E. assumption.
  Qed.
End Top.

(* ------------------------------------------------------------------------------------------ *)
(* top replacement + CAS on a page's xthread_free word                                        *)
(* ------------------------------------------------------------------------------------------ *)
Lemma step_top_word c t fr rest nf ret' p f' tf' :
  Inv c -> th_stk (gett c t) = fr :: rest ->
  pg_alive (getp c p) = true ->
  (forall P, cnt P (stk_blocks nf) + cnt P tf' = cnt P (fr_blocks fr) + cnt P (pg_tf (getp c p)))%nat ->
  forallb (onp p) tf' = true ->
  InvB (sett (setp c p (pg_set_word (getp c p) f' tf')) t (th_set (gett c t) (nf ++ rest) ret')) ->
  (forall p h, absorbing (fr :: rest) p h = true -> absorbing (nf ++ rest) p h = true \/ mWin c p = 0%nat) ->
  (forall h, is_hd_of h fr = true -> hd_bottom nf h = true) ->
  stk_ok (nf ++ rest) = true ->
  forallb (fr_ok c t (gett c t)) nf = true ->
  (forall f, In f nf -> noabs f) ->
  (forall f, In f nf -> hd_fr_okP c (th_set (gett c t) (nf ++ rest) ret') f) ->
  (hd4_quiet (nf ++ rest) ret' = true ->
   hd4_quiet (fr :: rest) (th_ret (gett c t)) = true \/ forall h, In (HD4 h) rest -> hp_del (geth c h) = []) ->
  Inv (sett (setp c p (pg_set_word (getp c p) f' tf')) t (th_set (gett c t) (nf ++ rest) ret')).
Proof.
  intros I E Hal Hb Hloc HB Ha Hbot Hs Hf Hna Hh Hq.
  set (pg' := pg_set_word (getp c p) f' tf'). set (c1 := setp c p pg').
  set (th' := th_set (gett c t) (nf ++ rest) ret'). set (c' := sett c1 t th').
  pose proof (i_wf _ I) as Hwf. assert (Hwf1 : wf c1) by (apply wf_setp; assumption).
  destruct (stack_facts c t fr rest I E) as (S1 & S2 & S3 & S4).
  assert (A1 : agree t c c1) by (apply agree_setp; [reflexivity|left; reflexivity]).
  assert (A2 : agree t c1 c') by (apply (top_agree_sett c t fr rest nf ret' E Ha Hbot c1); reflexivity).
  assert (A : agree t c c') by (eapply agree_trans; [eassumption|reflexivity|eassumption]).
  assert (Gt : gett c' t = th') by (unfold c'; rewrite gett_sett, N.eqb_refl; reflexivity).
  assert (Gp : forall q, getp c' q = if q =? p then pg' else getp c q).
  { intros q. unfold c', c1. rewrite getp_sett, getp_setp. reflexivity. }
  assert (EW : forall P, (mW c' P = mW c P)%nat).
  { intros P. pose proof (mW_sett c1 Hwf1 t th' P) as E1. pose proof (mW_setp c Hwf p pg' P) as E2.
    unfold th_W in E1. change (gett c1 t) with (gett c t) in E1. rewrite E in E1.
    cbn [th_held th_stk th' th_set pg_tf pg' pg_set_word] in E1, E2.
    rewrite stk_blocks_app, stk_blocks_cons, !cnt_app in E1. specialize (Hb P). unfold c', c1 in *. lia. }
  assert (EF : forall P, (mF c' P = mF c P)%nat).
  { intros P. unfold c'. rewrite mF_sett. pose proof (mF_setp c Hwf p pg' P) as E2.
    cbn [pg_free pg_lfree pg' pg_set_word] in E2. unfold c1. lia. }
  constructor.
  - apply wf_sett; assumption.
  - apply (invA_conserve c); [assumption| | | |].
    + intros P. rewrite EW, EF. reflexivity.
    + intros q. rewrite Gp. destruct (q =? p) eqn:Eq; [apply N.eqb_eq in Eq; subst q|]; reflexivity.
    + intros q. rewrite EW. destruct (a_count _ (i_A _ I) q) as [E1 _]. rewrite <- E1, Gp.
      destruct (q =? p) eqn:Eq; [apply N.eqb_eq in Eq; subst q|]; reflexivity.
    + intros q. rewrite Gp. destruct (q =? p) eqn:Eq; [apply N.eqb_eq in Eq; subst q|apply (a_local _ (i_A _ I))].
      pose proof (a_local _ (i_A _ I) p) as L. unfold pg_blocks in *. cbn [pg_tf pg_free pg_lfree pg' pg_set_word].
      rewrite !forallb_app in *. apply andb_prop in L as [_ L]. rewrite Hloc, L. reflexivity.
  - exact HB.
  - apply (invS_step c c' t); auto.
    + intros t' Hne. unfold c'. rewrite gett_sett. apply N.eqb_neq in Hne. rewrite Hne. reflexivity.
    + rewrite Gt. reflexivity.
    + intros q. rewrite Gp. destruct (q =? p) eqn:Eq; [cbn [pg_alive pg' pg_set_word]; congruence|apply (s_dead _ (i_S _ I))].
    + rewrite Gt. assumption.
    + rewrite Gt. cbn [th_stk th' th_set]. rewrite forallb_app. apply andb_true_intro. split.
      * rewrite forallb_forall in Hf. apply forallb_forall. intros x Hin.
        rewrite (fr_ok_th c' t (gett c t)) by reflexivity.
        apply (agree_used_same t c); [assumption| |apply noabs_win_ok, Hna; assumption|apply Hf; assumption].
        intros q. rewrite Gp. destruct (q =? p) eqn:Eq; [apply N.eqb_eq in Eq; subst q|]; reflexivity.
      * rewrite forallb_forall in S3. apply forallb_forall. intros x Hin.
        rewrite (fr_ok_th c' t (gett c t)) by reflexivity.
        apply (agree_used_same t c); [assumption| |apply (stack_win_ok c t); rewrite E; right; assumption|apply S3; assumption].
        intros q. rewrite Gp. destruct (q =? p) eqn:Eq; [apply N.eqb_eq in Eq; subst q|]; reflexivity.
    + rewrite Gt. intros f Hin. cbn [th_stk th' th_set] in Hin. apply in_app_or in Hin as [Hin|Hin].
      * apply (hd_fr_okP_agree t c); auto.
      * apply (top_hd_rest c t fr rest nf ret' I E c'); auto.
        intros q. rewrite Gp. destruct (q =? p) eqn:Eq; [apply N.eqb_eq in Eq; subst q|]; auto.
Qed.

(* ------------------------------------------------------------------------------------------ *)
(* top replacement + CAS on a heap's thread_delayed_free                                      *)
(* ------------------------------------------------------------------------------------------ *)
Lemma step_top_del c t fr rest nf ret' h l' :
  Inv c -> th_stk (gett c t) = fr :: rest ->
  hp_alive (geth c h) = true ->
  (forall P, cnt P (stk_blocks nf) + cnt P l' = cnt P (fr_blocks fr) + cnt P (hp_del (geth c h)))%nat ->
  InvB (sett (seth c h (hp_set_del (geth c h) l')) t (th_set (gett c t) (nf ++ rest) ret')) ->
  forallb (del_ok c h) l' = true ->
  (forall t', t' <> t -> ~ In (HD4 h) (th_stk (gett c t'))) ->
  (forall p h, absorbing (fr :: rest) p h = true -> absorbing (nf ++ rest) p h = true \/ mWin c p = 0%nat) ->
  (forall h, is_hd_of h fr = true -> hd_bottom nf h = true) ->
  stk_ok (nf ++ rest) = true ->
  forallb (fr_ok c t (gett c t)) nf = true ->
  (forall f, In f nf -> noabs f) ->
  (forall f, In f nf -> plain f) ->
  (hd4_quiet (nf ++ rest) ret' = true -> forall h0, In (HD4 h0) rest ->
   if h0 =? h then l' = [] else hd4_quiet (fr :: rest) (th_ret (gett c t)) = true) ->
  Inv (sett (seth c h (hp_set_del (geth c h) l')) t (th_set (gett c t) (nf ++ rest) ret')).
Proof.
  intros I E Hal Hb HB Hdl Hoth Ha Hbot Hs Hf Hna Hh Hq.
  set (hp' := hp_set_del (geth c h) l'). set (c1 := seth c h hp').
  set (th' := th_set (gett c t) (nf ++ rest) ret'). set (c' := sett c1 t th').
  pose proof (i_wf _ I) as Hwf. assert (Hwf1 : wf c1) by (apply wf_seth; assumption).
  destruct (stack_facts c t fr rest I E) as (S1 & S2 & S3 & S4).
  assert (A1 : agree t c c1) by (apply agree_seth; reflexivity).
  assert (A2 : agree t c1 c') by (apply (top_agree_sett c t fr rest nf ret' E Ha Hbot c1); reflexivity).
  assert (A : agree t c c') by (eapply agree_trans; [eassumption|reflexivity|eassumption]).
  assert (Gt : gett c' t = th') by (unfold c'; rewrite gett_sett, N.eqb_refl; reflexivity).
  assert (Go : forall t', t' <> t -> gett c' t' = gett c t').
  { intros t' Hne. unfold c'. rewrite gett_sett. apply N.eqb_neq in Hne. rewrite Hne. reflexivity. }
  assert (Gh : forall q, geth c' q = if q =? h then hp' else geth c q).
  { intros q. unfold c', c1. rewrite geth_sett, geth_seth. reflexivity. }
  assert (Gp : forall q, getp c' q = getp c q) by reflexivity.
  assert (EW : forall P, (mW c' P = mW c P)%nat).
  { intros P. pose proof (mW_sett c1 Hwf1 t th' P) as E1. pose proof (mW_seth c Hwf h hp' P) as E2.
    unfold th_W in E1. change (gett c1 t) with (gett c t) in E1. rewrite E in E1.
    cbn [th_held th_stk th' th_set hp_del hp' hp_set_del] in E1, E2.
    rewrite stk_blocks_app, stk_blocks_cons, !cnt_app in E1. specialize (Hb P). unfold c', c1 in *. lia. }
  assert (EF : forall P, (mF c' P = mF c P)%nat) by reflexivity.
  assert (Hdel' : forall q, forallb (del_ok c' q) (hp_del (geth c' q)) = true).
  { intros q. rewrite Gh. destruct (q =? h) eqn:Eq.
    - apply N.eqb_eq in Eq; subst q. cbn [hp_del hp' hp_set_del]. revert Hdl. apply forallb_impl.
      intros x. apply (del_ok_agree t). assumption.
    - pose proof (s_del _ (i_S _ I) q) as D. revert D. apply forallb_impl. intros x. apply (del_ok_agree t). assumption. }
  constructor.
  - apply wf_sett; assumption.
  - apply (invA_conserve c); [assumption| | | |].
    + intros P. rewrite EW, EF. reflexivity.
    + intros q. reflexivity.
    + intros q. rewrite EW. destruct (a_count _ (i_A _ I) q) as [E1 _]. rewrite <- E1. reflexivity.
    + intros q. apply (a_local _ (i_A _ I)).
  - exact HB.
  - apply (invS_step_gen c c' t); auto.
    + rewrite Gt. reflexivity.
    + intros q. rewrite Gp. apply (s_dead _ (i_S _ I)).
    + intros q. rewrite Gh. destruct (q =? h) eqn:Eq; [apply N.eqb_eq in Eq; subst q|apply (s_hdead _ (i_S _ I))].
      unfold hp_alive in *. cbn [hp_st hp' hp_set_del]. congruence.
    + rewrite Gt. assumption.
    + rewrite Gt. cbn [th_stk th' th_set]. rewrite forallb_app. apply andb_true_intro. split.
      * rewrite forallb_forall in Hf. apply forallb_forall. intros x Hin.
        rewrite (fr_ok_th c' t (gett c t)) by reflexivity.
        apply (agree_used_same t c); [assumption|reflexivity|apply noabs_win_ok, Hna; assumption|apply Hf; assumption].
      * rewrite forallb_forall in S3. apply forallb_forall. intros x Hin.
        rewrite (fr_ok_th c' t (gett c t)) by reflexivity.
        apply (agree_used_same t c); [assumption|reflexivity|apply (stack_win_ok c t); rewrite E; right; assumption|apply S3; assumption].
    + intros t'. destruct (N.eq_dec t' t) as [->|Hne].
      * rewrite Gt. intros f Hin. cbn [th_stk th' th_set] in Hin. apply in_app_or in Hin as [Hin|Hin].
        -- apply plain_hd_ok. apply Hh. assumption.
        -- assert (Hold : hd_fr_okP c (gett c t) f) by (apply S4; rewrite E; right; assumption).
           destruct f; cbn [hd_fr_okP] in *; auto.
           destruct Hold as [H1 H2]. split; [assumption|]. cbn [th_stk th_ret th' th_set]. intros Q.
           specialize (Hq Q h0 Hin). rewrite Gh. destruct (h0 =? h) eqn:Eq.
           ++ cbn [hp_del hp' hp_set_del]. assumption.
           ++ apply H2. rewrite E. assumption.
      * rewrite Go by assumption. intros f Hin. pose proof (s_hd _ (i_S _ I) t' f Hin) as Hold.
        destruct f; cbn [hd_fr_okP] in *; auto.
        destruct Hold as [H1 H2]. split; [assumption|]. intros Q. rewrite Gh.
        destruct (h0 =? h) eqn:Eq; [apply N.eqb_eq in Eq; subst h0; exfalso; apply (Hoth t' Hne Hin)|auto].
Qed.

(* ------------------------------------------------------------------------------------------ *)
(* top replacement + owner-private update of a page (lists, used, capacity, in_full)          *)
(* ------------------------------------------------------------------------------------------ *)
Lemma no_PF_below q stk f : stk_ok (f :: stk) = true -> ~ In (PF q) stk.
Proof.
  revert f. induction stk as [|g r IH]; intros f H; [intros []|].
  cbn [stk_ok] in H. apply andb_prop in H as [H1 H2]. cbn [In]. intros [Heq|Hin].
  - subst g. destruct f; cbn in H1; try discriminate;
      repeat (match type of H1 with context [match ?b with _ => _ end] => destruct b end; cbn in H1; try discriminate).
  - apply (IH g); assumption.
Qed.

Lemma step_top_priv c t fr rest nf ret' p pg' :
  Inv c -> th_stk (gett c t) = fr :: rest ->
  own (getp c p) t = true ->
  pview pg' = pview (getp c p) -> pg_flag pg' = pg_flag (getp c p) -> pg_tf pg' = pg_tf (getp c p) ->
  InvA (sett (setp c p pg') t (th_set (gett c t) (nf ++ rest) ret')) ->
  (forall q, sum_fr (win_fr q) nf = win_fr q fr) ->
  (forall q, sum_fr (pw_fr q) nf = pw_fr q fr) ->
  (forall q, cnt (onp q) (d1_stk (th_ret (gett c t)) (fr :: rest)) <= cnt (onp q) (d1_stk ret' (nf ++ rest)))%nat ->
  (forall p h, absorbing (fr :: rest) p h = true -> absorbing (nf ++ rest) p h = true \/ mWin c p = 0%nat) ->
  (forall h, is_hd_of h fr = true -> hd_bottom nf h = true) ->
  stk_ok (nf ++ rest) = true ->
  (forall f, In f nf -> match f with
                        | PF q => own (getp c q) t = true /\ pg_used (if q =? p then pg' else getp c q) = 0
                        | _ => fr_ok c t (gett c t) f = true
                        end) ->
  (forall f, In f nf -> noabs f) ->
  (forall f, In f nf -> plain f) ->
  (hd4_quiet (nf ++ rest) ret' = true -> hd4_quiet (fr :: rest) (th_ret (gett c t)) = true) ->
  Inv (sett (setp c p pg') t (th_set (gett c t) (nf ++ rest) ret')).
Proof.
  intros I E Hown Hpv Hfl Htf HA Hw Hp Hd Ha Hbot Hs Hf Hna Hh Hq.
  set (c1 := setp c p pg').
  set (th' := th_set (gett c t) (nf ++ rest) ret'). set (c' := sett c1 t th').
  pose proof (i_wf _ I) as Hwf. assert (Hwf1 : wf c1) by (apply wf_setp; assumption).
  destruct (stack_facts c t fr rest I E) as (S1 & S2 & S3 & S4).
  assert (A1 : agree t c c1) by (apply agree_setp; [assumption|right; assumption]).
  assert (A2 : agree t c1 c') by (apply (top_agree_sett c t fr rest nf ret' E Ha Hbot c1); reflexivity).
  assert (A : agree t c c') by (eapply agree_trans; [eassumption|reflexivity|eassumption]).
  assert (Gt : gett c' t = th') by (unfold c'; rewrite gett_sett, N.eqb_refl; reflexivity).
  assert (Gp : forall q, getp c' q = if q =? p then pg' else getp c q).
  { intros q. unfold c', c1. rewrite getp_sett, getp_setp. reflexivity. }
  apply own_true in Hown as [Hal Htid].
  constructor.
  - apply wf_sett; assumption.
  - exact HA.
  - apply (invB_same c); [assumption| | | |].
    + intros q. rewrite Gp. destruct (q =? p) eqn:Eq; [apply N.eqb_eq in Eq; subst q; assumption|reflexivity].
    + intros q. pose proof (mWin_sett c1 Hwf1 t th' q) as E1. change (gett c1 t) with (gett c t) in E1.
      rewrite E in E1. cbn [th_stk th' th_set] in E1. rewrite sum_fr_app in E1. cbn [sum_fr] in E1. rewrite Hw in E1.
      change (mWin c1 q) with (mWin c q) in E1. unfold c'. lia.
    + intros q. pose proof (mPw_sett c1 Hwf1 t th' q) as E1. change (gett c1 t) with (gett c t) in E1.
      rewrite E in E1. cbn [th_stk th' th_set] in E1. rewrite sum_fr_app in E1. cbn [sum_fr] in E1. rewrite Hp in E1.
      change (mPw c1 q) with (mPw c q) in E1. unfold c'. lia.
    + intros q. pose proof (mD_sett c1 Hwf1 t th' (onp q)) as E1. change (gett c1 t) with (gett c t) in E1.
      rewrite E in E1. cbn [th_stk th_ret th' th_set] in E1. change (mD c1 (onp q)) with (mD c (onp q)) in E1.
      specialize (Hd q). unfold c'. lia.
  - apply (invS_step c c' t); auto.
    + intros t' Hne. unfold c'. rewrite gett_sett. apply N.eqb_neq in Hne. rewrite Hne. reflexivity.
    + rewrite Gt. reflexivity.
    + intros q. rewrite Gp. destruct (q =? p) eqn:Eq; [|apply (s_dead _ (i_S _ I))].
      apply pview_eq in Hpv as (E1 & _). congruence.
    + rewrite Gt. assumption.
    + rewrite Gt. cbn [th_stk th' th_set]. rewrite forallb_app. apply andb_true_intro. split.
      * apply forallb_forall. intros x Hin. rewrite (fr_ok_th c' t (gett c t)) by reflexivity.
        specialize (Hf x Hin).
        destruct x; try (apply (fr_ok_agree t c); [assumption|discriminate|apply noabs_win_ok, Hna; assumption|exact Hf]).
        destruct Hf as [Hf1 Hf2]. cbn [fr_ok]. rewrite (own_view _ _ _ (ag_p _ _ _ A p0)), Hf1, Gp, Hf2. reflexivity.
      * assert (Hno : forall q x, In x rest -> x = PF q -> t <> t).
        { intros q x Hin ->. exfalso. apply (no_PF_below q rest fr S1 Hin). }
        rewrite forallb_forall in S3. apply forallb_forall. intros x Hin.
        rewrite (fr_ok_th c' t (gett c t)) by reflexivity.
        apply (fr_ok_agree t c); [assumption| |apply (stack_win_ok c t); rewrite E; right; assumption|apply S3; assumption].
        intros q Hx. exfalso. subst x. apply (no_PF_below q rest fr S1 Hin).
    + rewrite Gt. intros f Hin. cbn [th_stk th' th_set] in Hin. apply in_app_or in Hin as [Hin|Hin].
      * apply plain_hd_ok. apply Hh. assumption.
      * apply (top_hd_rest c t fr rest nf ret' I E c'); auto.
        intros q. rewrite Gp. destruct (q =? p) eqn:Eq; [apply N.eqb_eq in Eq; subst q|auto].
        apply pview_eq in Hpv as (E1 & _ & E3). auto.
Qed.

(* ------------------------------------------------------------------------------------------ *)
(* the flag measures after a thread update combined with a page / heap update                 *)
(* ------------------------------------------------------------------------------------------ *)
Lemma meas_sett_setp c t th' p pg' q : wf c ->
  (mWin (sett (setp c p pg') t th') q + sum_fr (win_fr q) (th_stk (gett c t))
   = mWin c q + sum_fr (win_fr q) (th_stk th'))%nat
  /\ (mPw (sett (setp c p pg') t th') q + sum_fr (pw_fr q) (th_stk (gett c t))
      = mPw c q + sum_fr (pw_fr q) (th_stk th'))%nat
  /\ (mD (sett (setp c p pg') t th') (onp q) + cnt (onp q) (d1_stk (th_ret (gett c t)) (th_stk (gett c t)))
      = mD c (onp q) + cnt (onp q) (d1_stk (th_ret th') (th_stk th')))%nat
  /\ getp (sett (setp c p pg') t th') q = (if q =? p then pg' else getp c q).
Proof.
  intros Hwf. assert (Hwf1 : wf (setp c p pg')) by (apply wf_setp; assumption).
  pose proof (mWin_sett _ Hwf1 t th' q) as E1. pose proof (mPw_sett _ Hwf1 t th' q) as E2.
  pose proof (mD_sett _ Hwf1 t th' (onp q)) as E3.
  change (gett (setp c p pg') t) with (gett c t) in *.
  change (mWin (setp c p pg') q) with (mWin c q) in E1. change (mPw (setp c p pg') q) with (mPw c q) in E2.
  change (mD (setp c p pg') (onp q)) with (mD c (onp q)) in E3.
  repeat split; try assumption. rewrite getp_sett, getp_setp. reflexivity.
Qed.
Lemma meas_sett_seth c t th' h hp' q : wf c ->
  (mWin (sett (seth c h hp') t th') q + sum_fr (win_fr q) (th_stk (gett c t))
   = mWin c q + sum_fr (win_fr q) (th_stk th'))%nat
  /\ (mPw (sett (seth c h hp') t th') q + sum_fr (pw_fr q) (th_stk (gett c t))
      = mPw c q + sum_fr (pw_fr q) (th_stk th'))%nat
  /\ (mD (sett (seth c h hp') t th') (onp q) + cnt (onp q) (d1_stk (th_ret (gett c t)) (th_stk (gett c t)))
        + cnt (onp q) (hp_del (geth c h))
      = mD c (onp q) + cnt (onp q) (d1_stk (th_ret th') (th_stk th')) + cnt (onp q) (hp_del hp'))%nat
  /\ getp (sett (seth c h hp') t th') q = getp c q.
Proof.
  intros Hwf. assert (Hwf1 : wf (seth c h hp')) by (apply wf_seth; assumption).
  pose proof (mWin_sett _ Hwf1 t th' q) as E1. pose proof (mPw_sett _ Hwf1 t th' q) as E2.
  pose proof (mD_sett _ Hwf1 t th' (onp q)) as E3. pose proof (mD_seth _ Hwf h hp' (onp q)) as E4.
  change (gett (seth c h hp') t) with (gett c t) in *.
  change (mWin (seth c h hp') q) with (mWin c q) in E1. change (mPw (seth c h hp') q) with (mPw c q) in E2.
  repeat split; try assumption; try reflexivity. lia.
Qed.

(* shapes *)
Lemma rf_alone f rest : stk_ok (f :: rest) = true ->
  match f with RF1 _ | RF2 _ _ _ | RF3 _ | RF4 _ _ | RF5 _ _ _ | RF6 _ | RF7 _ _ _ => rest = [] | _ => True end.
Proof. destruct f; auto; destruct rest; auto; cbn; discriminate. Qed.

(* block measures after a thread update combined with a page update *)
Lemma mWF_sett_setp c t th' p pg' P : wf c ->
  (mW (sett (setp c p pg') t th') P + th_W P (gett c t) + cnt P (pg_tf (getp c p))
   = mW c P + th_W P th' + cnt P (pg_tf pg'))%nat
  /\ (mF (sett (setp c p pg') t th') P + (cnt P (pg_free (getp c p)) + cnt P (pg_lfree (getp c p)))
      = mF c P + (cnt P (pg_free pg') + cnt P (pg_lfree pg')))%nat.
Proof.
  intros Hwf. assert (Hwf1 : wf (setp c p pg')) by (apply wf_setp; assumption).
  pose proof (mW_sett _ Hwf1 t th' P) as E1. pose proof (mW_setp c Hwf p pg' P) as E2.
  pose proof (mF_setp c Hwf p pg' P) as E3.
  change (gett (setp c p pg') t) with (gett c t) in E1. rewrite mF_sett. split; lia.
Qed.

(* blocks L of page p move from a non-free place of the owner to local_free; used decreases *)
Lemma invA_transfer c c' p L :
  Inv c ->
  (forall P, mW c' P + cnt P L = mW c P)%nat ->
  (forall P, mF c' P = mF c P + cnt P L)%nat ->
  forallb (onp p) L = true ->
  (forall q, aview (getp c' q) = aview (getp c q)) ->
  (forall q, pg_used (getp c' q) = if q =? p then sub16 (pg_used (getp c p)) (lenN L) else pg_used (getp c q)) ->
  (forall q, forallb (onp q) (pg_blocks (getp c' q)) = true) ->
  InvA c'.
Proof.
  intros I HW HF HL Hv Hu Hloc.
  apply (invA_conserve c); auto.
  - intros P. specialize (HW P). specialize (HF P). lia.
  - intros q. rewrite Hu. destruct (a_count _ (i_A _ I) q) as (C1 & C2 & C3 & C4).
    pose proof (HW (onp q)) as W. destruct (q =? p) eqn:Eq.
    + apply N.eqb_eq in Eq. subst q. rewrite (cnt_all _ _ HL) in W.
      rewrite sub16_small; unfold lenN; rewrite C1; lia.
    + rewrite C1. f_equal. rewrite cnt_none in W; [lia|].
      intros x Hx. pose proof (forallb_In _ _ HL x Hx) as Hp. unfold onp in *. apply N.eqb_eq in Hp.
      rewrite Hp, N.eqb_sym. exact Eq.
Qed.
