(* The inductive invariant of the cross-thread free protocol (DESIGN.md A.6) and its structural
   lemmas: how each part depends on the configuration. *)
From Coq Require Import NArith List Bool Lia Arith.
From MiV Require Import Model.TFree Proofs.TFreeBase.
Import ListNotations.
Local Open Scope N_scope.

(* mi_heap_delete in progress: the pages still to be moved / nothing left behind *)
Definition hd_fr_okP (c : cfg) (th : thread) (fr : frame) : Prop :=
  match fr with
  | HD3 h _ ps =>
    forall p, pg_alive (getp c p) = true -> pg_heap (getp c p) = Some h -> In p ps
  | HD4 h =>
    (forall p, pg_alive (getp c p) = true -> pg_heap (getp c p) <> Some h)
    /\ (hd4_quiet (th_stk th) (th_ret th) = true -> hp_del (geth c h) = [])
  | _ => True
  end.
Definition hd_okP (c : cfg) (th : thread) : Prop := forall fr, In fr (th_stk th) -> hd_fr_okP c th fr.

(* block accounting *)
Record InvA (c : cfg) : Prop := mkInvA {
  (* places: every block is in at most one place *)
  a_uniq  : forall b, (mW c (bid_eqb b) + mF c (bid_eqb b) <= 1)%nat;
  (* a block that is in a place belongs to a live page and is below its capacity *)
  a_range : forall b, (1 <= mW c (bid_eqb b) + mF c (bid_eqb b))%nat ->
            pg_alive (getp c (fst b)) = true /\ snd b < pg_cap (getp c (fst b));
  (* count: used = blocks of the page in non-free places; capacity = all blocks of the page *)
  a_count : forall p, pg_used (getp c p) = N.of_nat (mW c (onp p))
                      /\ pg_cap (getp c p) = N.of_nat (mW c (onp p) + mF c (onp p))
                      /\ pg_cap (getp c p) <= pg_res (getp c p) /\ pg_res (getp c p) < 65536;
  a_local : forall p, forallb (onp p) (pg_blocks (getp c p)) = true
}.
(* the delayed-free flag *)
Record InvB (c : cfg) : Prop := mkInvB {
  (* flag DELAYED_FREEING <-> exactly one thread between its first and its last CAS *)
  b_win   : forall p, mWin c p = if flag_eqb (pg_flag (getp c p)) Freeing then 1%nat else 0%nat;
  (* types.h:313-319 *)
  b_nd    : forall p, (pg_flag (getp c p) = NoD \/ (1 <= mPw c p)%nat) -> (1 <= mD c (onp p))%nat
}.
(* ownership structure *)
Record InvS (c : cfg) : Prop := mkInvS {
  s_dead  : forall p, pg_alive (getp c p) = false -> getp c p = pg0;
  s_pheap : forall p, pg_alive (getp c p) = true ->
            exists h, pg_heap (getp c p) = Some h /\ hown (geth c h) (pg_tid (getp c p)) = true;
  s_back  : forall t bk, th_backing (gett c t) = Some bk ->
            hown (geth c bk) t = true /\ hp_backing (geth c bk) = true;
  s_back2 : forall h, hp_alive (geth c h) = true -> hp_backing (geth c h) = true ->
            th_backing (gett c (hp_owner (geth c h))) = Some h;
  s_hdead : forall h, hp_alive (geth c h) = false -> hp_del (geth c h) = [];
  s_del   : forall h, forallb (del_ok c h) (hp_del (geth c h)) = true;
  s_shape : forall t, stk_ok (th_stk (gett c t)) = true;
  s_frames: forall t, forallb (fr_ok c t (gett c t)) (th_stk (gett c t)) = true;
  s_hd    : forall t, hd_okP c (gett c t)
}.
Record Inv (c : cfg) : Prop := mkInv {
  i_wf : wf c;
  i_A  : InvA c;
  i_B  : InvB c;
  i_S  : InvS c
}.

(* the thread-list / flag relation (tflist_nonempty_flag), proved on top of Inv *)
Definition InvT (c : cfg) : Prop :=
  forall p, pg_tf (getp c p) <> [] -> pg_flag (getp c p) = UseD -> (1 <= mD c (onp p) + mPh c p)%nat.

Lemma Inv_init : Inv (mkCfg [] [] []).
Proof.
  constructor; [reflexivity|constructor..]; unfold mW, mF, mD, mWin, mPw, gett, getp, geth, hd_okP; cbn; intros;
    try reflexivity; try lia; try discriminate; try exact I; try contradiction; auto.
  - destruct H; [discriminate|lia].
Qed.
Lemma InvT_init : InvT (mkCfg [] [] []).
Proof. intros p H. cbn in H. congruence. Qed.

(* ------------------------------------------------------------------------------------------ *)
(* views: what the structural parts read from pages and heaps                                 *)
(* ------------------------------------------------------------------------------------------ *)
Definition pview (pg : page) := (pg_alive pg, pg_tid pg, pg_heap pg).
Definition hview (hp : heap) := (hp_st hp, hp_owner hp, hp_backing hp).

Lemma pview_eq pg pg' : pview pg = pview pg' ->
  pg_alive pg = pg_alive pg' /\ pg_tid pg = pg_tid pg' /\ pg_heap pg = pg_heap pg'.
Proof. unfold pview. intros H; inversion H; auto. Qed.
Lemma hview_eq hp hp' : hview hp = hview hp' ->
  hp_st hp = hp_st hp' /\ hp_owner hp = hp_owner hp' /\ hp_backing hp = hp_backing hp'.
Proof. unfold hview. intros H; inversion H; auto. Qed.

(* two configurations agree on everything the structural predicates read; only thread tx may have
   changed `used`, and only of its own pages *)
Record agree (tx : N) (c c' : cfg) : Prop := mkAgree {
  ag_p : forall p, pview (getp c' p) = pview (getp c p);
  ag_u : forall p, pg_used (getp c' p) = pg_used (getp c p) \/ own (getp c p) tx = true;
  ag_h : forall h, hview (geth c' h) = hview (geth c h);
  ag_abs : forall t p h, absorbing (th_stk (gett c t)) p h = true ->
           absorbing (th_stk (gett c' t)) p h = true \/ mWin c p = 0%nat;
  ag_bot : forall t h, hd_bottom (th_stk (gett c t)) h = true -> hd_bottom (th_stk (gett c' t)) h = true
}.

Lemma own_view pg pg' t : pview pg' = pview pg -> own pg' t = own pg t.
Proof. intros H. apply pview_eq in H as (H1 & H2 & _). unfold own. rewrite H1, H2. reflexivity. Qed.
Lemma hown_view hp hp' t : hview hp' = hview hp -> hown hp' t = hown hp t.
Proof. intros H. apply hview_eq in H as (H1 & H2 & _). unfold hown, hp_alive. rewrite H1, H2. reflexivity. Qed.

Lemma orb_mono a b b' : (b = true -> b' = true) -> a || b = true -> a || b' = true.
Proof. destruct a, b; cbn; auto. Qed.

Lemma del_ok_agree tx c c' h b : agree tx c c' -> del_ok c h b = true -> del_ok c' h b = true.
Proof.
  intros A. unfold del_ok.
  pose proof (hview_eq _ _ (ag_h _ _ _ A h)) as (E1 & E2 & E3).
  pose proof (pview_eq _ _ (ag_p _ _ _ A (fst b))) as (F1 & F2 & F4).
  unfold hp_alive. rewrite E1, E2, F1, F2, F4. intros H.
  apply andb_prop in H as [H H']. rewrite H. cbn [andb].
  revert H'. apply orb_mono. apply (ag_bot _ _ _ A).
Qed.
Lemma forallb_impl {A} (f g : A -> bool) l : (forall x, f x = true -> g x = true) -> forallb f l = true -> forallb g l = true.
Proof. intros H. induction l; cbn; [auto|]. intros E. apply andb_prop in E as [E1 E2]. rewrite H, IHl; auto. Qed.

Lemma own_true pg t : own pg t = true -> pg_alive pg = true /\ pg_tid pg = t.
Proof. unfold own. intros H. apply andb_prop in H as [H1 H2]. apply N.eqb_eq in H2. auto. Qed.

(* frames whose validity refers to another thread's stack *)
Definition noabs (f : frame) : Prop := match f with RF4 _ _ | RF5 _ _ _ => False | _ => True end.
Definition fr_win_ok (c : cfg) (f : frame) : Prop :=
  match f with RF4 b _ | RF5 b _ _ => (1 <= mWin c (fst b))%nat | _ => True end.
Lemma noabs_win_ok c f : noabs f -> fr_win_ok c f.
Proof. destruct f; cbn; tauto. Qed.

Lemma fr_ok_agree tx c c' t th fr : agree tx c c' -> (forall p, fr = PF p -> t <> tx) -> fr_win_ok c fr ->
  fr_ok c t th fr = true -> fr_ok c' t th fr = true.
Proof.
  intros A Hpf Hwin.
  assert (Ho : forall p, own (getp c' p) t = own (getp c p) t) by (intros; apply own_view, (ag_p _ _ _ A)).
  assert (Hh : forall h u, hown (geth c' h) u = hown (geth c h) u) by (intros; apply hown_view, (ag_h _ _ _ A)).
  assert (Hb : forall h, hp_backing (geth c' h) = hp_backing (geth c h)).
  { intros h. pose proof (hview_eq _ _ (ag_h _ _ _ A h)) as (_ & _ & E). exact E. }
  assert (Hd : forall h l, forallb (del_ok c h) l = true -> forallb (del_ok c' h) l = true).
  { intros h l. apply forallb_impl. intros x. apply (del_ok_agree tx); assumption. }
  assert (Ht : forall p, pg_tid (getp c' p) = pg_tid (getp c p)).
  { intros p. pose proof (pview_eq _ _ (ag_p _ _ _ A p)) as (_ & E & _). exact E. }
  assert (Hp : forall p, pg_heap (getp c' p) = pg_heap (getp c p)).
  { intros p. pose proof (pview_eq _ _ (ag_p _ _ _ A p)) as (_ & _ & E). exact E. }
  assert (Hf : forall h bk l,
            forallb (fun p => own (getp c p) t && (oN_eqb (pg_heap (getp c p)) (Some h) || oN_eqb (pg_heap (getp c p)) (Some bk))) l = true ->
            forallb (fun p => own (getp c' p) t && (oN_eqb (pg_heap (getp c' p)) (Some h) || oN_eqb (pg_heap (getp c' p)) (Some bk))) l = true).
  { intros h bk l. apply forallb_impl. intros x. rewrite Ho, Hp. auto. }
  assert (Hal : forall p, pg_alive (getp c' p) = pg_alive (getp c p)).
  { intros p. pose proof (pview_eq _ _ (ag_p _ _ _ A p)) as (E & _ & _). exact E. }
  destruct fr; cbn [fr_ok]; rewrite ?Ho, ?Hh, ?Hb, ?Ht, ?Hp, ?Hal; auto;
    intros H; rewrite ?andb_true_iff in *; repeat match goal with H : _ /\ _ |- _ => destruct H end;
    repeat split; auto;
    try (match goal with H : _ || absorbing _ _ _ = true |- _ =>
           revert H; apply orb_mono; intros H; destruct (ag_abs _ _ _ A _ _ _ H) as [H'|H']; [exact H'|cbn in Hwin; lia] end).
  (* PF: used *)
  destruct (ag_u _ _ _ A p) as [E|E]; [rewrite E; assumption|].
  apply own_true in E as [_ E]. apply own_true in H as [_ H]. exfalso. apply (Hpf p eq_refl). congruence.
Qed.
