(* The thread-list / flag relation (tflist_nonempty_flag): a non-empty page thread list under
   MI_USE_DELAYED_FREE only exists while a block of the page is still on a delayed / pending list or the owner
   is between the flag reset of _mi_free_delayed_block and its collect.  Preservation by every transition. *)
From Coq Require Import NArith List Bool Lia Arith.
From MiV Require Import Model.TFree Proofs.TFreeBase Proofs.TFreeInv Proofs.TFreeGen Proofs.TFreeTop Proofs.TFreeStep
  Proofs.TFreeStep2 Proofs.TFreeStep3 Proofs.TFreeKill Proofs.TFreeStep4 Proofs.TFreeStep5 Proofs.TFreeProofs.
Import ListNotations.
Local Open Scope N_scope.

Lemma mPh_ge_th c t p : (ph_stk p (th_ret (gett c t)) (th_stk (gett c t)) <= mPh c p)%nat.
Proof.
  unfold mPh, gett. pose proof (ftot_ge th0 (fun th => ph_stk p (th_ret th) (th_stk th)) (c_th c) t eq_refl). cbn beta in H. lia.
Qed.

Definition tprem (pg : page) : Prop := pg_tf pg <> [] /\ pg_flag pg = UseD.
Definition loc (q : N) (ret : bool) (stk : list frame) : nat := (cnt (onp q) (d1_stk ret stk) + ph_stk q ret stk)%nat.

(* thread update, possibly with an update of page p *)
Lemma invT_S2 c t th' p pg' : wf c -> InvT c ->
  (forall q, q <> p -> tprem (getp c q) ->
     (loc q (th_ret (gett c t)) (th_stk (gett c t)) <= loc q (th_ret th') (th_stk th'))%nat) ->
  (tprem pg' ->
     (tprem (getp c p) /\ (loc p (th_ret (gett c t)) (th_stk (gett c t)) <= loc p (th_ret th') (th_stk th'))%nat)
     \/ (1 <= loc p (th_ret th') (th_stk th'))%nat
     \/ ((1 <= mD c (onp p))%nat
         /\ (cnt (onp p) (d1_stk (th_ret (gett c t)) (th_stk (gett c t))) <= cnt (onp p) (d1_stk (th_ret th') (th_stk th')))%nat)) ->
  InvT (sett (setp c p pg') t th').
Proof.
  intros Hwf IT Hq Hp q Htf Hfl.
  assert (Hwf1 : wf (setp c p pg')) by (apply wf_setp; assumption).
  pose proof (mD_sett _ Hwf1 t th' (onp q)) as E1. pose proof (mPh_sett _ Hwf1 t th' q) as E2.
  change (gett (setp c p pg') t) with (gett c t) in *.
  change (mD (setp c p pg') (onp q)) with (mD c (onp q)) in E1. change (mPh (setp c p pg') q) with (mPh c q) in E2.
  rewrite getp_sett, getp_setp in Htf, Hfl. unfold loc in *.
  pose proof (mD_ge_th c t (onp q)) as G1. pose proof (mPh_ge_th c t q) as G2.
  destruct (q =? p) eqn:Eq.
  - apply N.eqb_eq in Eq. subst q. destruct (Hp (conj Htf Hfl)) as [[[T1 T2] L]|[L|[D L]]].
    + specialize (IT p T1 T2). lia.
    + lia.
    + lia.
  - apply N.eqb_neq in Eq. specialize (Hq q Eq (conj Htf Hfl)). specialize (IT q Htf Hfl). lia.
Qed.

Lemma invT_S1 c t th' : wf c -> InvT c ->
  (forall q, tprem (getp c q) ->
     (loc q (th_ret (gett c t)) (th_stk (gett c t)) <= loc q (th_ret th') (th_stk th'))%nat) ->
  InvT (sett c t th').
Proof.
  intros Hwf IT Hq q Htf Hfl.
  pose proof (mD_sett _ Hwf t th' (onp q)) as E1. pose proof (mPh_sett _ Hwf t th' q) as E2.
  rewrite getp_sett in Htf, Hfl. specialize (Hq q (conj Htf Hfl)). specialize (IT q Htf Hfl). unfold loc in *. lia.
Qed.

(* thread update with an update of the delayed list of heap h *)
Lemma invT_S3 c t th' h hp' : wf c -> InvT c ->
  (forall q, tprem (getp c q) ->
     (loc q (th_ret (gett c t)) (th_stk (gett c t)) + cnt (onp q) (hp_del (geth c h))
      <= loc q (th_ret th') (th_stk th') + cnt (onp q) (hp_del hp'))%nat) ->
  InvT (sett (seth c h hp') t th').
Proof.
  intros Hwf IT Hq q Htf Hfl.
  assert (Hwf1 : wf (seth c h hp')) by (apply wf_seth; assumption).
  pose proof (mD_sett _ Hwf1 t th' (onp q)) as E1. pose proof (mPh_sett _ Hwf1 t th' q) as E2.
  pose proof (mD_seth _ Hwf h hp' (onp q)) as E3.
  change (gett (seth c h hp') t) with (gett c t) in *. change (mPh (seth c h hp') q) with (mPh c q) in E2.
  rewrite getp_sett, getp_seth in Htf, Hfl. specialize (Hq q (conj Htf Hfl)). specialize (IT q Htf Hfl). unfold loc in *. lia.
Qed.

(* page-only and heap-only updates *)
Lemma invT_setp c p pg' : InvT c -> (tprem pg' -> tprem (getp c p)) -> InvT (setp c p pg').
Proof.
  intros IT Hp q Htf Hfl. rewrite getp_setp in Htf, Hfl. change (mD (setp c p pg') (onp q)) with (mD c (onp q)).
  change (mPh (setp c p pg') q) with (mPh c q). destruct (q =? p) eqn:Eq.
  - apply N.eqb_eq in Eq. subst q. destruct (Hp (conj Htf Hfl)) as [T1 T2]. apply IT; assumption.
  - apply IT; assumption.
Qed.

Ltac inv_step H :=
  repeat match type of H with
         | context [if ?b then _ else _] => destruct b eqn:?
         | context [match ?x with _ => _ end] => destruct x eqn:?
         end;
  try discriminate H; unfold ok_s, ok_t in H; inversion H; subst; clear H.

(* the usual obligation: the local measure of the stepping thread does not decrease *)
Ltac loc_mono E :=
  unfold loc; rewrite ?E;
  try match goal with H : th_ret (gett _ _) = _ |- _ => rewrite !H end;
  cbn [th_stk th_ret th_set th_set_held d1_stk d1_fr ph_stk app flat_map hp_del hp_set_del hp_set_st];
  rewrite ?app_nil_r, ?cnt_app, ?cnt_cons, ?cnt_nil, ?cnt_app; try lia.

Section FrameSteps.
  Variables (c : cfg) (t : N).
  Hypothesis I : Inv c.
  Hypothesis IT : InvT c.
  Let Hwf := i_wf _ I.

  Lemma invT_RF fr rest alt c' ev : th_stk (gett c t) = fr :: rest ->
    match fr with RF1 _ | RF2 _ _ _ | RF3 _ | RF4 _ _ | RF5 _ _ _ | RF6 _ | RF7 _ _ _ => True | _ => False end ->
    fstep c t (gett c t) fr rest alt = ROk c' ev -> InvT c'.
  Proof.
    intros E Hk H.
    destruct (stack_facts c t _ _ I E) as (S1 & _). pose proof (rf_alone _ _ S1) as Hr.
    destruct fr; try contradiction; cbn in Hr; subst rest; cbn [fstep] in H; inv_step H.
    all: try (apply invT_S1; [exact Hwf|exact IT|]; intros q _; loc_mono E).
    all: try (apply invT_S3; [exact Hwf|exact IT|]; intros q _; loc_mono E).
    (* RF2 to Freeing, RF2 push, RF7 to NoD *)
    - apply invT_S2; [exact Hwf|exact IT|intros q _ _; loc_mono E|]. intros [_ F]. discriminate F.
    - apply invT_S2; [exact Hwf|exact IT|intros q _ _; loc_mono E|]. intros [_ F]. cbn in F.
      match goal with H : (_ || negb (word_eq _ _ _)) = false |- _ => apply orb_false_iff in H as [_ H]; apply negb_false_iff in H;
                                                                    apply word_eq_flag in H end.
      match goal with H : flag_eqb f UseD = false |- _ => apply flag_eqb_neq in H end. congruence.
    - apply invT_S2; [exact Hwf|exact IT|intros q _ _; loc_mono E|]. intros [_ F]. discriminate F.
  Qed.

  (* obligations for a page q different from the page p the step works on *)
  Ltac other_page E p q Hq :=
    let X := fresh "X" in let Y := fresh "Y" in
    assert (X : (p =? q) = false) by (apply N.eqb_neq; congruence);
    assert (Y : (q =? p) = false) by (apply N.eqb_neq; congruence);
    unfold loc; rewrite ?E;
    cbn [th_stk th_ret th_set th_set_held d1_stk d1_fr ph_stk app flat_map hp_del hp_set_del hp_set_st];
    rewrite ?X, ?Y; cbn [andb];
    rewrite ?app_nil_r, ?cnt_app, ?cnt_cons, ?cnt_nil, ?cnt_app; try lia.

  Lemma invT_TU fr rest alt c' ev : th_stk (gett c t) = fr :: rest ->
    match fr with TU1 _ _ _ _ _ | TU2 _ _ _ _ _ _ _ => True | _ => False end ->
    fstep c t (gett c t) fr rest alt = ROk c' ev -> InvT c'.
  Proof.
    intros E Hk H.
    destruct (stack_facts c t _ _ I E) as (S1 & S2 & _). pose proof (tu_rest _ _ S1) as Hr.
    destruct fr; try contradiction; cbn [fstep] in H.
    - (* TU1 *)
      inv_step H; try (apply invT_S1; [exact Hwf|exact IT|]; intros q _; loc_mono E; fail).
      all: apply invT_S1; [exact Hwf|exact IT|]; intros q _.
      all: try destruct spin.
      all: try (destruct Hr as [->|(h0 & bk & ps & ->)]; loc_mono E; fail).
      all: try (destruct Hr as (h0 & b0 & r0 & af0 & rest' & -> & Hb); loc_mono E;
                change (onp q b0) with (fst b0 =? q); cbn [andb]; destruct (fst b0 =? q); lia).
    - (* TU2 *)
      assert (S2' := S2). cbn [fr_ok] in S2'. rewrite !andb_true_iff, !negb_true_iff, !flag_eqb_neq in S2'.
      destruct S2' as [[[[[[Ho D1] D2] Ov] F1] F2] F3].
      inv_step H.
      + apply invT_S1; [exact Hwf|exact IT|]; intros q _; loc_mono E.
      + match goal with H : (_ || negb (word_eq _ _ _)) = false |- _ => apply orb_false_iff in H as [_ H]; apply negb_false_iff in H;
                                                                      apply word_eq_flag in H; rename H into Ef end.
        apply invT_S2; [exact Hwf|exact IT| |].
        * intros q Hq _. destruct spin.
          -- destruct Hr as [->|(h0 & bk & ps & ->)]; loc_mono E.
          -- destruct Hr as (h0 & b0 & r0 & af0 & rest' & -> & Hb). loc_mono E.
             change (onp q b0) with (fst b0 =? q). cbn [andb]. destruct (fst b0 =? q); lia.
        * intros [T F]. cbn in F. subst d. destruct spin.
          -- right. right. split.
             ++ apply (b_nd _ (i_B _ I)). left. rewrite Ef. destruct f; try congruence.
             ++ destruct Hr as [->|(h0 & bk & ps & ->)]; rewrite E; cbn; lia.
          -- right. left. destruct Hr as (h0 & b0 & r0 & af0 & rest' & -> & Hb). unfold loc. cbn [th_stk th_ret th_set ph_stk].
             rewrite Hb, N.eqb_refl. cbn. lia.
  Qed.

  Lemma invT_TC fr rest alt c' ev : th_stk (gett c t) = fr :: rest ->
    match fr with TC1 _ | TC2 _ _ _ | TC3 _ _ | FC1 _ _ | FC2 _ _ => True | _ => False end ->
    fstep c t (gett c t) fr rest alt = ROk c' ev -> InvT c'.
  Proof.
    intros E Hk H.
    destruct (stack_facts c t _ _ I E) as (S1 & S2 & _).
    destruct fr; try contradiction; cbn [fstep] in H.
    - (* TC1 *) inv_step H. apply invT_S1; [exact Hwf|exact IT|]; intros q _; loc_mono E.
    - (* TC2 *) inv_step H.
      + apply invT_S1; [exact Hwf|exact IT|]; intros q _; loc_mono E.
      + apply invT_S2; [exact Hwf|exact IT|intros q Hq _; other_page E p q Hq|]. intros [T _]. exfalso. apply T. reflexivity.
    - (* TC3 *) pose proof (tc_rest _ _ S1) as (force & rest' & ->). inv_step H.
      all: try (apply invT_S1; [exact Hwf|exact IT|]; intros q _; loc_mono E; fail).
      all: apply invT_S2; [exact Hwf|exact IT|intros q Hq _; loc_mono E|]; intros T; left; split; [exact T|loc_mono E].
    - (* FC1 *) inv_step H.
      all: apply invT_S1; [exact Hwf|exact IT|]; intros q [T _]; destruct (N.eq_dec q p) as [->|Hq]; [|other_page E p q Hq].
      all: try (exfalso; apply T; apply isnil_true; assumption).
      all: loc_mono E; rewrite ?N.eqb_refl; cbn [andb below_fc2_dp6]; try lia; destruct (below_dp6 rest); lia.
    - (* FC2 *)
      pose proof (fc_rest _ _ S1) as Hr. cbn in Hr.
      inv_step H.
      all: try (apply invT_S1; [exact Hwf|exact IT|]; intros q _;
                destruct Hr as [->|[(? & ? & ? & ? & ? & ->)|(? & ? & ? & ? & ? & ->)]]; loc_mono E; fail).
      all: apply invT_S2; [exact Hwf|exact IT| |].
      all: try (intros q Hq _; destruct Hr as [->|[(? & ? & ? & ? & ? & ->)|(? & ? & ? & ? & ? & ->)]]; loc_mono E; fail).
      all: intros T; left; split; [exact T|];
        destruct Hr as [->|[(? & ? & ? & ? & ? & ->)|(? & ? & ? & ? & ? & ->)]]; loc_mono E.
  Qed.

  Lemma invT_DP fr h rest alt c' ev : th_stk (gett c t) = fr :: rest -> dp_heap fr = Some h ->
    fstep c t (gett c t) fr rest alt = ROk c' ev -> InvT c'.
  Proof.
    intros E Hk H.
    destruct (stack_facts c t _ _ I E) as (S1 & S2 & _).
    destruct (dp_rest_facts fr h rest Hk S1) as (R1 & R2 & R3 & R4).
    assert (Hpop : forall q ret', loc q ret' rest = 0%nat).
    { intros q ret'. unfold loc. destruct (R3 ret' q) as [-> ->].
      destruct (dp_rest fr h rest Hk S1) as [->|[(rest' & -> & _)|(bk & ->)]]; reflexivity. }
    assert (Hrest : forall q, cnt (onp q) (flat_map (d1_fr false) rest) = 0%nat) by (intros q; apply (R3 false q)).
    destruct fr; try discriminate Hk; cbn [fstep] in H; unfold free_local in H; inv_step H.
    (* pops *)
    all: try (apply invT_S1; [exact Hwf|exact IT|]; intros q _; cbn [th_stk th_ret th_set]; rewrite Hpop; loc_mono E;
              rewrite ?Hrest; lia).
    (* stack-only *)
    all: try (apply invT_S1; [exact Hwf|exact IT|]; intros q _; loc_mono E; fail).
    (* the delayed list changes *)
    all: try (apply invT_S3; [exact Hwf|exact IT|]; intros q _; loc_mono E; fail).
    (* DP4 with ret = true: the phase marker moves from DP4 to FC1 *)
    all: try (apply invT_S1; [exact Hwf|exact IT|]; intros q _; loc_mono E;
              cbn [andb below_dp6 d1_fr];
              rewrite ?cnt_app, ?cnt_cons, ?andb_true_r; lia).
    (* DP6: private page update *)
    all: apply invT_S2; [exact Hwf|exact IT|intros q Hq _; loc_mono E|]; intros T; left; split; [exact T|loc_mono E].
  Qed.

  Lemma invT_misc fr rest alt c' ev : th_stk (gett c t) = fr :: rest ->
    match fr with DA _ | PF _ | HC2 _ _ | HC3 _ _ _ | HC4 _ _ _ _ | HD2 _ _ | HD3 _ _ _ | HD4 _ => True | _ => False end ->
    fstep c t (gett c t) fr rest alt = ROk c' ev -> InvT c'.
  Proof.
    intros E Hk H.
    destruct (stack_facts c t _ _ I E) as (S1 & S2 & _).
    destruct fr; try contradiction; cbn [fstep] in H.
    - (* DA *) destruct (da_rest h rest S1) as [->|[(fo & ->)| ->]]; inv_step H;
        apply invT_S1; try exact Hwf; try exact IT; intros q _; loc_mono E.
    - (* PF *) inv_step H.
      apply invT_S2; [exact Hwf|exact IT| |intros [T _]; exfalso; apply T; reflexivity].
      intros q Hq _. unfold loc. rewrite E. cbn [th_stk th_ret th_set].
      destruct rest as [|g rest']; [cbn; lia|]. cbn [stk_ok] in S1. apply andb_prop in S1 as [S1a _].
      destruct g; try discriminate S1a; cbn; rewrite ?cnt_app; lia.
    - (* HC2 *) pose proof (bottom_alone _ _ S1) as Hr. cbn in Hr. subst rest. inv_step H.
      apply invT_S1; [exact Hwf|exact IT|]; intros q _; loc_mono E.
    - (* HC3 *) pose proof (bottom_alone _ _ S1) as Hr. cbn in Hr. subst rest. inv_step H;
        apply invT_S1; try exact Hwf; try exact IT; intros q _; loc_mono E;
        destruct force; cbn [below_dp6 andb]; rewrite ?andb_false_r; lia.
    - (* HC4 *) pose proof (bottom_alone _ _ S1) as Hr. cbn in Hr. subst rest. inv_step H;
        apply invT_S1; try exact Hwf; try exact IT; intros q _; loc_mono E.
    - (* HD2 *) pose proof (bottom_alone _ _ S1) as Hr. cbn in Hr. subst rest. inv_step H.
      apply invT_S1; [exact Hwf|exact IT|]; intros q _; loc_mono E.
    - (* HD3 *) pose proof (bottom_alone _ _ S1) as Hr. cbn in Hr. subst rest. inv_step H.
      all: try (apply invT_S1; [exact Hwf|exact IT|]; intros q _; loc_mono E; fail).
      apply invT_S2; [exact Hwf|exact IT|intros q Hq _; loc_mono E|]. intros T. left. split; [exact T|loc_mono E].
    - (* HD4 *) pose proof (bottom_alone _ _ S1) as Hr. cbn in Hr. subst rest. inv_step H.
      apply invT_S3; [exact Hwf|exact IT|]; intros q _; loc_mono E.
  Qed.
End FrameSteps.

Lemma invT_seth c h hp' : wf c -> InvT c -> hp_del hp' = hp_del (geth c h) -> InvT (seth c h hp').
Proof.
  intros Hwf IT Hd q Htf Hfl. rewrite getp_seth in Htf, Hfl. pose proof (mD_seth c Hwf h hp' (onp q)) as E. rewrite Hd in E.
  change (mPh (seth c h hp') q) with (mPh c q). specialize (IT q Htf Hfl). lia.
Qed.

Lemma invT_start c t o c' ev : Inv c -> InvT c -> th_stk (gett c t) = [] ->
  start c t (gett c t) o = ROk c' ev -> InvT c'.
Proof.
  intros I IT E H. pose proof (i_wf _ I) as Hwf.
  assert (L0 : forall q, loc q (th_ret (gett c t)) (th_stk (gett c t)) = 0%nat) by (intros q; rewrite E; reflexivity).
  destruct o; cbn [start] in H; unfold free_local in H.
  - (* HeapNew *)
    destruct (hp_st (geth c h)) eqn:Ev; try discriminate H.
    assert (Hd : hp_del (geth c h) = []) by (apply (s_hdead _ (i_S _ I)); unfold hp_alive; rewrite Ev; reflexivity).
    destruct (th_backing (gett c t)); inversion H; subst.
    + apply invT_seth; auto.
    + apply invT_S3; auto. intros q _. rewrite L0, Hd. cbn. lia.
  - (* Fresh *) inv_step H. apply invT_setp; [exact IT|]. intros [T _]. exfalso. apply T. reflexivity.
  - (* Extend *) inv_step H. apply invT_setp; [exact IT|]. intros T. exact T.
  - (* Pop *) inv_step H. apply invT_S2; [exact Hwf|exact IT|intros q _ _; rewrite L0; lia|].
    intros T. left. split; [exact T|rewrite L0; lia].
  - (* Free *) inv_step H.
    all: try (apply invT_S1; [exact Hwf|exact IT|]; intros q _; rewrite L0; lia).
    all: apply invT_S2; [exact Hwf|exact IT|intros q _ _; rewrite L0; lia|]; intros T; left; split; [exact T|rewrite L0; lia].
  - (* Give *) inv_step H.
    set (th1 := th_set_held (gett c t) [] (remove_bid b (th_held (gett c t)))).
    assert (IT1 : InvT (sett c t th1)) by (apply invT_S1; [exact Hwf|exact IT|]; intros q _; rewrite L0; lia).
    apply invT_S1; [apply wf_sett; exact Hwf|exact IT1|]. intros q _. cbn [th_ret th_stk]. lia.
  - (* Collect *) inv_step H. apply invT_S1; [exact Hwf|exact IT|]; intros q _; rewrite L0; lia.
  - (* ToFull *) inv_step H. apply invT_S2; [exact Hwf|exact IT|intros q _ _; rewrite L0; lia|].
    intros T. left. split; [exact T|rewrite L0; lia].
  - inv_step H. apply invT_S1; [exact Hwf|exact IT|]; intros q _; rewrite L0; lia.
  - inv_step H. apply invT_S1; [exact Hwf|exact IT|]; intros q _; rewrite L0; lia.
  - inv_step H. apply invT_S1; [exact Hwf|exact IT|]; intros q _; rewrite L0; lia.
  - inv_step H. apply invT_S1; [exact Hwf|exact IT|]; intros q _; rewrite L0; lia.
  - inv_step H; apply invT_S1; try exact Hwf; try exact IT; intros q _; rewrite L0; lia.
  - inv_step H. apply invT_S1; [exact Hwf|exact IT|]; intros q _; rewrite L0; lia.
Qed.

Theorem cstep_invT c t ch c' ev : Inv c -> InvT c -> cstep c t ch = ROk c' ev -> InvT c'.
Proof.
  intros I IT H. unfold cstep in H.
  destruct (th_stk (gett c t)) as [|fr rest] eqn:E.
  - destruct ch; try discriminate H. eapply invT_start; eassumption.
  - assert (Hs : exists alt, fstep c t (gett c t) fr rest alt = ROk c' ev) by (destruct ch; [eauto|eauto|discriminate]).
    clear H. destruct Hs as [alt H].
    destruct fr.
    all: try (eapply (invT_RF c t I IT); [exact E|exact Logic.I|exact H]).
    all: try (eapply (invT_TU c t I IT); [exact E|exact Logic.I|exact H]).
    all: try (eapply (invT_TC c t I IT); [exact E|exact Logic.I|exact H]).
    all: try (eapply (invT_DP c t I IT); [exact E|reflexivity|exact H]).
    all: try (eapply (invT_misc c t I IT); [exact E|exact Logic.I|exact H]).
Qed.

Lemma reachable_InvT s : reachable s -> exists c, s = Ok c /\ Inv c /\ InvT c.
Proof.
  induction 1 as [|s t ch s' Hr IH Hs].
  - eexists. split; [reflexivity|]. split; [exact Inv_init|exact InvT_init].
  - destruct IH as (c & -> & I & IT). cbn [tstep] in Hs.
    pose proof (cstep_good c t ch I) as G. destruct (cstep c t ch) as [|e|c' ev] eqn:E; try discriminate Hs.
    + cbn in G. contradiction.
    + inversion Hs; subst. exists c'. split; [reflexivity|]. split; [exact G|exact (cstep_invT c t ch c' ev I IT E)].
Qed.

(* the owner of page p is inside the collect that follows the flag reset of _mi_free_delayed_block *)
Lemma ph_owner c u p : Inv c -> (1 <= ph_stk p (th_ret (gett c u)) (th_stk (gett c u)))%nat -> pg_tid (getp c p) = u.
Proof.
  intros I H. destruct (th_stk (gett c u)) as [|f rest] eqn:E; [cbn in H; lia|].
  destruct (stack_facts c u _ _ I E) as (S1 & S2 & S3 & S4).
  destruct f; cbn [ph_stk] in H; try lia.
  - (* TC1 *) destruct (p0 =? p) eqn:Ep; [|cbn in H; lia]. apply N.eqb_eq in Ep. subst p0. cbn [fr_ok] in S2.
    apply own_true in S2 as [_ S2]. exact S2.
  - destruct (p0 =? p) eqn:Ep; [|cbn in H; lia]. apply N.eqb_eq in Ep. subst p0. cbn [fr_ok] in S2.
    apply own_true in S2 as [_ S2]. exact S2.
  - (* FC1 *) destruct force; [lia|]. destruct (p0 =? p) eqn:Ep; [|cbn in H; lia]. apply N.eqb_eq in Ep. subst p0. cbn [fr_ok] in S2.
    apply own_true in S2 as [_ S2]. exact S2.
  - (* DP4 *) destruct (th_ret (gett c u) && (fst b =? p)) eqn:Ep; [|lia]. apply andb_prop in Ep as [_ Ep]. apply N.eqb_eq in Ep.
    assert (S2' := S2). cbn [fr_ok forallb] in S2'. apply andb_prop in S2' as [Ho Hd]. apply andb_prop in Hd as [Hd _].
    assert (Hown : own (getp c (fst b)) u = true).
    { apply (del_ok_own c u h b I Ho Hd). rewrite E. left. reflexivity. }
    rewrite Ep in Hown. apply own_true in Hown as [_ Hown]. exact Hown.
Qed.

Theorem tflist_nonempty_flag_P : forall s, reachable s -> exists c, s = Ok c /\ forall p,
  pg_tf (getp c p) <> [] -> pg_flag (getp c p) = UseD ->
  (1 <= mD c (onp p) + mPh c p)%nat
  /\ (th_stk (gett c (pg_tid (getp c p))) = [] -> delayed_or_pending c p).
Proof.
  intros s H. destruct (reachable_InvT s H) as (c & -> & I & IT). exists c. split; [reflexivity|].
  intros p T F. split; [apply IT; assumption|]. intros Hidle.
  apply (mD_pos_ex c p I). specialize (IT p T F).
  destruct (Nat.eq_dec (mPh c p) 0) as [Z|Z]; [lia|]. exfalso.
  destruct (ftot_pos_ex th0 (fun th => ph_stk p (th_ret th) (th_stk th)) (c_th c) (proj1 (wf_parts c (i_wf _ I))) eq_refl) as [u Hu].
  { unfold mPh in Z. lia. }
  fold (gett c u) in Hu. pose proof (ph_owner c u p I Hu) as Ho. rewrite Ho in Hidle. rewrite Hidle in Hu. cbn in Hu. lia.
Qed.
