(* Lemmas about the API-level model (Model/Api.v): properties C03 (aligned paths), C04, C05, C06. *)
From Coq Require Import NArith ZArith Lia Bool List.
From Coq Require Import ZifyN ZifyBool.
From MiV Require Import Gen.Consts Gen.Bins Model.Arith Proofs.Base Proofs.ArithSweeps Proofs.ArithProofs
                        Proofs.BitsProofs Model.Api Proofs.ApiSweeps.
Import ListNotations.
Ltac Zify.zify_post_hook ::= Z.div_mod_to_equations.
Local Open Scope N_scope.
Local Open Scope bool_scope.

(* ------------------------------------------------------------------------------------- *)
(* A. bytes                                                                                 *)
(* ------------------------------------------------------------------------------------- *)

Lemma blen_mapi_from f l : forall i, blen (mapi_from f i l) = blen l.
Proof. induction l as [|x r IH]; intros i; cbn [mapi_from blen]; [reflexivity|]. rewrite IH. reflexivity. Qed.

Lemma blen_mapi f l : blen (mapi f l) = blen l.
Proof. apply blen_mapi_from. Qed.

Lemma byte_at_out l : forall i, blen l <= i -> byte_at l i = 0.
Proof.
  induction l as [|x r IH]; intros i H; cbn [byte_at blen] in *; [reflexivity|].
  destruct (i =? 0) eqn:E; [apply N.eqb_eq in E; lia|]. apply IH. apply N.eqb_neq in E. lia.
Qed.

Lemma byte_at_mapi_from f l : forall k i, i < blen l ->
  byte_at (mapi_from f k l) i = f (k + i) (byte_at l i).
Proof.
  induction l as [|x r IH]; intros k i H; cbn [blen] in H; [lia|].
  cbn [mapi_from byte_at]. destruct (i =? 0) eqn:E.
  - apply N.eqb_eq in E. subst i. rewrite N.add_0_r. reflexivity.
  - apply N.eqb_neq in E. rewrite IH by lia. f_equal. lia.
Qed.

Lemma byte_at_mapi f l i : i < blen l -> byte_at (mapi f l) i = f i (byte_at l i).
Proof. intros H. unfold mapi. rewrite byte_at_mapi_from by assumption. reflexivity. Qed.

Lemma blen_drop l : forall n, blen (drop n l) = blen l - n.
Proof.
  induction l as [|x r IH]; intros n; cbn [drop blen]; [reflexivity|].
  destruct (n =? 0) eqn:E.
  - apply N.eqb_eq in E. subst n. cbn [blen]. lia.
  - apply N.eqb_neq in E. rewrite IH. lia.
Qed.

Lemma byte_at_drop l : forall n i, byte_at (drop n l) i = byte_at l (n + i).
Proof.
  induction l as [|x r IH]; intros n i; cbn [drop byte_at]; [reflexivity|].
  destruct (n =? 0) eqn:E.
  - apply N.eqb_eq in E. subst n. reflexivity.
  - apply N.eqb_neq in E. rewrite IH.
    assert (F : (n + i =? 0) = false) by (apply N.eqb_neq; lia). rewrite F.
    f_equal. lia.
Qed.

Lemma blen_zero_all l : blen (zero_all l) = blen l.
Proof. apply blen_mapi. Qed.
Lemma blen_zero_range a b l : blen (zero_range a b l) = blen l.
Proof. apply blen_mapi. Qed.
Lemma blen_copy_prefix s n l : blen (copy_prefix s n l) = blen l.
Proof. apply blen_mapi. Qed.
Lemma blen_set_byte o v l : blen (set_byte o v l) = blen l.
Proof. apply blen_mapi. Qed.

Lemma byte_at_zero_all l i : byte_at (zero_all l) i = 0.
Proof.
  destruct (N.lt_ge_cases i (blen l)) as [H|H].
  - unfold zero_all. rewrite byte_at_mapi by assumption. reflexivity.
  - apply byte_at_out. rewrite blen_zero_all. assumption.
Qed.

Lemma byte_at_zero_range a b l i :
  byte_at (zero_range a b l) i = if (a <=? i) && (i <? b) then 0 else byte_at l i.
Proof.
  destruct (N.lt_ge_cases i (blen l)) as [H|H].
  - unfold zero_range. rewrite byte_at_mapi by assumption. reflexivity.
  - rewrite (byte_at_out (zero_range a b l)) by (rewrite blen_zero_range; assumption).
    rewrite (byte_at_out l) by assumption. destruct ((a <=? i) && (i <? b)); reflexivity.
Qed.

Lemma byte_at_copy_prefix s n l i : i < blen l ->
  byte_at (copy_prefix s n l) i = if i <? n then byte_at s i else byte_at l i.
Proof. intros H. unfold copy_prefix. rewrite byte_at_mapi by assumption. reflexivity. Qed.

Lemma byte_at_set_byte o v l i : i < blen l ->
  byte_at (set_byte o v l) i = if i =? o then v else byte_at l i.
Proof. intros H. unfold set_byte. rewrite byte_at_mapi by assumption. reflexivity. Qed.

(* ------------------------------------------------------------------------------------- *)
(* B. the map                                                                               *)
(* ------------------------------------------------------------------------------------- *)

Lemma lookup_add st p b q : lookup (add st p b) q = if p =? q then Some b else lookup st q.
Proof. reflexivity. Qed.

Lemma lookup_remove st p q : lookup (remove st p) q = if p =? q then None else lookup st q.
Proof.
  unfold remove. induction st as [|[k b] r IH]; cbn [filter lookup fst].
  - destruct (p =? q); reflexivity.
  - destruct (k =? p) eqn:E1; cbn [negb].
    + apply N.eqb_eq in E1. subst k. rewrite IH. destruct (p =? q); reflexivity.
    + cbn [lookup]. rewrite IH. destruct (k =? q) eqn:E2; [|reflexivity].
      apply N.eqb_eq in E2. subst k. rewrite N.eqb_sym, E1. reflexivity.
Qed.

Lemma lookup_update st p f q :
  lookup (update st p f) q = if p =? q then option_map f (lookup st q) else lookup st q.
Proof.
  unfold update. induction st as [|[k b] r IH]; cbn [map lookup fst snd option_map].
  - destruct (p =? q); reflexivity.
  - destruct (k =? p) eqn:E1; cbn [lookup].
    + apply N.eqb_eq in E1. subst k. rewrite IH. destruct (p =? q); reflexivity.
    + rewrite IH. destruct (k =? q) eqn:E2; [|reflexivity].
      apply N.eqb_eq in E2. subst k. rewrite N.eqb_sym, E1. reflexivity.
Qed.

Lemma lookup_free st p q : lookup (free st p) q = if negb (p =? NULL) && (p =? q) then None else lookup st q.
Proof.
  unfold free. destruct (p =? NULL); cbn [negb andb]; [reflexivity|]. apply lookup_remove.
Qed.

Definition st_eq (s1 s2 : state) : Prop := forall x, lookup s1 x = lookup s2 x.

Lemma usable_size_eq s1 s2 p : st_eq s1 s2 -> usable_size s1 p = usable_size s2 p.
Proof. intros H. unfold usable_size. rewrite H. reflexivity. Qed.

(* ------------------------------------------------------------------------------------- *)
(* C. representation invariant and the contract of the lower layers                         *)
(* ------------------------------------------------------------------------------------- *)

Definition block_ok (q : N) (b : block) : Prop :=
  blen (b_bytes b) = b_usable b /\ 0 < b_usable b /\ b_req b <= b_usable b /\
  b_adjust b <= q /\ q + b_usable b < W64 /\ 0 < q.

Definition wf (st : state) : Prop := forall q b, lookup st q = Some b -> block_ok q b.

(* the layer contract of an answer to a request of `size` bytes in state `st` *)
Definition answer_ok (st : state) (size : N) (ans : answer) : Prop :=
  match ans with
  | None => True
  | Some (p, u, bytes) =>
      0 < p /\ p + u < W64 /\ blen bytes = u /\ 0 < u /\ size <= u /\
      (forall q b, lookup st q = Some b ->
         p + u <= block_start q b \/ block_start q b + block_usable b <= p)
  end.

Lemma wf_nil : wf [].
Proof. intros q b H. discriminate. Qed.

Lemma answer_ok_st_eq s1 s2 size ans : st_eq s1 s2 -> answer_ok s1 size ans -> answer_ok s2 size ans.
Proof.
  intros E. destruct ans as [[[p u] bytes]|]; [|trivial]. cbn [answer_ok].
  intros (A & B & C & D & F & G). repeat (split; [assumption|]). intros q b Hq. apply G. rewrite E. exact Hq.
Qed.

Lemma wf_st_eq s1 s2 : st_eq s1 s2 -> wf s1 -> wf s2.
Proof. intros E W q b H. apply W. rewrite E. exact H. Qed.

(* an address inside a fresh block is not a live user pointer *)
Lemma answer_fresh st size p u bytes x :
  wf st -> answer_ok st size (Some (p, u, bytes)) -> p <= x -> x < p + u -> lookup st x = None.
Proof.
  intros W (A & B & C & D & F & G) H1 H2.
  destruct (lookup st x) as [b|] eqn:E; [|reflexivity]. exfalso.
  destruct (W _ _ E) as (_ & U & _ & Adj & _ & _).
  destruct (G _ _ E) as [K|K]; unfold block_start, block_usable in K; lia.
Qed.

(* ------------------------------------------------------------------------------------- *)
(* D. allocation                                                                            *)
(* ------------------------------------------------------------------------------------- *)

Lemma req_size_eq size : size < W64 -> wsub (wadd size MI_PADDING_SIZE) MI_PADDING_SIZE = size.
Proof.
  intros H. change MI_PADDING_SIZE with 0. rewrite wadd_small by lia. rewrite wsub_small by lia. lia.
Qed.

Lemma page_malloc_zero_some zero ans p u bytes :
  page_malloc_zero zero ans = Some (p, u, bytes) ->
  exists bytes0, ans = Some (p, u, bytes0) /\ bytes = (if zero then zero_all bytes0 else bytes0).
Proof.
  unfold page_malloc_zero. destruct ans as [[[p0 u0] b0]|]; [|discriminate].
  intros H. injection H as -> -> <-. exists b0. split; reflexivity.
Qed.

Lemma alloc_block_some size zero ha ans p u bytes :
  alloc_block size zero ha ans = Some (p, u, bytes) ->
  exists bytes0, ans = Some (p, u, bytes0) /\ bytes = (if zero then zero_all bytes0 else bytes0).
Proof.
  unfold alloc_block. destruct (size <=? MI_SMALL_SIZE_MAX); [apply page_malloc_zero_some|].
  destruct (_ && _); [discriminate|apply page_malloc_zero_some].
Qed.

Lemma alloc_block_oversize size zero ha ans :
  size < W64 -> MI_MAX_ALLOC_SIZE < size -> alloc_block size zero ha ans = None.
Proof.
  intros Hs Hm. unfold alloc_block. rewrite req_size_eq by assumption.
  assert (F1 : (size <=? MI_SMALL_SIZE_MAX) = false).
  { apply N.leb_gt. unfold MI_SMALL_SIZE_MAX, MI_MAX_ALLOC_SIZE in *. lia. }
  assert (F2 : (MI_MEDIUM_OBJ_SIZE_MAX - MI_PADDING_SIZE <? size) = true).
  { apply N.ltb_lt. unfold MI_MEDIUM_OBJ_SIZE_MAX, MI_PADDING_SIZE, MI_MAX_ALLOC_SIZE in *. lia. }
  assert (F3 : (MI_MAX_ALLOC_SIZE <? size) = true) by (apply N.ltb_lt; assumption).
  rewrite F1, F2, F3. reflexivity.
Qed.

Lemma alloc_block_granted size zero ha p u bytes :
  size < W64 -> size <= MI_MAX_ALLOC_SIZE ->
  alloc_block size zero ha (Some (p, u, bytes)) = Some (p, u, if zero then zero_all bytes else bytes).
Proof.
  intros Hs Hm. unfold alloc_block. rewrite req_size_eq by assumption.
  assert (F3 : (MI_MAX_ALLOC_SIZE <? size) = false) by (apply N.ltb_ge; assumption).
  rewrite F3, andb_false_r. destruct (size <=? MI_SMALL_SIZE_MAX); reflexivity.
Qed.

Lemma alloc_block_none size zero ha ans :
  size < W64 -> alloc_block size zero ha ans = None -> ans = None \/ MI_MAX_ALLOC_SIZE < size.
Proof.
  intros Hs H. destruct (N.le_gt_cases size MI_MAX_ALLOC_SIZE) as [Hm|Hm]; [|right; assumption].
  destruct ans as [[[p u] b]|]; [|left; reflexivity].
  rewrite alloc_block_granted in H by assumption. discriminate.
Qed.

Lemma heap_malloc_zero_some st heap size zero ans st' q :
  heap_malloc_zero st heap size zero ans = (st', Some q) ->
  exists u bytes0, ans = Some (q, u, bytes0) /\
    st' = add st q (mkBlock u (if zero then zero_all bytes0 else bytes0) heap size zero 0).
Proof.
  unfold heap_malloc_zero. destruct (alloc_block size zero 0 ans) as [[[p u] b]|] eqn:E; [|discriminate].
  intros H. injection H as <- <-. apply alloc_block_some in E as (b0 & -> & ->).
  exists u, b0. split; reflexivity.
Qed.

Lemma heap_malloc_zero_none st heap size zero ans st' :
  heap_malloc_zero st heap size zero ans = (st', None) -> st' = st.
Proof.
  unfold heap_malloc_zero. destruct (alloc_block size zero 0 ans) as [[[p u] b]|]; [discriminate|].
  intros H. injection H as <-. reflexivity.
Qed.

(* what a successful allocation establishes *)
Definition alloc_result (st : state) (heap size : N) (zero : bool) (q : N) (blk : block) (st' : state) : Prop :=
  st_eq st' (add st q blk) /\ lookup st q = None /\ block_ok q blk /\ size <= b_usable blk /\
  b_req blk = size /\ b_zero blk = zero /\ b_heap blk = heap /\
  (zero = true -> forall i, byte_at (b_bytes blk) i = 0).

Lemma malloc_result st heap size zero ans st' q :
  wf st -> answer_ok st size ans -> heap_malloc_zero st heap size zero ans = (st', Some q) ->
  exists blk, st' = add st q blk /\ alloc_result st heap size zero q blk st' /\ b_adjust blk = 0 /\
    exists u bytes0, ans = Some (q, u, bytes0) /\ b_usable blk = u /\
                     b_bytes blk = (if zero then zero_all bytes0 else bytes0).
Proof.
  intros W A H. apply heap_malloc_zero_some in H as (u & b0 & -> & ->).
  eexists. split; [reflexivity|]. split; [|split; [reflexivity|exists u, b0; repeat split; reflexivity]].
  pose proof A as A'. destruct A' as (A1 & A2 & A3 & A4 & A5 & A6).
  unfold alloc_result. cbn [b_usable b_bytes b_req b_zero b_heap b_adjust].
  split; [intros x; reflexivity|]. split; [eapply answer_fresh; eauto; lia|].
  split.
  { unfold block_ok. cbn [b_usable b_bytes b_req b_adjust].
    destruct zero; rewrite ?blen_zero_all; repeat split; try assumption; try lia. }
  repeat split; try assumption; try reflexivity.
  intros -> i. apply byte_at_zero_all.
Qed.

Lemma wf_add st q blk : wf st -> block_ok q blk -> wf (add st q blk).
Proof.
  intros W B x b. rewrite lookup_add. destruct (q =? x) eqn:E.
  - apply N.eqb_eq in E. subst x. intros H. injection H as <-. exact B.
  - apply W.
Qed.

Lemma alloc_result_wf st heap size zero q blk st' :
  wf st -> alloc_result st heap size zero q blk st' -> wf st'.
Proof.
  intros W (E & _ & B & _). eapply wf_st_eq; [intros x; symmetry; apply E|]. apply wf_add; assumption.
Qed.

(* ---- aligned allocation ---- *)

Lemma mod_W64_mod_pow2 x k : k <= 64 -> (x mod W64) mod 2 ^ k = x mod 2 ^ k.
Proof.
  intros Hk. pose proof (pow2_pos k) as Hp. pose proof (pow2_pos (64 - k)) as Hp2.
  assert (E : W64 = 2 ^ k * 2 ^ (64 - k)).
  { rewrite <- N.pow_add_r. rewrite W64_pow. f_equal. lia. }
  rewrite E. rewrite N.mod_mul_r by lia.
  rewrite N.mul_comm. rewrite N.mod_add by lia. apply N.mod_mod. lia.
Qed.

Lemma land_wadd_mask p offset k : k < 64 ->
  N.land (wadd p offset) (wsub (2 ^ k) 1) = (p + offset) mod 2 ^ k.
Proof.
  intros Hk. pose proof (pow2_pos k) as Hp.
  rewrite wsub_small by lia. rewrite land_mask. unfold wadd. rewrite wrap_mod.
  apply mod_W64_mod_pow2. lia.
Qed.

Lemma aligned_adjust_spec p k offset :
  k < 64 ->
  let adj := aligned_adjust p (2 ^ k) offset in
  adj < 2 ^ k /\ (p + adj + offset) mod 2 ^ k = 0.
Proof.
  intros Hk. cbv zeta. unfold aligned_adjust. rewrite land_wadd_mask by assumption.
  pose proof (pow2_pos k) as Hp. set (a := 2 ^ k) in *. clearbody a.
  pose proof (N.mod_lt (p + offset) a ltac:(lia)) as Hr.
  pose proof (N.div_mod (p + offset) a ltac:(lia)) as Hd.
  set (r := (p + offset) mod a) in *. set (d := (p + offset) / a) in *. clearbody r d.
  destruct (r =? 0) eqn:E.
  - apply N.eqb_eq in E. subst r. split; [lia|].
    replace (p + 0 + offset) with (0 + d * a) by lia. rewrite N.mod_add by lia. apply N.mod_0_l. lia.
  - apply N.eqb_neq in E. split; [lia|].
    replace (p + (a - r) + offset) with (0 + (d + 1) * a) by lia. rewrite N.mod_add by lia. apply N.mod_0_l. lia.
Qed.

Definition fast_path_b (size alignment offset : N) (o : oracles) : bool :=
  if (size <=? MI_SMALL_SIZE_MAX) && (alignment <=? size) then
    match o_page_free o with
    | Some f => N.land (wadd f offset) (wsub alignment 1) =? 0
    | None => false
    end
  else false.

(* placement of a huge-alignment block by the segment layer (theorem huge_aligned of the segment
   model): the aligned pointer lies inside the block with `size` bytes behind it *)
Definition huge_answer_ok (size alignment : N) (ans : answer) : Prop :=
  MI_BLOCK_ALIGNMENT_MAX < alignment -> forall p u bytes, ans = Some (p, u, bytes) ->
    aligned_adjust p alignment 0 + size <= u /\ aligned_adjust p alignment 0 < u.

(* the layer contract for an aligned allocation: each answer that is consulted answers the request
   that is made on that path *)
Definition oracles_ok (st : state) (size alignment offset : N) (o : oracles) : Prop :=
  if fast_path_b size alignment offset o then
    answer_ok st size (o_ans o) /\
    (forall f p u bytes, o_page_free o = Some f -> o_ans o = Some (p, u, bytes) -> p = f)
  else if (offset =? 0) && malloc_is_naturally_aligned size alignment then
    answer_ok st size (o_ans o) /\
    answer_ok st (overalloc_size size alignment) (o_ans2 o) /\ huge_answer_ok size alignment (o_ans2 o)
  else answer_ok st (overalloc_size size alignment) (o_ans o) /\ huge_answer_ok size alignment (o_ans o).

Lemma overalloc_size_small size alignment :
  size <= MI_MAX_ALLOC_SIZE -> 0 < alignment -> alignment <= MI_BLOCK_ALIGNMENT_MAX ->
  overalloc_size size alignment = N.max size MI_MAX_ALIGN_SIZE + alignment - 1.
Proof.
  intros Hs Ha0 Ha. unfold overalloc_size.
  assert (F : (MI_BLOCK_ALIGNMENT_MAX <? alignment) = false) by (apply N.ltb_ge; assumption).
  rewrite F. unfold MI_MAX_ALLOC_SIZE, MI_BLOCK_ALIGNMENT_MAX, MI_MAX_ALIGN_SIZE in *.
  destruct (size <? 16) eqn:E; [apply N.ltb_lt in E|apply N.ltb_ge in E];
    (rewrite wadd_small by (rewrite W64_val; lia)); (rewrite wsub_small by lia); lia.
Qed.

Lemma overalloc_result st heap size k offset zero ans st' q path :
  wf st -> k < 64 -> size <= MI_MAX_ALLOC_SIZE -> offset < W64 ->
  answer_ok st (overalloc_size size (2 ^ k)) ans -> huge_answer_ok size (2 ^ k) ans ->
  malloc_zero_aligned_at_overalloc st heap size (2 ^ k) offset zero ans = (st', Some q, path) ->
  exists blk, st' = add st q blk /\ alloc_result st heap size zero q blk st' /\ (q + offset) mod 2 ^ k = 0 /\
    exists p u bytes0, ans = Some (p, u, bytes0) /\ q = p + b_adjust blk /\ b_usable blk = u - b_adjust blk /\
      b_adjust blk = aligned_adjust p (2 ^ k) offset /\ b_adjust blk < 2 ^ k /\
      b_adjust blk + size <= u /\
      (zero = false -> forall i, byte_at (b_bytes blk) i = byte_at bytes0 (b_adjust blk + i)).
Proof.
  intros W Hk Hs Ho A Hh H. pose proof (pow2_pos k) as Hp.
  pose proof (aligned_adjust_spec) as AS.
  unfold malloc_zero_aligned_at_overalloc in H.
  destruct (MI_BLOCK_ALIGNMENT_MAX <? 2 ^ k) eqn:Eh.
  - (* huge alignment *)
    apply N.ltb_lt in Eh.
    destruct (offset =? 0) eqn:Eo; cbn [negb] in H; [|discriminate]. apply N.eqb_eq in Eo. subst offset.
    destruct (alloc_block _ false _ ans) as [[[p u] b]|] eqn:E; [|discriminate].
    apply alloc_block_some in E as (b0 & -> & ->).
    destruct (Hh Eh _ _ _ eq_refl) as (Hh1 & Hh2).
    destruct A as (A1 & A2 & A3 & A4 & A5 & A6).
    destruct (AS p k 0 Hk) as (S1 & S2). cbv zeta in S1, S2.
    set (adj := aligned_adjust p (2 ^ k) 0) in *.
    assert (Ew : wadd p adj = p + adj) by (apply wadd_small; lia). rewrite Ew in H.
    injection H as <- <- <-.
    eexists. split; [reflexivity|]. cbn [b_adjust b_usable b_bytes].
    split.
    { unfold alloc_result. cbn [b_usable b_bytes b_req b_zero b_heap b_adjust].
      split; [intros x; reflexivity|].
      split; [eapply (answer_fresh st _ p u b0); [assumption|repeat split; eassumption|lia|lia]|].
      split.
      { unfold block_ok. cbn [b_usable b_bytes b_req b_adjust].
        assert (L : blen (if zero then zero_all (drop adj b0) else drop adj b0) = u - adj).
        { destruct zero; rewrite ?blen_zero_all, blen_drop; lia. }
        repeat split; solve [exact L | lia]. }
      repeat split; try reflexivity; try lia.
      intros -> i. apply byte_at_zero_all. }
    split; [rewrite <- S2; f_equal; lia|].
    exists p, u, b0. repeat split; try reflexivity; try lia.
    intros -> i. apply byte_at_drop.
  - (* over-allocation *)
    apply N.ltb_ge in Eh.
    destruct (alloc_block _ zero 0 ans) as [[[p u] b]|] eqn:E; [|discriminate].
    apply alloc_block_some in E as (b0 & -> & ->).
    rewrite overalloc_size_small in A by (try assumption; lia).
    destruct A as (A1 & A2 & A3 & A4 & A5 & A6).
    destruct (AS p k offset Hk) as (S1 & S2). cbv zeta in S1, S2.
    set (adj := aligned_adjust p (2 ^ k) offset) in *.
    assert (Hm : MI_MAX_ALIGN_SIZE = 16) by reflexivity.
    assert (Ew : wadd p adj = p + adj) by (apply wadd_small; lia). rewrite Ew in H.
    injection H as <- <- <-.
    eexists. split; [reflexivity|]. cbn [b_adjust b_usable b_bytes].
    split.
    { unfold alloc_result. cbn [b_usable b_bytes b_req b_zero b_heap b_adjust].
      split; [intros x; reflexivity|].
      split; [eapply (answer_fresh st _ p u b0); [assumption|repeat split; eassumption|lia|lia]|].
      split.
      { unfold block_ok. cbn [b_usable b_bytes b_req b_adjust]. rewrite blen_drop.
        assert (L : blen (if zero then zero_all b0 else b0) = u) by (destruct zero; rewrite ?blen_zero_all; assumption).
        rewrite L. repeat split; lia. }
      repeat split; try reflexivity; try lia.
      intros -> i. rewrite byte_at_drop. apply byte_at_zero_all. }
    split; [exact S2|].
    exists p, u, b0. repeat split; try reflexivity; try lia.
    intros -> i. apply byte_at_drop.
Qed.

Lemma alloc_result_st_eq s1 s2 heap size zero q blk st' :
  st_eq s1 s2 -> alloc_result s1 heap size zero q blk st' -> alloc_result s2 heap size zero q blk st'.
Proof.
  intros E (A & B & C). split; [|split; [rewrite <- E; exact B|exact C]].
  intros x. rewrite A. rewrite !lookup_add. rewrite E. reflexivity.
Qed.

Lemma free_add_fresh st p blk : lookup st p = None -> p <> NULL -> st_eq (free (add st p blk) p) st.
Proof.
  intros H Hn x. rewrite lookup_free, lookup_add.
  assert (F : (p =? NULL) = false) by (apply N.eqb_neq; assumption). rewrite F. cbn [negb andb].
  destruct (p =? x) eqn:E; [|reflexivity]. apply N.eqb_eq in E. subst x. symmetry. exact H.
Qed.

Lemma pow2_checks k : k < 64 -> ((2 ^ k =? 0) || negb (is_power_of_two (2 ^ k))) = false.
Proof.
  intros Hk. pose proof (pow2_pos k). rewrite is_power_of_two_pow by assumption.
  assert (F : (2 ^ k =? 0) = false) by (apply N.eqb_neq; lia). rewrite F. reflexivity.
Qed.

(* the detailed description of the block created by an aligned allocation *)
Definition aligned_detail (size offset alignment : N) (zero : bool) (o : oracles) (q : N) (blk : block) : Prop :=
  (q + offset) mod alignment = 0 /\
  exists p u bytes0, (o_ans o = Some (p, u, bytes0) \/ o_ans2 o = Some (p, u, bytes0)) /\
    q = p + b_adjust blk /\ b_usable blk = u - b_adjust blk /\ b_adjust blk + size <= u /\
    b_adjust blk = (if b_adjust blk =? 0 then 0 else aligned_adjust p alignment offset) /\
    (zero = false -> forall i, byte_at (b_bytes blk) i = byte_at bytes0 (b_adjust blk + i)).

Definition generic_oracles_ok (st : state) (size alignment offset : N) (o : oracles) : Prop :=
  if (offset =? 0) && malloc_is_naturally_aligned size alignment then
    answer_ok st size (o_ans o) /\
    answer_ok st (overalloc_size size alignment) (o_ans2 o) /\ huge_answer_ok size alignment (o_ans2 o)
  else answer_ok st (overalloc_size size alignment) (o_ans o) /\ huge_answer_ok size alignment (o_ans o).

Lemma generic_result st heap size k offset zero o st' q path :
  wf st -> k < 64 -> size < W64 -> offset < W64 -> generic_oracles_ok st size (2 ^ k) offset o ->
  malloc_zero_aligned_at_generic st heap size (2 ^ k) offset zero o = (st', Some q, path) ->
  exists blk, alloc_result st heap size zero q blk st' /\ aligned_detail size offset (2 ^ k) zero o q blk.
Proof.
  intros W Hk Hs Ho OK H. pose proof (pow2_pos k) as Hp.
  unfold malloc_zero_aligned_at_generic in H. unfold generic_oracles_ok in OK.
  destruct (MI_MAX_ALLOC_SIZE - MI_PADDING_SIZE <? size) eqn:Emax; [discriminate|].
  apply N.ltb_ge in Emax. change MI_PADDING_SIZE with 0 in Emax. rewrite N.sub_0_r in Emax.
  destruct ((offset =? 0) && malloc_is_naturally_aligned size (2 ^ k)) eqn:Enat.
  - (* natural alignment *)
    destruct OK as (A & A2 & Hh).
    apply andb_prop in Enat as (Eo & _). apply N.eqb_eq in Eo. subst offset.
    destruct (heap_malloc_zero st heap size zero (o_ans o)) as [st1 [p|]] eqn:HM; [|discriminate].
    destruct (malloc_result _ _ _ _ _ _ _ W A HM) as (blk & Eb & R & Adj & u & b0 & Ea & Eu & Ebytes).
    destruct (N.land p (wsub (2 ^ k) 1) =? 0) eqn:Eal.
    + injection H as <- <- <-. exists blk. split; [exact R|]. unfold aligned_detail.
      apply N.eqb_eq in Eal. rewrite wsub_small in Eal by lia. rewrite land_mask in Eal.
      rewrite N.add_0_r. split; [exact Eal|]. exists p, u, b0.
      destruct R as (_ & _ & _ & R4 & _). rewrite Adj, Eu. cbn [N.eqb].
      repeat split; try lia; [left; exact Ea|]. intros -> i. rewrite Ebytes. reflexivity.
    + (* the branch that "should never happen" *)
      destruct R as (R1 & R2 & R3 & _).
      assert (Hpn : p <> NULL) by (destruct R3 as (_ & _ & _ & _ & _ & R3); unfold NULL; lia).
      assert (SE : st_eq (free st1 p) st) by (subst st1; apply free_add_fresh; assumption).
      assert (SE' : st_eq st (free st1 p)) by (intros x; symmetry; apply SE).
      assert (W1 : wf (free st1 p)) by (eapply wf_st_eq; eassumption).
      assert (A2' : answer_ok (free st1 p) (overalloc_size size (2 ^ k)) (o_ans2 o)) by (eapply answer_ok_st_eq; eassumption).
      destruct (overalloc_result _ _ _ _ _ _ _ _ _ _ W1 Hk Emax Ho A2' Hh H)
        as (blk2 & Est & R & Al & p2 & u2 & b2 & Ea2 & Eq & Eu2 & Eadj & Hadj & Hfit & Hb).
      exists blk2. split; [eapply alloc_result_st_eq; eassumption|]. unfold aligned_detail.
      split; [exact Al|]. exists p2, u2, b2. repeat split; try assumption; [right; exact Ea2|].
      destruct (b_adjust blk2 =? 0) eqn:E0; [apply N.eqb_eq in E0; exact E0|exact Eadj].
  - destruct OK as (A & Hh).
    destruct (overalloc_result _ _ _ _ _ _ _ _ _ _ W Hk Emax Ho A Hh H)
      as (blk2 & Est & R & Al & p2 & u2 & b2 & Ea2 & Eq & Eu2 & Eadj & Hadj & Hfit & Hb).
    exists blk2. split; [exact R|]. unfold aligned_detail.
    split; [exact Al|]. exists p2, u2, b2. repeat split; try assumption; [left; exact Ea2|].
    destruct (b_adjust blk2 =? 0) eqn:E0; [apply N.eqb_eq in E0; exact E0|exact Eadj].
Qed.

Lemma aligned_result st heap size k offset zero o st' q path :
  wf st -> k < 64 -> size < W64 -> offset < W64 -> oracles_ok st size (2 ^ k) offset o ->
  heap_malloc_zero_aligned_at st heap size (2 ^ k) offset zero o = (st', Some q, path) ->
  exists blk, alloc_result st heap size zero q blk st' /\ aligned_detail size offset (2 ^ k) zero o q blk.
Proof.
  intros W Hk Hs Ho OK H. pose proof (pow2_pos k) as Hp.
  unfold heap_malloc_zero_aligned_at in H. rewrite pow2_checks in H by assumption.
  change (if (size <=? MI_SMALL_SIZE_MAX) && (2 ^ k <=? size)
          then match o_page_free o with
               | Some f => N.land (wadd f offset) (wsub (2 ^ k) 1) =? 0
               | None => false end else false) with (fast_path_b size (2 ^ k) offset o) in H.
  unfold oracles_ok in OK. fold (generic_oracles_ok st size (2 ^ k) offset o) in OK.
  destruct (fast_path_b size (2 ^ k) offset o) eqn:Efast; [|eapply generic_result; eassumption].
  (* fast path: a free block of the small page happens to be aligned *)
  unfold fast_path_b in Efast.
  destruct ((size <=? MI_SMALL_SIZE_MAX) && (2 ^ k <=? size)) eqn:Esm; [|discriminate].
  destruct (o_page_free o) as [f|] eqn:Ef; [|discriminate].
  destruct OK as (A & Cons).
  destruct (page_malloc_zero zero (o_ans o)) as [[[p u] b]|] eqn:E; [|discriminate].
  apply page_malloc_zero_some in E as (b0 & Ea & ->).
  injection H as <- <- <-.
  assert (p = f) by (eapply Cons; eauto). subst f.
  apply andb_prop in Esm as (E1 & E2). apply N.leb_le in E1.
  assert (HM : heap_malloc_zero st heap size zero (o_ans o) =
               (add st p (mkBlock u (if zero then zero_all b0 else b0) heap size zero 0), Some p)).
  { unfold heap_malloc_zero. rewrite Ea. rewrite alloc_block_granted; [reflexivity|assumption|].
    unfold MI_SMALL_SIZE_MAX, MI_MAX_ALLOC_SIZE in *. lia. }
  destruct (malloc_result _ _ _ _ _ _ _ W A HM) as (blk & Eb & R & Adj & u' & b0' & Ea' & Eu & Ebytes).
  rewrite Ea in Ea'. injection Ea' as <- <-.
  unfold add in Eb. injection Eb as <-.
  eexists. split; [exact R|]. unfold aligned_detail. cbn [b_adjust b_usable b_bytes].
  apply N.eqb_eq in Efast. rewrite land_wadd_mask in Efast by assumption.
  split; [exact Efast|]. exists p, u, b0. destruct R as (_ & _ & _ & R4 & _). cbn [b_usable] in R4.
  repeat split; try lia; [left; exact Ea|]. intros -> i. reflexivity.
Qed.

(* ------------------------------------------------------------------------------------- *)
(* E. re-allocation                                                                         *)
(* ------------------------------------------------------------------------------------- *)

(* the contents of the new block after the zeroing / first-byte / copy steps *)
Definition finish_bytes (size newsize : N) (zero fbr : bool) (p : N) (old l : list N) : list N :=
  let l2 :=
    if zero && (size <? newsize)
    then zero_range (if MI_INTPTR_SIZE <=? size then size - MI_INTPTR_SIZE else 0) newsize l
    else if fbr && (newsize =? 0) then set_byte 0 0 l else l in
  if p =? NULL then l2 else copy_prefix old (if size <? newsize then size else newsize) l2.

Lemma set_bytes_set_bytes f g b : set_bytes g (set_bytes f b) = set_bytes (fun l => g (f l)) b.
Proof. reflexivity. Qed.

Lemma option_map_set_bytes f g (o : option block) :
  option_map (set_bytes g) (option_map (set_bytes f) o) = option_map (set_bytes (fun l => g (f l))) o.
Proof. destruct o; reflexivity. Qed.

Lemma option_map_set_bytes_id (o : option block) : o = option_map (set_bytes (fun l => l)) o.
Proof. destruct o as [[]|]; reflexivity. Qed.

Lemma lookup_realloc_finish st1 p newp size newsize zero fbr old x :
  newp <> p ->
  lookup (realloc_finish st1 p newp size newsize zero fbr old) x =
    if negb (p =? NULL) && (p =? x) then None
    else if newp =? x then option_map (set_bytes (finish_bytes size newsize zero fbr p old)) (lookup st1 x)
    else lookup st1 x.
Proof.
  intros Hne. unfold realloc_finish, finish_bytes.
  destruct (p =? NULL) eqn:Ep; cbn [negb andb].
  - destruct (zero && (size <? newsize)); [|destruct (fbr && (newsize =? 0))];
      rewrite ?lookup_update; try reflexivity.
    destruct (newp =? x); [apply option_map_set_bytes_id|reflexivity].
  - rewrite lookup_free, Ep. cbn [negb andb].
    destruct (p =? x) eqn:Epx; [reflexivity|].
    destruct (zero && (size <? newsize)); [|destruct (fbr && (newsize =? 0))];
      rewrite ?lookup_update; destruct (newp =? x); try reflexivity; apply option_map_set_bytes.
Qed.

Lemma blen_finish_bytes size newsize zero fbr p old l :
  blen (finish_bytes size newsize zero fbr p old l) = blen l.
Proof.
  unfold finish_bytes. destruct (p =? NULL); rewrite ?blen_copy_prefix;
    (destruct (zero && (size <? newsize)); [apply blen_zero_range|]);
    (destruct (fbr && (newsize =? 0)); [apply blen_set_byte|reflexivity]).
Qed.

(* the copied prefix *)
Lemma byte_at_finish_prefix size newsize zero fbr p old l i :
  p <> NULL -> i < blen l -> i < N.min size newsize ->
  byte_at (finish_bytes size newsize zero fbr p old l) i = byte_at old i.
Proof.
  intros Hp Hl Hi. unfold finish_bytes.
  assert (F : (p =? NULL) = false) by (apply N.eqb_neq; assumption). rewrite F.
  rewrite byte_at_copy_prefix.
  - assert (G : (i <? (if size <? newsize then size else newsize)) = true).
    { apply N.ltb_lt. destruct (size <? newsize) eqn:E; [apply N.ltb_lt in E|apply N.ltb_ge in E]; lia. }
    rewrite G. reflexivity.
  - destruct (zero && (size <? newsize)); [rewrite blen_zero_range; assumption|].
    destruct (fbr && (newsize =? 0)); [rewrite blen_set_byte|]; assumption.
Qed.

(* a byte that is zero in the fresh block and (if it is copied) zero in the old block is zero *)
Lemma byte_at_finish_zero size newsize zero fbr p old l i :
  byte_at l i = 0 -> (p <> NULL -> i < N.min size newsize -> byte_at old i = 0) ->
  byte_at (finish_bytes size newsize zero fbr p old l) i = 0.
Proof.
  intros Hz Hold.
  destruct (N.lt_ge_cases i (blen l)) as [Hl|Hl];
    [|apply byte_at_out; rewrite blen_finish_bytes; assumption].
  unfold finish_bytes.
  set (l2 := if zero && (size <? newsize) then _ else _).
  assert (L2 : blen l2 = blen l).
  { unfold l2. destruct (zero && (size <? newsize)); [apply blen_zero_range|].
    destruct (fbr && (newsize =? 0)); [apply blen_set_byte|reflexivity]. }
  assert (Z2 : byte_at l2 i = 0).
  { unfold l2. destruct (zero && (size <? newsize)).
    - rewrite byte_at_zero_range. destruct (_ && _); [reflexivity|assumption].
    - destruct (fbr && (newsize =? 0)); [|assumption].
      rewrite byte_at_set_byte by assumption. destruct (i =? 0); [reflexivity|assumption]. }
  destruct (p =? NULL) eqn:Ep; [exact Z2|]. apply N.eqb_neq in Ep.
  rewrite byte_at_copy_prefix by (rewrite L2; assumption).
  destruct (i <? _) eqn:E; [|exact Z2]. apply N.ltb_lt in E. apply Hold; [assumption|].
  destruct (size <? newsize) eqn:E2; [apply N.ltb_lt in E2|apply N.ltb_ge in E2]; lia.
Qed.

(* the grown part [size, newsize) of a zeroing re-allocation is cleared explicitly *)
Lemma byte_at_finish_grown size newsize fbr p old l i :
  size <= i -> i < newsize -> byte_at (finish_bytes size newsize true fbr p old l) i = 0.
Proof.
  intros H1 H2.
  destruct (N.lt_ge_cases i (blen l)) as [Hl|Hl];
    [|apply byte_at_out; rewrite blen_finish_bytes; assumption].
  unfold finish_bytes. assert (E : (size <? newsize) = true) by (apply N.ltb_lt; lia).
  rewrite E. cbn [andb].
  assert (Z : byte_at (zero_range (if MI_INTPTR_SIZE <=? size then size - MI_INTPTR_SIZE else 0) newsize l) i = 0).
  { rewrite byte_at_zero_range.
    assert (G : ((if MI_INTPTR_SIZE <=? size then size - MI_INTPTR_SIZE else 0) <=? i) = true).
    { apply N.leb_le. destruct (MI_INTPTR_SIZE <=? size); lia. }
    assert (G2 : (i <? newsize) = true) by (apply N.ltb_lt; assumption).
    rewrite G, G2. reflexivity. }
  destruct (p =? NULL); [exact Z|].
  rewrite byte_at_copy_prefix by (rewrite blen_zero_range; assumption).
  assert (G : (i <? size) = false) by (apply N.ltb_ge; assumption). rewrite G. exact Z.
Qed.

(* outcome of a re-allocation that moved the block *)
Definition moved (st : state) (heap p size newsize : N) (zero fbr : bool) (st' : state) (q : N) (blk : block) : Prop :=
  q <> p /\ lookup st q = None /\ block_ok q blk /\ newsize <= b_usable blk /\
  b_req blk = newsize /\ b_zero blk = zero /\ b_heap blk = heap /\
  (zero = true -> forall i, byte_at (b_bytes blk) i = 0) /\
  forall x, lookup st' x =
    if negb (p =? NULL) && (p =? x) then None
    else if q =? x then Some (set_bytes (finish_bytes size newsize zero fbr p (bytes_of st p)) blk)
    else lookup st x.

Lemma moved_intro st heap p size newsize zero fbr st1 q blk :
  (p = NULL \/ lookup st p <> None) ->
  alloc_result st heap newsize zero q blk st1 ->
  moved st heap p size newsize zero fbr (realloc_finish st1 p q size newsize zero fbr (bytes_of st p)) q blk.
Proof.
  intros Hp (E & Fr & Ok & Fit & Rq & Rz & Rh & Zb).
  assert (Hne : q <> p).
  { destruct Hp as [->|Hp]; [destruct Ok as (_ & _ & _ & _ & _ & Ok); unfold NULL; lia|].
    intros ->. apply Hp. exact Fr. }
  unfold moved. repeat (split; [assumption|]).
  intros x. rewrite lookup_realloc_finish by assumption.
  destruct (negb (p =? NULL) && (p =? x)); [reflexivity|].
  rewrite E, lookup_add. destruct (q =? x); reflexivity.
Qed.

Lemma realloc_zero_cases st heap p newsize zero ans :
  let size := usable_size st p in
  (realloc_inplace_b size newsize = true /\
   realloc_zero st heap p newsize zero ans = (update st p (set_req newsize), Some p)) \/
  (realloc_inplace_b size newsize = false /\ alloc_block newsize zero 0 ans = None /\
   realloc_zero st heap p newsize zero ans = (st, None)) \/
  (realloc_inplace_b size newsize = false /\ exists st1 newp,
     heap_malloc_zero st heap newsize zero ans = (st1, Some newp) /\
     realloc_zero st heap p newsize zero ans =
       (realloc_finish st1 p newp size newsize zero true (bytes_of st p), Some newp)).
Proof.
  cbv zeta. unfold realloc_zero. destruct (realloc_inplace_b (usable_size st p) newsize); [left; split; reflexivity|right].
  destruct (heap_malloc_zero st heap newsize zero ans) as [st1 [newp|]] eqn:HM.
  - right. split; [reflexivity|]. exists st1, newp. split; reflexivity.
  - left. split; [reflexivity|]. split; [|reflexivity].
    unfold heap_malloc_zero in HM. destruct (alloc_block newsize zero 0 ans) as [[[a b] c]|]; [discriminate|reflexivity].
Qed.

Lemma realloc_zero_spec st heap p newsize zero ans st' r :
  wf st -> newsize < W64 -> answer_ok st newsize ans -> (p = NULL \/ lookup st p <> None) ->
  realloc_zero st heap p newsize zero ans = (st', r) ->
  let size := usable_size st p in
  (realloc_inplace_b size newsize = true /\ r = Some p /\ st' = update st p (set_req newsize)) \/
  (realloc_inplace_b size newsize = false /\ r = None /\ st' = st /\ (ans = None \/ MI_MAX_ALLOC_SIZE < newsize)) \/
  (realloc_inplace_b size newsize = false /\ exists q blk, r = Some q /\ moved st heap p size newsize zero true st' q blk).
Proof.
  intros W Hn A Hp H. cbv zeta.
  destruct (realloc_zero_cases st heap p newsize zero ans) as [(I & E)|[(I & AB & E)|(I & st1 & newp & HM & E)]];
    rewrite E in H; injection H as <- <-.
  - left. repeat split; assumption.
  - right; left. repeat split; try assumption; try reflexivity. apply alloc_block_none in AB; assumption.
  - right; right. split; [assumption|].
    destruct (malloc_result _ _ _ _ _ _ _ W A HM) as (blk & Eb & R & _).
    exists newp, blk. split; [reflexivity|]. apply moved_intro; assumption.
Qed.

(* in-place: what `update st p (set_req n)` looks like *)
Lemma lookup_set_req st p n x :
  lookup (update st p (set_req n)) x = if p =? x then option_map (set_req n) (lookup st x) else lookup st x.
Proof. apply lookup_update. Qed.

Lemma usable_live st p b : lookup st p = Some b -> p <> NULL -> usable_size st p = b_usable b.
Proof.
  intros H Hp. unfold usable_size. rewrite H.
  assert (F : (p =? NULL) = false) by (apply N.eqb_neq; assumption). rewrite F. reflexivity.
Qed.

Lemma wf_live_nonnull st p b : wf st -> lookup st p = Some b -> p <> NULL.
Proof. intros W H. destruct (W _ _ H) as (_ & _ & _ & _ & _ & Hp). unfold NULL. lia. Qed.

Lemma eqb_refl' x : (x =? x) = true. Proof. apply N.eqb_refl. Qed.

(* ---- C05 ---- *)

Lemma inplace_b_spec size newsize :
  realloc_inplace_b size newsize = true <-> newsize <= size /\ size / 2 <= newsize /\ 0 < newsize.
Proof.
  unfold realloc_inplace_b. rewrite !andb_true_iff, !N.leb_le, N.ltb_lt. tauto.
Qed.

Lemma moved_lookup_new st heap p size newsize zero fbr st' q blk :
  moved st heap p size newsize zero fbr st' q blk ->
  lookup st' q = Some (set_bytes (finish_bytes size newsize zero fbr p (bytes_of st p)) blk).
Proof.
  intros (Hne & _ & _ & _ & _ & _ & _ & _ & L). rewrite L.
  assert (F : (p =? q) = false) by (apply N.eqb_neq; intros ->; apply Hne; reflexivity).
  rewrite F, andb_false_r, N.eqb_refl. reflexivity.
Qed.

Lemma moved_lookup_old st heap p size newsize zero fbr st' q blk :
  moved st heap p size newsize zero fbr st' q blk -> p <> NULL -> lookup st' p = None.
Proof.
  intros (Hne & _ & _ & _ & _ & _ & _ & _ & L) Hp. rewrite L.
  assert (F : (p =? NULL) = false) by (apply N.eqb_neq; assumption).
  rewrite F, N.eqb_refl. reflexivity.
Qed.

Lemma moved_lookup_other st heap p size newsize zero fbr st' q blk x :
  moved st heap p size newsize zero fbr st' q blk -> x <> p -> x <> q -> lookup st' x = lookup st x.
Proof.
  intros (Hne & _ & _ & _ & _ & _ & _ & _ & L) H1 H2. rewrite L.
  assert (F : (p =? x) = false) by (apply N.eqb_neq; intros ->; apply H1; reflexivity).
  assert (G : (q =? x) = false) by (apply N.eqb_neq; intros ->; apply H2; reflexivity).
  rewrite F, G, andb_false_r. reflexivity.
Qed.

Lemma moved_wf st heap p size newsize zero fbr st' q blk :
  wf st -> moved st heap p size newsize zero fbr st' q blk -> wf st'.
Proof.
  intros W M x b. destruct M as (Hne & Fr & Ok & Fit & Rq & _ & _ & _ & L). rewrite L.
  destruct (negb (p =? NULL) && (p =? x)); [discriminate|].
  destruct (q =? x) eqn:E; [|apply W].
  apply N.eqb_eq in E. subst x. intros H. injection H as <-.
  unfold block_ok in *. cbn [set_bytes b_usable b_bytes b_req b_adjust]. rewrite blen_finish_bytes. exact Ok.
Qed.

Lemma realloc_prefix st heap p newsize zero ans st' q b :
  wf st -> newsize < W64 -> answer_ok st newsize ans -> lookup st p = Some b ->
  realloc_zero st heap p newsize zero ans = (st', Some q) ->
  exists b', lookup st' q = Some b' /\
    forall i, i < N.min (b_usable b) newsize -> byte_at (b_bytes b') i = byte_at (b_bytes b) i.
Proof.
  intros W Hn A Hb H. pose proof (wf_live_nonnull _ _ _ W Hb) as Hp.
  assert (Hl : p = NULL \/ lookup st p <> None) by (right; rewrite Hb; discriminate).
  destruct (realloc_zero_spec _ _ _ _ _ _ _ _ W Hn A Hl H) as [(I & E & ->)|[(I & E & _)|(I & q' & blk & E & M)]];
    try discriminate.
  - injection E as ->. rewrite lookup_set_req, N.eqb_refl, Hb. cbn [option_map].
    eexists. split; [reflexivity|]. intros i _. reflexivity.
  - injection E as <-. rewrite (moved_lookup_new _ _ _ _ _ _ _ _ _ _ M).
    eexists. split; [reflexivity|]. intros i Hi. cbn [set_bytes b_bytes].
    destruct M as (_ & _ & Ok & Fit & _). destruct Ok as (Ok1 & _).
    unfold bytes_of. rewrite Hb. rewrite (usable_live _ _ _ Hb Hp) in *.
    apply byte_at_finish_prefix; [assumption|lia|assumption].
Qed.

Lemma realloc_wf st heap p newsize zero ans st' r :
  wf st -> newsize < W64 -> answer_ok st newsize ans -> (p = NULL \/ lookup st p <> None) ->
  realloc_zero st heap p newsize zero ans = (st', r) -> wf st'.
Proof.
  intros W Hn A Hl H.
  destruct (realloc_zero_spec _ _ _ _ _ _ _ _ W Hn A Hl H) as [(I & E & ->)|[(I & E & -> & _)|(I & q' & blk & E & M)]].
  - intros x b. rewrite lookup_set_req. destruct (p =? x) eqn:Ex; [|apply W].
    apply N.eqb_eq in Ex. subst x. destruct (lookup st p) as [b0|] eqn:Hb; [|discriminate].
    cbn [option_map]. intros Hx. injection Hx as <-.
    pose proof (W _ _ Hb) as Ok. pose proof (wf_live_nonnull _ _ _ W Hb) as Hp.
    apply inplace_b_spec in I. rewrite (usable_live _ _ _ Hb Hp) in I.
    unfold block_ok in *. cbn [set_req b_usable b_bytes b_req b_adjust]. repeat split; try apply Ok. lia.
  - exact W.
  - eapply moved_wf; eassumption.
Qed.

Lemma realloc_ge_size st heap p newsize zero ans st' q :
  wf st -> newsize < W64 -> answer_ok st newsize ans -> (p = NULL \/ lookup st p <> None) ->
  realloc_zero st heap p newsize zero ans = (st', Some q) ->
  exists b', lookup st' q = Some b' /\ newsize <= b_usable b' /\ b_req b' = newsize /\
             blen (b_bytes b') = b_usable b' /\ q <> NULL.
Proof.
  intros W Hn A Hl H.
  pose proof (realloc_wf _ _ _ _ _ _ _ _ W Hn A Hl H) as W'.
  destruct (realloc_zero_spec _ _ _ _ _ _ _ _ W Hn A Hl H) as [(I & E & ->)|[(I & E & _)|(I & q' & blk & E & M)]];
    try discriminate.
  - injection E as ->. apply inplace_b_spec in I.
    assert (Hp : p <> NULL).
    { intros ->. unfold usable_size in I. rewrite N.eqb_refl in I. lia. }
    destruct Hl as [Hl|Hl]; [contradiction|].
    destruct (lookup st p) as [b|] eqn:Hb; [|contradiction]. rewrite (usable_live _ _ _ Hb Hp) in I.
    assert (L : lookup (update st p (set_req newsize)) p = Some (set_req newsize b)).
    { rewrite lookup_set_req, N.eqb_refl, Hb. reflexivity. }
    exists (set_req newsize b). split; [exact L|]. destruct (W' _ _ L) as (B1 & _).
    cbn [set_req b_usable b_req b_bytes] in *. repeat split; try assumption; lia.
  - injection E as <-. pose proof (moved_lookup_new _ _ _ _ _ _ _ _ _ _ M) as L.
    eexists. split; [exact L|]. destruct (W' _ _ L) as (B1 & _ & _ & _ & _ & B6).
    destruct M as (_ & _ & Ok & Fit & Rq & _).
    cbn [set_bytes b_usable b_req b_bytes] in *. repeat split; try assumption. unfold NULL. lia.
Qed.

Lemma realloc_frees_old_iff_moved st heap p newsize zero ans st' q b :
  wf st -> newsize < W64 -> answer_ok st newsize ans -> lookup st p = Some b ->
  realloc_zero st heap p newsize zero ans = (st', Some q) ->
  (lookup st' p = None <-> q <> p) /\
  (forall x, x <> p -> x <> q -> lookup st' x = lookup st x) /\
  (q = p -> exists b', lookup st' p = Some b' /\ b_bytes b' = b_bytes b /\ b_usable b' = b_usable b /\
                       b_heap b' = b_heap b /\ b_adjust b' = b_adjust b).
Proof.
  intros W Hn A Hb H. pose proof (wf_live_nonnull _ _ _ W Hb) as Hp.
  assert (Hl : p = NULL \/ lookup st p <> None) by (right; rewrite Hb; discriminate).
  destruct (realloc_zero_spec _ _ _ _ _ _ _ _ W Hn A Hl H) as [(I & E & ->)|[(I & E & _)|(I & q' & blk & E & M)]];
    try discriminate.
  - injection E as ->.
    assert (L : lookup (update st p (set_req newsize)) p = Some (set_req newsize b)).
    { rewrite lookup_set_req, N.eqb_refl, Hb. reflexivity. }
    split; [rewrite L; split; [discriminate|intros C; exfalso; apply C; reflexivity]|].
    split.
    + intros x Hx _. rewrite lookup_set_req.
      assert (F : (p =? x) = false) by (apply N.eqb_neq; intros ->; apply Hx; reflexivity).
      rewrite F. reflexivity.
    + intros _. exists (set_req newsize b). split; [exact L|]. repeat split; reflexivity.
  - injection E as <-. pose proof M as (Hne & _).
    split; [split; [intros _; exact Hne|intros _; eapply moved_lookup_old; eassumption]|].
    split; [intros x H1 H2; eapply moved_lookup_other; eassumption|].
    intros C. contradiction.
Qed.

Lemma realloc_null_is_malloc st heap n zero ans :
  let r := realloc_zero st heap NULL n zero ans in
  let m := heap_malloc_zero st heap n zero ans in
  snd r = snd m /\
  forall x, match lookup (fst r) x, lookup (fst m) x with
            | Some b1, Some b2 =>
                b_usable b1 = b_usable b2 /\ b_heap b1 = b_heap b2 /\ b_req b1 = b_req b2 /\
                b_zero b1 = b_zero b2 /\ b_adjust b1 = b_adjust b2 /\ blen (b_bytes b1) = blen (b_bytes b2) /\
                forall i, byte_at (b_bytes b1) i = byte_at (b_bytes b2) i \/
                          (n = 0 /\ i = 0 /\ byte_at (b_bytes b1) i = 0)
            | None, None => True
            | _, _ => False
            end.
Proof.
  cbv zeta. unfold realloc_zero.
  assert (I : realloc_inplace_b (usable_size st NULL) n = false).
  { unfold usable_size, realloc_inplace_b. cbn [N.eqb NULL]. destruct (n <=? 0) eqn:E1; [|reflexivity].
    apply N.leb_le in E1. assert (n = 0) by lia. subst n. reflexivity. }
  rewrite I. destruct (heap_malloc_zero st heap n zero ans) as [st1 [newp|]] eqn:HM; cbn [fst snd].
  - split; [reflexivity|]. intros x.
    apply heap_malloc_zero_some in HM as (u & b0 & -> & ->).
    unfold realloc_finish. change (NULL =? NULL) with true. cbv iota. change (usable_size st NULL) with 0.
    set (blk := mkBlock u _ heap n zero 0).
    assert (Same : forall b : block, match Some b, Some b with
       | Some b1, Some b2 => b_usable b1 = b_usable b2 /\ b_heap b1 = b_heap b2 /\ b_req b1 = b_req b2 /\
                b_zero b1 = b_zero b2 /\ b_adjust b1 = b_adjust b2 /\ blen (b_bytes b1) = blen (b_bytes b2) /\
                forall i, byte_at (b_bytes b1) i = byte_at (b_bytes b2) i \/
                          (n = 0 /\ i = 0 /\ byte_at (b_bytes b1) i = 0)
       | None, None => True | _, _ => False end).
    { intros b. repeat split. intros i. left. reflexivity. }
    destruct (zero && (0 <? n)) eqn:Ez; [|destruct (n =? 0) eqn:En; cbn [andb]].
    + rewrite lookup_update, !lookup_add. destruct (newp =? x).
      * cbn [option_map set_bytes blk b_usable b_heap b_req b_zero b_adjust b_bytes].
        rewrite blen_zero_range. repeat split. intros i. left.
        apply andb_prop in Ez as (-> & _). rewrite byte_at_zero_range. rewrite byte_at_zero_all.
        destruct (_ && _); reflexivity.
      * destruct (lookup st x); [apply Same|exact Logic.I].
    + rewrite lookup_update, !lookup_add. destruct (newp =? x).
      * cbn [option_map set_bytes blk b_usable b_heap b_req b_zero b_adjust b_bytes].
        rewrite blen_set_byte. repeat split. intros i. apply N.eqb_eq in En.
        set (l := if zero then zero_all b0 else b0).
        destruct (N.lt_ge_cases i (blen l)) as [Hl|Hl].
        -- rewrite byte_at_set_byte by assumption. destruct (i =? 0) eqn:Ei.
           ++ right. apply N.eqb_eq in Ei. repeat split; assumption.
           ++ left. reflexivity.
        -- left. rewrite !byte_at_out; [reflexivity|assumption|rewrite blen_set_byte; assumption].
      * destruct (lookup st x); [apply Same|exact Logic.I].
    + destruct (lookup (add st newp blk) x); [apply Same|exact Logic.I].
  - split; [reflexivity|]. intros x. apply heap_malloc_zero_none in HM. subst st1.
    destruct (lookup st x); [|exact Logic.I]. repeat split. intros i. left. reflexivity.
Qed.

Lemma realloc_zero_size_valid st heap p zero a u bytes :
  wf st -> answer_ok st 0 (Some (a, u, bytes)) -> (p = NULL \/ lookup st p <> None) ->
  exists st' q b', realloc_zero st heap p 0 zero (Some (a, u, bytes)) = (st', Some q) /\
    q <> NULL /\ q <> p /\ lookup st' q = Some b' /\ block_ok q b' /\ b_req b' = 0 /\
    (p <> NULL -> lookup st' p = None).
Proof.
  intros W A Hl.
  destruct (realloc_zero st heap p 0 zero (Some (a, u, bytes))) as [st' r] eqn:H.
  assert (Hn : 0 < W64) by (rewrite W64_val; lia).
  pose proof (realloc_wf _ _ _ _ _ _ _ _ W Hn A Hl H) as W'.
  destruct (realloc_zero_spec _ _ _ _ _ _ _ _ W Hn A Hl H) as [(I & E & ->)|[(I & E & _ & C)|(I & q' & blk & E & M)]].
  - apply inplace_b_spec in I. lia.
  - destruct C as [C|C]; [discriminate|]. unfold MI_MAX_ALLOC_SIZE in C. lia.
  - subst r. exists st', q'. pose proof (moved_lookup_new _ _ _ _ _ _ _ _ _ _ M) as L.
    eexists. split; [reflexivity|]. pose proof (W' _ _ L) as Ok.
    pose proof M as (Hne & _ & _ & _ & Rq & _).
    split; [destruct Ok as (_ & _ & _ & _ & _ & Ok); unfold NULL; lia|].
    split; [assumption|]. split; [exact L|]. split; [exact Ok|]. split; [exact Rq|].
    intros Hp. eapply moved_lookup_old; eassumption.
Qed.

Lemma realloc_fail_untouched st heap p newsize zero ans :
  (snd (realloc_zero st heap p newsize zero ans) = None -> fst (realloc_zero st heap p newsize zero ans) = st) /\
  (ans = None -> realloc_inplace_b (usable_size st p) newsize = false ->
   realloc_zero st heap p newsize zero ans = (st, None)).
Proof.
  destruct (realloc_zero_cases st heap p newsize zero ans) as [(I & E)|[(I & AB & E)|(I & st1 & newp & HM & E)]];
    rewrite E; cbn [fst snd]; split; try discriminate; try reflexivity.
  - intros _ C. rewrite I in C. discriminate.
  - intros -> _. unfold heap_malloc_zero, alloc_block, page_malloc_zero in HM.
    destruct (newsize <=? MI_SMALL_SIZE_MAX); [discriminate|]. destruct (_ && _); discriminate.
Qed.

Lemma reallocf_frees_on_fail st heap p newsize ans st' :
  (heap_reallocf st heap p newsize ans = (st', None) -> st' = free st p) /\
  (forall q, heap_reallocf st heap p newsize ans = (st', Some q) ->
             heap_realloc st heap p newsize ans = (st', Some q)).
Proof.
  unfold heap_reallocf, heap_realloc.
  destruct (realloc_fail_untouched st heap p newsize false ans) as (F & _).
  destruct (realloc_zero st heap p newsize false ans) as [st1 [q|]] eqn:E; cbn [fst snd] in F.
  - split; [discriminate|]. intros q' H. exact H.
  - rewrite (F eq_refl). split; [|intros q' H; destruct (negb (p =? NULL)); discriminate].
    unfold free. destruct (p =? NULL); cbn [negb]; intros H; injection H as <-; reflexivity.
Qed.

Lemma expand_never_moves st p n :
  (expand st p n = Some p <-> p <> NULL /\ n <= usable_size st p) /\
  (forall q, expand st p n = Some q -> q = p).
Proof.
  unfold expand. destruct (p =? NULL) eqn:Ep.
  - apply N.eqb_eq in Ep. split; [split; [discriminate|intros (C & _); contradiction]|discriminate].
  - apply N.eqb_neq in Ep. destruct (usable_size st p <? n) eqn:E.
    + apply N.ltb_lt in E. split; [split; [discriminate|intros (_ & C); lia]|discriminate].
    + apply N.ltb_ge in E. split; [split; [intros _; split; assumption|reflexivity]|].
      intros q H. injection H as <-. reflexivity.
Qed.

Lemma inplace_rule st heap p newsize zero ans b :
  wf st -> newsize < W64 -> answer_ok st newsize ans -> lookup st p = Some b ->
  (snd (realloc_zero st heap p newsize zero ans) = Some p <->
   newsize <= b_usable b /\ b_usable b / 2 <= newsize /\ 0 < newsize).
Proof.
  intros W Hn A Hb. pose proof (wf_live_nonnull _ _ _ W Hb) as Hp.
  assert (Hl : p = NULL \/ lookup st p <> None) by (right; rewrite Hb; discriminate).
  rewrite <- (usable_live _ _ _ Hb Hp). rewrite <- inplace_b_spec.
  destruct (realloc_zero st heap p newsize zero ans) as [st' r] eqn:H. cbn [snd].
  destruct (realloc_zero_spec _ _ _ _ _ _ _ _ W Hn A Hl H) as [(I & E & _)|[(I & E & _)|(I & q' & blk & E & M)]];
    rewrite I, E.
  - tauto.
  - split; discriminate.
  - destruct M as (Hne & _). split; [|discriminate]. intros C. injection C as C. contradiction.
Qed.

(* ---- aligned re-allocation ---- *)

Lemma aligned_inplace_b_spec size newsize p k offset :
  k <= 64 -> 
  (realloc_aligned_inplace_b size newsize p (2 ^ k) offset = true <->
   newsize <= size /\ size - size / 2 <= newsize /\ (p + offset) mod 2 ^ k = 0).
Proof.
  intros Hk. unfold realloc_aligned_inplace_b. rewrite !andb_true_iff, !N.leb_le, N.eqb_eq.
  unfold wadd. rewrite wrap_mod, mod_W64_mod_pow2 by assumption. tauto.
Qed.

Lemma realloc_aligned_small st heap p newsize alignment offset zero o :
  alignment <= MI_INTPTR_SIZE ->
  realloc_zero_aligned_at st heap p newsize alignment offset zero o = realloc_zero st heap p newsize zero (o_ans o).
Proof. intros H. unfold realloc_zero_aligned_at. apply N.leb_le in H. rewrite H. reflexivity. Qed.

Lemma realloc_aligned_null st heap newsize alignment offset zero o :
  MI_INTPTR_SIZE < alignment ->
  realloc_zero_aligned_at st heap NULL newsize alignment offset zero o =
  fst (heap_malloc_zero_aligned_at st heap newsize alignment offset zero o).
Proof. intros H. unfold realloc_zero_aligned_at. apply N.leb_gt in H. rewrite H. reflexivity. Qed.

Lemma realloc_aligned_spec st heap p newsize k offset zero o st' r b :
  wf st -> 3 < k -> k < 64 -> newsize < W64 -> offset < W64 ->
  oracles_ok st newsize (2 ^ k) offset o -> lookup st p = Some b ->
  realloc_zero_aligned_at st heap p newsize (2 ^ k) offset zero o = (st', r) ->
  let size := b_usable b in
  let inplace := realloc_aligned_inplace_b size newsize p (2 ^ k) offset in
  (inplace = true /\ r = Some p /\ st' = update st p (set_req newsize)) \/
  (inplace = false /\ r = None /\ st' = st) \/
  (inplace = false /\ exists q blk, r = Some q /\ moved st heap p size newsize zero false st' q blk /\
                                    aligned_detail newsize offset (2 ^ k) zero o q blk).
Proof.
  intros W Hk3 Hk Hn Ho OK Hb H. cbv zeta. pose proof (wf_live_nonnull _ _ _ W Hb) as Hp.
  unfold realloc_zero_aligned_at in H.
  assert (F1 : (2 ^ k <=? MI_INTPTR_SIZE) = false).
  { apply N.leb_gt. change MI_INTPTR_SIZE with (2 ^ 3). apply N.pow_lt_mono_r; lia. }
  assert (F2 : (p =? NULL) = false) by (apply N.eqb_neq; assumption).
  rewrite F1, F2 in H. rewrite (usable_live _ _ _ Hb Hp) in H.
  destruct (realloc_aligned_inplace_b (b_usable b) newsize p (2 ^ k) offset) eqn:I.
  - left. injection H as <- <-. repeat split; reflexivity.
  - right.
    destruct (heap_malloc_zero_aligned_at st heap newsize (2 ^ k) offset zero o) as [[st1 [newp|]] path] eqn:HA;
      cbn [fst] in H; injection H as <- <-.
    + right. split; [reflexivity|].
      destruct (aligned_result _ _ _ _ _ _ _ _ _ _ W Hk Hn Ho OK HA) as (blk & R & D).
      exists newp, blk. split; [reflexivity|]. split; [|exact D].
      apply moved_intro; [right; rewrite Hb; discriminate|exact R].
    + left. repeat split; reflexivity.
Qed.

Lemma realloc_aligned_keeps st heap p newsize k offset zero o st' q b :
  wf st -> 3 < k -> k < 64 -> newsize < W64 -> offset < W64 ->
  oracles_ok st newsize (2 ^ k) offset o -> lookup st p = Some b ->
  realloc_zero_aligned_at st heap p newsize (2 ^ k) offset zero o = (st', Some q) ->
  (q + offset) mod 2 ^ k = 0 /\
  exists b', lookup st' q = Some b' /\ newsize <= b_usable b' /\
    (forall i, i < N.min (b_usable b) newsize -> byte_at (b_bytes b') i = byte_at (b_bytes b) i) /\
    (lookup st' p = None <-> q <> p) /\
    (forall x, x <> p -> x <> q -> lookup st' x = lookup st x).
Proof.
  intros W Hk3 Hk Hn Ho OK Hb H. pose proof (wf_live_nonnull _ _ _ W Hb) as Hp.
  destruct (realloc_aligned_spec _ _ _ _ _ _ _ _ _ _ _ W Hk3 Hk Hn Ho OK Hb H)
    as [(I & E & ->)|[(I & E & _)|(I & q' & blk & E & M & D)]]; try discriminate.
  - injection E as ->. apply aligned_inplace_b_spec in I as (I1 & I2 & I3); [|lia].
    split; [exact I3|].
    assert (L : lookup (update st p (set_req newsize)) p = Some (set_req newsize b)).
    { rewrite lookup_set_req, N.eqb_refl, Hb. reflexivity. }
    exists (set_req newsize b). split; [exact L|]. cbn [set_req b_usable b_bytes].
    split; [assumption|]. split; [intros i _; reflexivity|].
    split; [rewrite L; split; [discriminate|intros C; exfalso; apply C; reflexivity]|].
    intros x Hx _. rewrite lookup_set_req.
    assert (F : (p =? x) = false) by (apply N.eqb_neq; intros ->; apply Hx; reflexivity).
    rewrite F. reflexivity.
  - injection E as <-. destruct D as (D1 & _). split; [exact D1|].
    pose proof (moved_lookup_new _ _ _ _ _ _ _ _ _ _ M) as L.
    eexists. split; [exact L|]. cbn [set_bytes b_usable b_bytes].
    pose proof M as (Hne & _ & Ok & Fit & _). destruct Ok as (Ok1 & _).
    split; [assumption|].
    split.
    { intros i Hi. unfold bytes_of. rewrite Hb. apply byte_at_finish_prefix; [assumption|lia|assumption]. }
    split; [split; [intros _; exact Hne|intros _; eapply moved_lookup_old; eassumption]|].
    intros x H1 H2. eapply moved_lookup_other; eassumption.
Qed.

Lemma aligned_inplace_rule st heap p newsize k offset zero o b :
  wf st -> 3 < k -> k < 64 -> newsize < W64 -> offset < W64 ->
  oracles_ok st newsize (2 ^ k) offset o -> lookup st p = Some b ->
  (snd (realloc_zero_aligned_at st heap p newsize (2 ^ k) offset zero o) = Some p <->
   newsize <= b_usable b /\ b_usable b - b_usable b / 2 <= newsize /\ (p + offset) mod 2 ^ k = 0).
Proof.
  intros W Hk3 Hk Hn Ho OK Hb.
  rewrite <- aligned_inplace_b_spec by lia.
  destruct (realloc_zero_aligned_at st heap p newsize (2 ^ k) offset zero o) as [st' r] eqn:H. cbn [snd].
  destruct (realloc_aligned_spec _ _ _ _ _ _ _ _ _ _ _ W Hk3 Hk Hn Ho OK Hb H)
    as [(I & E & _)|[(I & E & _)|(I & q' & blk & E & M & _)]]; rewrite I, E.
  - tauto.
  - split; discriminate.
  - destruct M as (Hne & _). split; [|discriminate]. intros C. injection C as C. contradiction.
Qed.

(* ------------------------------------------------------------------------------------- *)
(* F. malformed and oversized requests (C06)                                                *)
(* ------------------------------------------------------------------------------------- *)

Lemma mul_overflow_spec c s : c < W64 -> s < W64 ->
  (fst (mul_overflow c s) = true <-> W64 <= c * s) /\
  (fst (mul_overflow c s) = false -> snd (mul_overflow c s) = c * s) /\
  (fst (count_size_overflow c s) = true <-> W64 <= c * s) /\
  (fst (count_size_overflow c s) = false -> snd (count_size_overflow c s) = c * s) /\
  (fst (count_size_overflow c s) = true -> snd (count_size_overflow c s) = SIZE_MAX_) /\
  (c = 1 -> count_size_overflow c s = (false, s)).
Proof.
  intros Hc Hs.
  assert (M1 : fst (mul_overflow c s) = true <-> W64 <= c * s).
  { unfold mul_overflow. cbn [fst]. apply N.leb_le. }
  assert (M2 : fst (mul_overflow c s) = false -> snd (mul_overflow c s) = c * s).
  { unfold mul_overflow. cbn [fst snd]. intros H. apply N.leb_gt in H. apply wrap_small. assumption. }
  split; [exact M1|]. split; [exact M2|].
  unfold count_size_overflow. destruct (c =? 1) eqn:E1.
  - apply N.eqb_eq in E1. subst c. cbn [fst snd].
    split; [split; [discriminate|lia]|]. split; [intros _; lia|]. split; [discriminate|reflexivity].
  - apply N.eqb_neq in E1. destruct (mul_overflow c s) as [o t] eqn:EM. cbn [fst snd] in *.
    destruct o; cbn [fst snd].
    + split; [exact M1|]. split; [discriminate|]. split; [reflexivity|]. intros C; contradiction.
    + split; [exact M1|]. split; [exact M2|]. split; [discriminate|]. intros C; contradiction.
Qed.

Lemma cso_no_overflow c s : c < W64 -> s < W64 -> c * s < W64 -> count_size_overflow c s = (false, c * s).
Proof.
  intros Hc Hs H. destruct (mul_overflow_spec c s Hc Hs) as (_ & _ & A & B & _).
  destruct (count_size_overflow c s) as [o t]. cbn [fst snd] in *.
  destruct o; [assert (X : W64 <= c * s) by (apply A; reflexivity); lia|]. rewrite (B eq_refl). reflexivity.
Qed.

Lemma cso_overflow c s : c < W64 -> s < W64 -> W64 <= c * s -> count_size_overflow c s = (true, SIZE_MAX_).
Proof.
  intros Hc Hs H. destruct (mul_overflow_spec c s Hc Hs) as (_ & _ & A & _ & B & _).
  destruct (count_size_overflow c s) as [o t]. cbn [fst snd] in *.
  destruct o; [rewrite (B eq_refl); reflexivity|]. apply A in H. discriminate.
Qed.

Lemma cso_total_lt c s : snd (count_size_overflow c s) < W64 \/ ~ (s < W64).
Proof.
  destruct (N.lt_ge_cases s W64) as [Hs|Hs]; [left|right; lia].
  unfold count_size_overflow. destruct (c =? 1); [exact Hs|].
  unfold mul_overflow. destruct (W64 <=? c * s); cbn [snd]; [reflexivity|apply wrap_lt].
Qed.

(* plain allocation *)
Lemma heap_malloc_zero_oversize st heap size zero ans :
  size < W64 -> MI_MAX_ALLOC_SIZE < size -> heap_malloc_zero st heap size zero ans = (st, None).
Proof. intros H1 H2. unfold heap_malloc_zero. rewrite alloc_block_oversize by assumption. reflexivity. Qed.

Lemma heap_malloc_zero_granted st heap size zero p u bytes :
  size < W64 -> size <= MI_MAX_ALLOC_SIZE ->
  exists st', heap_malloc_zero st heap size zero (Some (p, u, bytes)) = (st', Some p).
Proof. intros H1 H2. unfold heap_malloc_zero. rewrite alloc_block_granted by assumption. eexists. reflexivity. Qed.

Lemma realloc_zero_oversize st heap p newsize zero ans :
  newsize < W64 -> MI_MAX_ALLOC_SIZE < newsize -> usable_size st p < newsize ->
  realloc_zero st heap p newsize zero ans = (st, None).
Proof.
  intros H1 H2 H3. unfold realloc_zero.
  assert (F : realloc_inplace_b (usable_size st p) newsize = false).
  { unfold realloc_inplace_b. assert (G : (newsize <=? usable_size st p) = false) by (apply N.leb_gt; assumption).
    rewrite G. reflexivity. }
  rewrite F, heap_malloc_zero_oversize by assumption. reflexivity.
Qed.

Lemma realloc_zero_none_state st heap p newsize zero ans st' :
  realloc_zero st heap p newsize zero ans = (st', None) -> st' = st.
Proof.
  intros H. destruct (realloc_fail_untouched st heap p newsize zero ans) as (F & _).
  rewrite H in F. cbn [fst snd] in F. apply F. reflexivity.
Qed.

Lemma realloc_zero_granted st heap p newsize zero a u bytes :
  newsize < W64 -> newsize <= MI_MAX_ALLOC_SIZE ->
  exists st' q, realloc_zero st heap p newsize zero (Some (a, u, bytes)) = (st', Some q).
Proof.
  intros H1 H2. unfold realloc_zero. destruct (realloc_inplace_b _ _); [eexists; eexists; reflexivity|].
  destruct (heap_malloc_zero_granted st heap newsize zero a u bytes H1 H2) as (st1 & E). rewrite E.
  eexists; eexists; reflexivity.
Qed.

(* aligned allocation *)
Lemma aligned_bad_alignment st heap size alignment offset zero o :
  alignment = 0 \/ is_power_of_two alignment = false ->
  heap_malloc_zero_aligned_at st heap size alignment offset zero o = (st, None, PathError).
Proof.
  intros H. unfold heap_malloc_zero_aligned_at.
  assert (F : ((alignment =? 0) || negb (is_power_of_two alignment)) = true).
  { destruct H as [->| ->]; [reflexivity|]. cbn [negb]. apply orb_true_r. }
  rewrite F. reflexivity.
Qed.

Lemma aligned_oversize st heap size alignment offset zero o :
  size < W64 -> MI_MAX_ALLOC_SIZE < size ->
  heap_malloc_zero_aligned_at st heap size alignment offset zero o = (st, None, PathError).
Proof.
  intros H1 H2. unfold heap_malloc_zero_aligned_at.
  destruct ((alignment =? 0) || negb (is_power_of_two alignment)); [reflexivity|].
  assert (F : (size <=? MI_SMALL_SIZE_MAX) = false).
  { apply N.leb_gt. unfold MI_SMALL_SIZE_MAX, MI_MAX_ALLOC_SIZE in *. lia. }
  rewrite F. cbn [andb]. unfold malloc_zero_aligned_at_generic.
  assert (G : (MI_MAX_ALLOC_SIZE - MI_PADDING_SIZE <? size) = true).
  { apply N.ltb_lt. change MI_PADDING_SIZE with 0. lia. }
  rewrite G. reflexivity.
Qed.

Lemma huge_alignment_offset st heap size k offset zero o :
  k < 64 -> size < W64 -> MI_BLOCK_ALIGNMENT_MAX < 2 ^ k -> offset <> 0 ->
  heap_malloc_zero_aligned_at st heap size (2 ^ k) offset zero o = (st, None, PathError).
Proof.
  intros Hk Hs Hh Ho. unfold heap_malloc_zero_aligned_at. rewrite pow2_checks by assumption.
  assert (F : ((size <=? MI_SMALL_SIZE_MAX) && (2 ^ k <=? size)) = false).
  { destruct (size <=? MI_SMALL_SIZE_MAX) eqn:E1; [|reflexivity]. apply N.leb_le in E1.
    cbn [andb]. apply N.leb_gt. unfold MI_SMALL_SIZE_MAX, MI_BLOCK_ALIGNMENT_MAX in *. lia. }
  rewrite F. unfold malloc_zero_aligned_at_generic.
  destruct (MI_MAX_ALLOC_SIZE - MI_PADDING_SIZE <? size); [reflexivity|].
  assert (G : (offset =? 0) = false) by (apply N.eqb_neq; assumption). rewrite G. cbn [andb].
  unfold malloc_zero_aligned_at_overalloc.
  assert (G2 : (MI_BLOCK_ALIGNMENT_MAX <? 2 ^ k) = true) by (apply N.ltb_lt; assumption).
  rewrite G2, G. reflexivity.
Qed.

Lemma overalloc_none_state st heap size a off zero ans st' path :
  malloc_zero_aligned_at_overalloc st heap size a off zero ans = (st', None, path) -> st' = st.
Proof.
  unfold malloc_zero_aligned_at_overalloc. destruct (MI_BLOCK_ALIGNMENT_MAX <? a).
  - destruct (negb (off =? 0)); [intros H; injection H as <-; reflexivity|].
    destruct (alloc_block _ _ _ _) as [[[p u] b]|]; [discriminate|]. intros H; injection H as <-; reflexivity.
  - destruct (alloc_block _ _ _ _) as [[[p u] b]|]; [discriminate|]. intros H; injection H as <-; reflexivity.
Qed.

(* an alignment that passes the check is a power of two below 2^64 *)
Lemma alignment_check_pow2 a : a < W64 -> ((a =? 0) || negb (is_power_of_two a)) = false ->
  exists k, k < 64 /\ a = 2 ^ k.
Proof.
  intros Ha H. apply orb_false_elim in H as (H1 & H2). apply N.eqb_neq in H1.
  apply negb_false_iff in H2. unfold is_power_of_two in H2.
  apply land_pred_pow2_dec; [lia|assumption|assumption].
Qed.

Lemma aligned_none_state st heap size a off zero o st' path :
  wf st -> oracles_ok st size a off o ->
  heap_malloc_zero_aligned_at st heap size a off zero o = (st', None, path) -> st_eq st' st.
Proof.
  intros W OK H. unfold heap_malloc_zero_aligned_at in H.
  destruct ((a =? 0) || negb (is_power_of_two a)); [injection H as <-; intros x; reflexivity|].
  change (if (size <=? MI_SMALL_SIZE_MAX) && (a <=? size)
          then match o_page_free o with
               | Some f => N.land (wadd f off) (wsub a 1) =? 0
               | None => false end else false) with (fast_path_b size a off o) in H.
  unfold oracles_ok in OK.
  destruct (fast_path_b size a off o).
  - destruct (page_malloc_zero zero (o_ans o)) as [[[p u] b]|]; [discriminate|].
    injection H as <-. intros x; reflexivity.
  - unfold malloc_zero_aligned_at_generic in H.
    destruct (MI_MAX_ALLOC_SIZE - MI_PADDING_SIZE <? size); [injection H as <-; intros x; reflexivity|].
    destruct ((off =? 0) && malloc_is_naturally_aligned size a).
    + destruct OK as (A & _).
      destruct (heap_malloc_zero st heap size zero (o_ans o)) as [st1 [p|]] eqn:HM.
      * destruct (N.land p (wsub a 1) =? 0); [discriminate|].
        apply overalloc_none_state in H. subst st'.
        destruct (malloc_result _ _ _ _ _ _ _ W A HM) as (blk & -> & R & _).
        destruct R as (_ & Fr & Ok & _). apply free_add_fresh; [assumption|].
        destruct Ok as (_ & _ & _ & _ & _ & Ok). unfold NULL. lia.
      * apply heap_malloc_zero_none in HM. injection H as <-. subst st1. intros x; reflexivity.
    + apply overalloc_none_state in H. subst st'. intros x; reflexivity.
Qed.

(* ---- the effect of a pointer-returning call on the abstract state ---- *)
Definition ptr_outcome (st : state) (heap p n : N) (zero : bool) (st' : state) (r : option N) : Prop :=
  match r with
  | None => st_eq st' st
  | Some q =>
      (q = p /\ p <> NULL /\ exists b, lookup st p = Some b /\ n <= b_usable b /\ st' = update st p (set_req n)) \/
      (exists fbr blk, (p = NULL \/ lookup st p <> None) /\ moved st heap p (usable_size st p) n zero fbr st' q blk) \/
      (p = NULL /\ exists blk, alloc_result st heap n zero q blk st')
  end.

Lemma st_eq_refl st : st_eq st st.
Proof. intros x; reflexivity. Qed.

Lemma malloc_outcome st heap size zero ans st' r :
  wf st -> answer_ok st size ans -> heap_malloc_zero st heap size zero ans = (st', r) ->
  ptr_outcome st heap NULL size zero st' r.
Proof.
  intros W A H. destruct r as [q|]; cbn [ptr_outcome].
  - right; right. split; [reflexivity|].
    destruct (malloc_result _ _ _ _ _ _ _ W A H) as (blk & _ & R & _). exists blk. exact R.
  - apply heap_malloc_zero_none in H. subst st'. apply st_eq_refl.
Qed.

Lemma realloc_outcome st heap p n zero ans st' r :
  wf st -> n < W64 -> answer_ok st n ans -> (p = NULL \/ lookup st p <> None) ->
  realloc_zero st heap p n zero ans = (st', r) -> ptr_outcome st heap p n zero st' r.
Proof.
  intros W Hn A Hl H.
  destruct (realloc_zero_spec _ _ _ _ _ _ _ _ W Hn A Hl H) as [(I & -> & ->)|[(I & -> & -> & _)|(I & q & blk & -> & M)]];
    cbn [ptr_outcome].
  - left. apply inplace_b_spec in I.
    assert (Hp : p <> NULL) by (intros ->; unfold usable_size in I; rewrite N.eqb_refl in I; lia).
    destruct Hl as [Hl|Hl]; [contradiction|]. destruct (lookup st p) as [b|] eqn:Hb; [|contradiction].
    rewrite (usable_live _ _ _ Hb Hp) in I. split; [reflexivity|]. split; [assumption|].
    exists b. repeat split; try reflexivity. lia.
  - apply st_eq_refl.
  - right; left. exists true, blk. split; assumption.
Qed.

Lemma aligned_some_result st heap size a off zero o st' q path :
  wf st -> size < W64 -> a < W64 -> off < W64 -> oracles_ok st size a off o ->
  heap_malloc_zero_aligned_at st heap size a off zero o = (st', Some q, path) ->
  exists blk, alloc_result st heap size zero q blk st'.
Proof.
  intros W Hs Ha Ho OK H.
  destruct ((a =? 0) || negb (is_power_of_two a)) eqn:Chk.
  - unfold heap_malloc_zero_aligned_at in H. rewrite Chk in H. discriminate.
  - destruct (alignment_check_pow2 a Ha Chk) as (k & Hk & ->).
    destruct (aligned_result _ _ _ _ _ _ _ _ _ _ W Hk Hs Ho OK H) as (blk & R & _).
    exists blk. exact R.
Qed.

Lemma aligned_outcome st heap size a off zero o st' r path :
  wf st -> size < W64 -> a < W64 -> off < W64 -> oracles_ok st size a off o ->
  heap_malloc_zero_aligned_at st heap size a off zero o = (st', r, path) ->
  ptr_outcome st heap NULL size zero st' r.
Proof.
  intros W Hs Ha Ho OK H. destruct r as [q|]; cbn [ptr_outcome].
  - right; right. split; [reflexivity|]. exact (aligned_some_result _ _ _ _ _ _ _ _ _ _ W Hs Ha Ho OK H).
  - eapply aligned_none_state; eassumption.
Qed.

Lemma realloc_aligned_outcome st heap p n a off zero o st' r :
  wf st -> n < W64 -> a < W64 -> off < W64 -> (p = NULL \/ lookup st p <> None) ->
  (if a <=? MI_INTPTR_SIZE then answer_ok st n (o_ans o) else oracles_ok st n a off o) ->
  realloc_zero_aligned_at st heap p n a off zero o = (st', r) -> ptr_outcome st heap p n zero st' r.
Proof.
  intros W Hn Ha Ho Hl OK H. unfold realloc_zero_aligned_at in H.
  destruct (a <=? MI_INTPTR_SIZE); [exact (realloc_outcome _ _ _ _ _ _ _ _ W Hn OK Hl H)|].
  destruct (p =? NULL) eqn:Ep.
  - apply N.eqb_eq in Ep. subst p.
    destruct (heap_malloc_zero_aligned_at st heap n a off zero o) as [[st1 r1] path] eqn:HA.
    cbn [fst] in H. injection H as <- <-. exact (aligned_outcome _ _ _ _ _ _ _ _ _ _ W Hn Ha Ho OK HA).
  - apply N.eqb_neq in Ep. destruct Hl as [Hl|Hl]; [contradiction|].
    destruct (lookup st p) as [b|] eqn:Hb; [|contradiction].
    rewrite (usable_live _ _ _ Hb Ep) in H.
    destruct (realloc_aligned_inplace_b (b_usable b) n p a off) eqn:I.
    + injection H as <- <-. cbn [ptr_outcome]. left. split; [reflexivity|]. split; [assumption|].
      exists b. unfold realloc_aligned_inplace_b in I. apply andb_prop in I as (I & _).
      apply andb_prop in I as (I & _). apply N.leb_le in I. repeat split; try reflexivity; assumption.
    + destruct (heap_malloc_zero_aligned_at st heap n a off zero o) as [[st1 [newp|]] path] eqn:HA;
        cbn [fst] in H; injection H as <- <-; cbn [ptr_outcome]; [|apply st_eq_refl].
      destruct (aligned_some_result _ _ _ _ _ _ _ _ _ _ W Hn Ha Ho OK HA) as (blk & R).
      right; left. exists false, blk. split; [right; rewrite Hb; discriminate|].
        rewrite (usable_live _ _ _ Hb Ep). apply moved_intro; [right; rewrite Hb; discriminate|exact R].
Qed.

(* ------------------------------------------------------------------------------------- *)
(* G. every entry point (exec)                                                              *)
(* ------------------------------------------------------------------------------------- *)

Definition total (c s : N) : N := snd (count_size_overflow c s).
Definition overflows (c s : N) : bool := fst (count_size_overflow c s).

Definition call_heap (c : call) : N :=
  match c with
  | CMalloc h _ | CZalloc h _ | CCalloc h _ _ | CMallocn h _ _ | CRealloc h _ _ | CReallocn h _ _ _
  | CReallocf h _ _ | CRezalloc h _ _ | CRecalloc h _ _ _ | CMallocAlignedAt h _ _ _ | CZallocAlignedAt h _ _ _
  | CCallocAlignedAt h _ _ _ _ | CReallocAlignedAt h _ _ _ _ | CRezallocAlignedAt h _ _ _ _
  | CRecallocAlignedAt h _ _ _ _ _ | CReallocAligned h _ _ _ | CRezallocAligned h _ _ _ => h
  | _ => 0
  end.

Definition call_ptr (c : call) : N :=
  match c with
  | CRealloc _ p _ | CReallocn _ p _ _ | CReallocf _ p _ | CRezalloc _ p _ | CRecalloc _ p _ _
  | CExpand p _ | CReallocAlignedAt _ p _ _ _ | CRezallocAlignedAt _ p _ _ _ | CRecallocAlignedAt _ p _ _ _ _
  | CReallocAligned _ p _ _ | CRezallocAligned _ p _ _ | CReallocarray p _ _ | CReallocarr _ p _ _
  | CFree p | CWrite p _ _ => p
  | _ => NULL
  end.

Definition call_size (c : call) : N :=
  match c with
  | CMalloc _ s | CZalloc _ s | CRealloc _ _ s | CReallocf _ _ s | CRezalloc _ _ s | CExpand _ s
  | CMallocAlignedAt _ s _ _ | CZallocAlignedAt _ s _ _ | CReallocAlignedAt _ _ s _ _ | CRezallocAlignedAt _ _ s _ _
  | CReallocAligned _ _ s _ | CRezallocAligned _ _ s _ | CPosixMemalign _ _ s | CMemalign _ s | CValloc s
  | CAlignedAlloc _ s => s
  | CCalloc _ c s | CMallocn _ c s | CReallocn _ _ c s | CRecalloc _ _ c s | CCallocAlignedAt _ c s _ _
  | CRecallocAlignedAt _ _ c s _ _ | CReallocarray _ c s | CReallocarr _ _ c s => total c s
  | CPvalloc s => align_up s os_page_size_default
  | CFree _ | CWrite _ _ _ => 0
  end.

Definition call_overflows (c : call) : bool :=
  match c with
  | CCalloc _ c s | CMallocn _ c s | CReallocn _ _ c s | CRecalloc _ _ c s | CCallocAlignedAt _ c s _ _
  | CRecallocAlignedAt _ _ c s _ _ | CReallocarray _ c s | CReallocarr _ _ c s => overflows c s
  | _ => false
  end.

Definition call_zero (c : call) : bool :=
  match c with
  | CZalloc _ _ | CCalloc _ _ _ | CRezalloc _ _ _ | CRecalloc _ _ _ _ | CZallocAlignedAt _ _ _ _
  | CCallocAlignedAt _ _ _ _ _ | CRezallocAlignedAt _ _ _ _ _ | CRecallocAlignedAt _ _ _ _ _ _
  | CRezallocAligned _ _ _ _ => true
  | _ => false
  end.

(* (alignment, offset) of the aligned entry points *)
Definition call_alignment (c : call) : option (N * N) :=
  match c with
  | CMallocAlignedAt _ _ a off | CZallocAlignedAt _ _ a off | CCallocAlignedAt _ _ _ a off
  | CReallocAlignedAt _ _ _ a off | CRezallocAlignedAt _ _ _ a off | CRecallocAlignedAt _ _ _ _ a off => Some (a, off)
  | CReallocAligned _ p _ a | CRezallocAligned _ p _ a => Some (a, p mod a)
  | CPosixMemalign _ a _ | CMemalign a _ | CAlignedAlloc a _ => Some (a, 0)
  | CValloc _ | CPvalloc _ => Some (os_page_size_default, 0)
  | _ => None
  end.

Definition is_realloc_aligned (c : call) : bool :=
  match c with
  | CReallocAlignedAt _ _ _ _ _ | CRezallocAlignedAt _ _ _ _ _ | CRecallocAlignedAt _ _ _ _ _ _
  | CReallocAligned _ _ _ _ | CRezallocAligned _ _ _ _ => true
  | _ => false
  end.

(* all numeric arguments are 64-bit values *)
Definition args_ok (c : call) : Prop :=
  match c with
  | CMalloc _ s | CZalloc _ s | CValloc s | CPvalloc s => s < W64
  | CCalloc _ c s | CMallocn _ c s => c < W64 /\ s < W64
  | CRealloc _ p n | CReallocf _ p n | CRezalloc _ p n | CExpand p n => p < W64 /\ n < W64
  | CReallocn _ p c s | CRecalloc _ p c s | CReallocarray p c s | CReallocarr _ p c s => p < W64 /\ c < W64 /\ s < W64
  | CMallocAlignedAt _ s a off | CZallocAlignedAt _ s a off => s < W64 /\ a < W64 /\ off < W64
  | CCallocAlignedAt _ c s a off => c < W64 /\ s < W64 /\ a < W64 /\ off < W64
  | CReallocAlignedAt _ p n a off | CRezallocAlignedAt _ p n a off => p < W64 /\ n < W64 /\ a < W64 /\ off < W64
  | CRecallocAlignedAt _ p c s a off => p < W64 /\ c < W64 /\ s < W64 /\ a < W64 /\ off < W64
  | CReallocAligned _ p n a | CRezallocAligned _ p n a => p < W64 /\ n < W64 /\ a < W64
  | CPosixMemalign _ a s | CMemalign a s | CAlignedAlloc a s => a < W64 /\ s < W64
  | CFree p => p < W64
  | CWrite p off v => p < W64 /\ off < W64
  end.

(* pointer arguments are NULL or live *)
Definition call_ptr_ok (st : state) (c : call) : Prop := call_ptr c = NULL \/ lookup st (call_ptr c) <> None.

(* the layer contract of the oracle answers consulted by the call *)
Definition call_ok (st : state) (c : call) (o : oracles) : Prop :=
  if call_overflows c then True
  else match call_alignment c with
       | None => answer_ok st (call_size c) (o_ans o)
       | Some (a, off) =>
           if is_realloc_aligned c && (a <=? MI_INTPTR_SIZE) then answer_ok st (call_size c) (o_ans o)
           else oracles_ok st (call_size c) a off o
       end.

Definition special_call (c : call) : bool :=
  match c with CFree _ | CWrite _ _ _ | CExpand _ _ => true | _ => false end.

Lemma total_lt c s : s < W64 -> total c s < W64.
Proof. intros H. destruct (cso_total_lt c s) as [L|L]; [exact L|contradiction]. Qed.

Lemma cso_split c s : count_size_overflow c s = (overflows c s, total c s).
Proof. unfold overflows, total. destruct (count_size_overflow c s); reflexivity. Qed.

Lemma ptr_outcome_none st heap p n zero : ptr_outcome st heap p n zero st None.
Proof. apply st_eq_refl. Qed.

Lemma mod_lt_W64 p a : p < W64 -> p mod a < W64.
Proof.
  intros H. destruct (N.eq_dec a 0) as [->|Ha].
  - destruct p; cbn; [rewrite W64_val; lia|assumption].
  - pose proof (N.mod_le p a Ha). lia.
Qed.

Lemma exec_outcome st c o st' r :
  wf st -> args_ok c -> call_ptr_ok st c -> call_ok st c o -> exec st c o = (st', r) ->
  if special_call c then
    match c with
    | CFree p => st' = free st p
    | CWrite p off v => st' = write st p off v
    | _ => st' = st
    end
  else
    (call_failed c r = true -> r_ptr r = None) /\
    ((exists h p n, c = CReallocf h p n /\ r_ptr r = None /\ st' = free st p) \/
     ptr_outcome st (call_heap c) (call_ptr c) (call_size c) (call_zero c) st' (r_ptr r)).
Proof.
  intros W AO PO OK H. unfold call_ptr_ok in PO. unfold call_ok in OK.
  assert (Fail : forall (x : option N), match x with None => true | Some _ => false end = true -> x = None).
  { intros [q|]; [discriminate|reflexivity]. }
  assert (Z0 : 0 < W64) by (rewrite W64_val; lia).
  assert (ZP : os_page_size_default < W64) by (rewrite W64_val; unfold os_page_size_default; lia).
  destruct c; cbn [special_call call_failed call_heap call_ptr call_size call_zero call_overflows
                   call_alignment is_realloc_aligned args_ok andb] in *;
    unfold exec in H; cbv beta iota zeta in H.
  - (* malloc *) destruct (heap_malloc _ _ _ _) as [s1 r1] eqn:E. injection H as <- <-. cbn [fst snd res_ptr r_ptr].
    split; [apply Fail|right]. eapply malloc_outcome; eassumption.
  - (* zalloc *) destruct (heap_zalloc _ _ _ _) as [s1 r1] eqn:E. injection H as <- <-. cbn [fst snd res_ptr r_ptr].
    split; [apply Fail|right]. eapply malloc_outcome; eassumption.
  - (* calloc *) destruct (heap_calloc _ _ _ _ _) as [s1 r1] eqn:E. injection H as <- <-. cbn [fst snd res_ptr r_ptr].
    split; [apply Fail|right]. unfold heap_calloc in E. rewrite cso_split in E.
    destruct (overflows count size); [injection E as <- <-; apply ptr_outcome_none|].
    eapply malloc_outcome; eassumption.
  - (* mallocn *) destruct (heap_mallocn _ _ _ _ _) as [s1 r1] eqn:E. injection H as <- <-. cbn [fst snd res_ptr r_ptr].
    split; [apply Fail|right]. unfold heap_mallocn in E. rewrite cso_split in E.
    destruct (overflows count size); [injection E as <- <-; apply ptr_outcome_none|].
    eapply malloc_outcome; eassumption.
  - (* realloc *) destruct (heap_realloc _ _ _ _ _) as [s1 r1] eqn:E. injection H as <- <-. cbn [fst snd res_ptr r_ptr].
    split; [apply Fail|right]. destruct AO as (_ & AO). exact (realloc_outcome _ _ _ _ _ _ _ _ W AO OK PO E).
  - (* reallocn *) destruct (heap_reallocn _ _ _ _ _ _) as [s1 r1] eqn:E. injection H as <- <-. cbn [fst snd res_ptr r_ptr].
    split; [apply Fail|right]. unfold heap_reallocn in E. rewrite cso_split in E. destruct AO as (_ & _ & AO).
    destruct (overflows count size); [injection E as <- <-; apply ptr_outcome_none|].
    exact (realloc_outcome _ _ _ _ _ _ _ _ W (total_lt _ _ AO) OK PO E).
  - (* reallocf *) destruct (heap_reallocf _ _ _ _ _) as [s1 r1] eqn:E. injection H as <- <-. cbn [fst snd res_ptr r_ptr].
    split; [apply Fail|]. destruct AO as (_ & AO). destruct r1 as [q|].
    + right. apply reallocf_frees_on_fail in E. exact (realloc_outcome _ _ _ _ _ _ _ _ W AO OK PO E).
    + left. exists heap, p, newsize. split; [reflexivity|]. split; [reflexivity|].
      apply reallocf_frees_on_fail in E. exact E.
  - (* rezalloc *) destruct (heap_rezalloc _ _ _ _ _) as [s1 r1] eqn:E. injection H as <- <-. cbn [fst snd res_ptr r_ptr].
    split; [apply Fail|right]. destruct AO as (_ & AO). exact (realloc_outcome _ _ _ _ _ _ _ _ W AO OK PO E).
  - (* recalloc *) destruct (heap_recalloc _ _ _ _ _ _) as [s1 r1] eqn:E. injection H as <- <-. cbn [fst snd res_ptr r_ptr].
    split; [apply Fail|right]. unfold heap_recalloc in E. rewrite cso_split in E. destruct AO as (_ & _ & AO).
    destruct (overflows count size); [injection E as <- <-; apply ptr_outcome_none|].
    exact (realloc_outcome _ _ _ _ _ _ _ _ W (total_lt _ _ AO) OK PO E).
  - (* expand *) injection H as <- _. reflexivity.
  - (* malloc_aligned_at *)
    destruct (heap_malloc_zero_aligned_at _ _ _ _ _ _ _) as [[s1 r1] path] eqn:E. injection H as <- <-. cbn [fst snd res_ptr r_ptr].
    split; [apply Fail|right]. destruct AO as (A1 & A2 & A3). exact (aligned_outcome _ _ _ _ _ _ _ _ _ _ W A1 A2 A3 OK E).
  - (* zalloc_aligned_at *)
    destruct (heap_malloc_zero_aligned_at _ _ _ _ _ _ _) as [[s1 r1] path] eqn:E. injection H as <- <-. cbn [fst snd res_ptr r_ptr].
    split; [apply Fail|right]. destruct AO as (A1 & A2 & A3). exact (aligned_outcome _ _ _ _ _ _ _ _ _ _ W A1 A2 A3 OK E).
  - (* calloc_aligned_at *)
    destruct (heap_calloc_aligned_at _ _ _ _ _ _ _) as [[s1 r1] path] eqn:E. injection H as <- <-. cbn [fst snd res_ptr r_ptr].
    split; [apply Fail|right]. unfold heap_calloc_aligned_at in E. rewrite cso_split in E. destruct AO as (_ & A1 & A2 & A3).
    destruct (overflows count size); [injection E as <- <- _; apply ptr_outcome_none|].
    exact (aligned_outcome _ _ _ _ _ _ _ _ _ _ W (total_lt _ _ A1) A2 A3 OK E).
  - (* realloc_aligned_at *)
    destruct (realloc_zero_aligned_at _ _ _ _ _ _ _ _) as [s1 r1] eqn:E. injection H as <- <-. cbn [fst snd res_ptr r_ptr].
    split; [apply Fail|right]. destruct AO as (_ & A1 & A2 & A3).
    exact (realloc_aligned_outcome _ _ _ _ _ _ _ _ _ _ W A1 A2 A3 PO OK E).
  - (* rezalloc_aligned_at *)
    destruct (realloc_zero_aligned_at _ _ _ _ _ _ _ _) as [s1 r1] eqn:E. injection H as <- <-. cbn [fst snd res_ptr r_ptr].
    split; [apply Fail|right]. destruct AO as (_ & A1 & A2 & A3).
    exact (realloc_aligned_outcome _ _ _ _ _ _ _ _ _ _ W A1 A2 A3 PO OK E).
  - (* recalloc_aligned_at *)
    destruct (heap_recalloc_aligned_at _ _ _ _ _ _ _ _) as [s1 r1] eqn:E. injection H as <- <-. cbn [fst snd res_ptr r_ptr].
    split; [apply Fail|right]. unfold heap_recalloc_aligned_at in E. rewrite cso_split in E.
    destruct AO as (_ & _ & A1 & A2 & A3).
    destruct (overflows count size); [injection E as <- <-; apply ptr_outcome_none|].
    exact (realloc_aligned_outcome _ _ _ _ _ _ _ _ _ _ W (total_lt _ _ A1) A2 A3 PO OK E).
  - (* realloc_aligned *)
    destruct (realloc_zero_aligned _ _ _ _ _ _ _) as [s1 r1] eqn:E. injection H as <- <-. cbn [fst snd res_ptr r_ptr].
    split; [apply Fail|right]. destruct AO as (A0 & A1 & A2). unfold realloc_zero_aligned in E.
    destruct (alignment <=? MI_INTPTR_SIZE) eqn:Ea.
    + exact (realloc_outcome _ _ _ _ _ _ _ _ W A1 OK PO E).
    + assert (OK' : if alignment <=? MI_INTPTR_SIZE then answer_ok st newsize (o_ans o)
                    else oracles_ok st newsize alignment (p mod alignment) o) by (rewrite Ea; exact OK).
      exact (realloc_aligned_outcome _ _ _ _ _ _ _ _ _ _ W A1 A2 (mod_lt_W64 _ _ A0) PO OK' E).
  - (* rezalloc_aligned *)
    destruct (realloc_zero_aligned _ _ _ _ _ _ _) as [s1 r1] eqn:E. injection H as <- <-. cbn [fst snd res_ptr r_ptr].
    split; [apply Fail|right]. destruct AO as (A0 & A1 & A2). unfold realloc_zero_aligned in E.
    destruct (alignment <=? MI_INTPTR_SIZE) eqn:Ea.
    + exact (realloc_outcome _ _ _ _ _ _ _ _ W A1 OK PO E).
    + assert (OK' : if alignment <=? MI_INTPTR_SIZE then answer_ok st newsize (o_ans o)
                    else oracles_ok st newsize alignment (p mod alignment) o) by (rewrite Ea; exact OK).
      exact (realloc_aligned_outcome _ _ _ _ _ _ _ _ _ _ W A1 A2 (mod_lt_W64 _ _ A0) PO OK' E).
  - (* posix_memalign *)
    destruct (posix_memalign _ _ _ _ _) as [[s1 rc] out] eqn:E. injection H as <- <-. cbn [r_ptr r_rc].
    unfold posix_memalign in E. destruct AO as (A1 & A2).
    assert (Z : (0 <? W64) = true) by reflexivity.
    destruct p_null; [injection E as <- <- <-; split; [reflexivity|right; apply ptr_outcome_none]|].
    destruct (negb (alignment mod MI_INTPTR_SIZE =? 0)); [injection E as <- <- <-; split; [reflexivity|right; apply ptr_outcome_none]|].
    destruct ((alignment =? 0) || negb (is_power_of_two alignment)); [injection E as <- <- <-; split; [reflexivity|right; apply ptr_outcome_none]|].
    unfold malloc_aligned in E.
    destruct (heap_malloc_zero_aligned_at st 0 size alignment 0 false o) as [[s2 r2] path] eqn:EA. cbn [fst] in E.
    pose proof (aligned_outcome _ _ _ _ _ _ _ _ _ _ W A2 A1 Z0 OK EA) as P.
    destruct r2 as [q|].
    + injection E as <- <- <-. split; [discriminate|right; exact P].
    + destruct (negb (size =? 0)); injection E as <- <- <-; (split; [reflexivity|right; exact P]).
  - (* memalign *)
    unfold memalign, malloc_aligned in H.
    destruct (heap_malloc_zero_aligned_at _ _ _ _ _ _ _) as [[s1 r1] path] eqn:E. injection H as <- <-. cbn [fst snd res_ptr r_ptr].
    split; [apply Fail|right]. destruct AO as (A1 & A2).
    exact (aligned_outcome _ _ _ _ _ _ _ _ _ _ W A2 A1 Z0 OK E).
  - (* valloc *)
    unfold valloc, memalign, malloc_aligned in H.
    destruct (heap_malloc_zero_aligned_at _ _ _ _ _ _ _) as [[s1 r1] path] eqn:E. injection H as <- <-. cbn [fst snd res_ptr r_ptr].
    split; [apply Fail|right].
    exact (aligned_outcome _ _ _ _ _ _ _ _ _ _ W AO ZP Z0 OK E).
  - (* pvalloc *)
    unfold pvalloc in H. destruct (SIZE_MAX_ - os_page_size_default <=? size) eqn:Ov.
    + injection H as <- <-. cbn [fst snd res_ptr r_ptr]. split; [reflexivity|right; apply ptr_outcome_none].
    + unfold malloc_aligned in H.
      destruct (heap_malloc_zero_aligned_at _ _ _ _ _ _ _) as [[s1 r1] path] eqn:E. injection H as <- <-. cbn [fst snd res_ptr r_ptr].
      split; [apply Fail|right]. apply N.leb_gt in Ov.
      assert (AL : align_up size os_page_size_default < W64).
      { pose proof (align_up_props size os_page_size_default) as P. unfold os_page_size_default, SIZE_MAX_ in *.
        rewrite W64_val in *. destruct P as (_ & P & _); lia. }
      exact (aligned_outcome _ _ _ _ _ _ _ _ _ _ W AL ZP Z0 OK E).
  - (* aligned_alloc *)
    unfold aligned_alloc, malloc_aligned in H.
    destruct (heap_malloc_zero_aligned_at _ _ _ _ _ _ _) as [[s1 r1] path] eqn:E. injection H as <- <-. cbn [fst snd res_ptr r_ptr].
    split; [apply Fail|right]. destruct AO as (A1 & A2).
    exact (aligned_outcome _ _ _ _ _ _ _ _ _ _ W A2 A1 Z0 OK E).
  - (* reallocarray *)
    destruct (reallocarray _ _ _ _ _) as [[s1 r1] e] eqn:E. injection H as <- <-. cbn [r_ptr].
    split; [apply Fail|right]. unfold reallocarray in E.
    destruct (heap_reallocn st 0 p count size (o_ans o)) as [s2 r2] eqn:E2.
    assert (P : ptr_outcome st 0 p (total count size) false s2 r2).
    { unfold heap_reallocn in E2. rewrite cso_split in E2. destruct AO as (_ & _ & AO).
      destruct (overflows count size); [injection E2 as <- <-; apply ptr_outcome_none|].
      exact (realloc_outcome _ _ _ _ _ _ _ _ W (total_lt _ _ AO) OK PO E2). }
    destruct r2; injection E as <- <- _; exact P.
  - (* reallocarr *)
    destruct (reallocarr _ _ _ _ _ _) as [[[s1 rc] op'] e] eqn:E. injection H as <- <-. cbn [r_ptr r_rc].
    unfold reallocarr in E.
    destruct p_null; [injection E as <- <- <- <-; split; [reflexivity|right; apply ptr_outcome_none]|].
    unfold reallocarray in E.
    destruct (heap_reallocn st 0 op count size (o_ans o)) as [s2 r2] eqn:E2.
    assert (P : ptr_outcome st 0 op (total count size) false s2 r2).
    { unfold heap_reallocn in E2. rewrite cso_split in E2. destruct AO as (_ & _ & AO).
      destruct (overflows count size); [injection E2 as <- <-; apply ptr_outcome_none|].
      exact (realloc_outcome _ _ _ _ _ _ _ _ W (total_lt _ _ AO) OK PO E2). }
    destruct r2 as [q|]; injection E as <- <- <- <-.
    + cbn [N.eqb]. split; [discriminate|right; exact P].
    + change (ENOMEM_ =? 0) with false. cbv iota. split; [reflexivity|right; exact P].
  - (* free *) injection H as <- _. reflexivity.
  - (* write *) injection H as <- _. reflexivity.
Qed.

(* ---- consequences: representation invariant, frame, failing calls ---- *)

Lemma wf_free st p : wf st -> wf (free st p).
Proof.
  intros W x b. rewrite lookup_free. destruct (negb (p =? NULL) && (p =? x)); [discriminate|apply W].
Qed.

Lemma wf_update st p f :
  wf st -> (forall b, lookup st p = Some b -> block_ok p b -> block_ok p (f b)) -> wf (update st p f).
Proof.
  intros W Hf x b. rewrite lookup_update. destruct (p =? x) eqn:E; [|apply W].
  apply N.eqb_eq in E. subst x. destruct (lookup st p) as [b0|] eqn:Hb; [|discriminate].
  cbn [option_map]. intros H. injection H as <-. apply Hf; [reflexivity|]. apply W. exact Hb.
Qed.

Lemma wf_write st p off v : wf st -> wf (write st p off v).
Proof.
  intros W. unfold write. destruct (lookup st p) as [b|] eqn:Hb; [|exact W].
  destruct (write_allowed b off); [|exact W].
  apply wf_update; [exact W|]. intros b0 _ Ok. unfold block_ok in *.
  cbn [set_bytes b_usable b_bytes b_req b_adjust]. rewrite blen_set_byte. exact Ok.
Qed.

Lemma ptr_outcome_wf st heap p n zero st' r : wf st -> ptr_outcome st heap p n zero st' r -> wf st'.
Proof.
  intros W P. destruct r as [q|]; cbn [ptr_outcome] in P.
  - destruct P as [(_ & Hp & b & Hb & Hn & ->)|[(fbr & blk & _ & M)|(_ & blk & R)]].
    + apply wf_update; [exact W|]. intros b0 Hb0 Ok. rewrite Hb in Hb0. injection Hb0 as <-.
      unfold block_ok in *. cbn [set_req b_usable b_bytes b_req b_adjust]. repeat split; try apply Ok. exact Hn.
    + eapply moved_wf; eassumption.
    + eapply alloc_result_wf; eassumption.
  - eapply wf_st_eq; [|exact W]. intros x. symmetry. apply P.
Qed.

Lemma exec_wf st c o st' r :
  wf st -> args_ok c -> call_ptr_ok st c -> call_ok st c o -> exec st c o = (st', r) -> wf st'.
Proof.
  intros W AO PO OK H. pose proof (exec_outcome _ _ _ _ _ W AO PO OK H) as X.
  destruct (special_call c) eqn:S.
  - destruct c; try discriminate; subst st'; [exact W|apply wf_free; exact W|apply wf_write; exact W].
  - destruct X as (_ & [(h & p & n & _ & _ & ->)|P]); [apply wf_free; exact W|].
    eapply ptr_outcome_wf; eassumption.
Qed.

(* frame: a pointer-returning call changes at most the entry of its argument and of its result *)
Lemma ptr_outcome_frame st heap p n zero st' r x :
  ptr_outcome st heap p n zero st' r -> x <> p -> r <> Some x -> lookup st' x = lookup st x.
Proof.
  intros P H1 H2. destruct r as [q|]; cbn [ptr_outcome] in P; [|apply P].
  assert (Hq : x <> q) by (intros ->; apply H2; reflexivity).
  destruct P as [(_ & Hp & b & Hb & Hn & ->)|[(fbr & blk & _ & M)|(_ & blk & R)]].
  - rewrite lookup_set_req. assert (F : (p =? x) = false) by (apply N.eqb_neq; intros ->; apply H1; reflexivity).
    rewrite F. reflexivity.
  - eapply moved_lookup_other; eassumption.
  - destruct R as (E & _). rewrite E, lookup_add.
    assert (F : (q =? x) = false) by (apply N.eqb_neq; intros ->; apply Hq; reflexivity). rewrite F. reflexivity.
Qed.

(* C06: a failing call leaves every live block and its contents unchanged (mi_reallocf: frees p) *)
Lemma failed_call_state_unchanged st c o st' r :
  wf st -> args_ok c -> call_ptr_ok st c -> call_ok st c o -> exec st c o = (st', r) ->
  call_failed c r = true ->
  match c with
  | CReallocf _ p _ => st' = free st p
  | _ => st_eq st' st
  end.
Proof.
  intros W AO PO OK H F. pose proof (exec_outcome _ _ _ _ _ W AO PO OK H) as X.
  destruct (special_call c) eqn:S.
  - destruct c; try discriminate; subst st'. apply st_eq_refl.
  - destruct X as (Fp & X). specialize (Fp F). rewrite Fp in X. cbn [ptr_outcome] in X.
    destruct X as [(h & p & n & -> & _ & ->)|X]; [reflexivity|].
    destruct c; try exact X; try discriminate.
    (* reallocf that failed: the general description says "unchanged"; it is also `free st p` *)
    unfold exec in H. cbv beta iota zeta in H.
    destruct (heap_reallocf st heap p newsize (o_ans o)) as [s1 r1] eqn:E. injection H as <- <-.
    cbn [res_ptr r_ptr] in Fp. subst r1. apply reallocf_frees_on_fail in E. exact E.
Qed.

(* ------------------------------------------------------------------------------------- *)
(* H. zero-initialisation (C04)                                                             *)
(* ------------------------------------------------------------------------------------- *)

(* the invariant behind the growth guarantee: the slack of a zero-family block is zero *)
Definition zinv (st : state) : Prop :=
  forall q b, lookup st q = Some b -> b_zero b = true -> forall i, b_req b <= i -> byte_at (b_bytes b) i = 0.

Lemma zinv_nil : zinv [].
Proof. intros q b H. discriminate. Qed.

Lemma zinv_st_eq s1 s2 : st_eq s1 s2 -> zinv s1 -> zinv s2.
Proof. intros E Z q b H Hz i Hi. eapply Z; [|exact Hz|exact Hi]. rewrite E. exact H. Qed.

Lemma byte_at_set_byte_other off v l i : i <> off -> byte_at (set_byte off v l) i = byte_at l i.
Proof.
  intros H. destruct (N.lt_ge_cases i (blen l)) as [Hl|Hl].
  - rewrite byte_at_set_byte by assumption. assert (F : (i =? off) = false) by (apply N.eqb_neq; assumption).
    rewrite F. reflexivity.
  - rewrite !byte_at_out; [reflexivity|assumption|rewrite blen_set_byte; assumption].
Qed.

Lemma zinv_free st p : zinv st -> zinv (free st p).
Proof.
  intros Z x b. rewrite lookup_free. destruct (negb (p =? NULL) && (p =? x)); [discriminate|apply Z].
Qed.

Lemma zinv_write st p off v : zinv st -> zinv (write st p off v).
Proof.
  intros Z. unfold write. destruct (lookup st p) as [b|] eqn:Hb; [|exact Z].
  destruct (write_allowed b off) eqn:Wa; [|exact Z].
  intros x b'. rewrite lookup_update. destruct (p =? x) eqn:E; [|apply Z].
  apply N.eqb_eq in E. subst x. rewrite Hb. cbn [option_map]. intros H. injection H as <-.
  cbn [set_bytes b_zero b_req b_bytes]. intros Hz i Hi.
  unfold write_allowed in Wa. rewrite Hz in Wa. apply N.ltb_lt in Wa.
  rewrite byte_at_set_byte_other by lia. eapply Z; eassumption.
Qed.

Lemma ptr_outcome_zinv st heap p n zero st' r : zinv st -> ptr_outcome st heap p n zero st' r -> zinv st'.
Proof.
  intros Z P. destruct r as [q|]; cbn [ptr_outcome] in P.
  - destruct P as [(_ & Hp & b & Hb & Hn & ->)|[(fbr & blk & _ & M)|(_ & blk & R)]].
    + intros x b'. rewrite lookup_set_req. destruct (p =? x) eqn:E; [|apply Z].
      apply N.eqb_eq in E. subst x. rewrite Hb. cbn [option_map]. intros H. injection H as <-.
      cbn [set_req b_zero b_req b_bytes]. intros Hz i Hi. apply andb_prop in Hz as (Hz1 & Hz2).
      apply N.leb_le in Hz2. eapply Z; [exact Hb|exact Hz1|lia].
    + destruct M as (Hne & Fr & Ok & Fit & Rq & Rz & Rh & Zb & L).
      intros x b'. rewrite L. destruct (negb (p =? NULL) && (p =? x)); [discriminate|].
      destruct (q =? x); [|apply Z]. intros H. injection H as <-.
      cbn [set_bytes b_zero b_req b_bytes]. intros Hz i Hi. rewrite Rz in Hz. rewrite Rq in Hi.
      apply byte_at_finish_zero; [apply Zb; assumption|]. intros _ C. lia.
    + destruct R as (E & Fr & Ok & Fit & Rq & Rz & Rh & Zb).
      intros x b'. rewrite E, lookup_add. destruct (q =? x); [|apply Z]. intros H. injection H as <-.
      intros Hz i _. rewrite Rz in Hz. apply Zb. assumption.
  - eapply zinv_st_eq; [|exact Z]. intros x. symmetry. apply P.
Qed.

(* zero_family_inv: every operation preserves the invariant *)
Lemma exec_zinv st c o st' r :
  wf st -> zinv st -> args_ok c -> call_ptr_ok st c -> call_ok st c o -> exec st c o = (st', r) -> zinv st'.
Proof.
  intros W Z AO PO OK H. pose proof (exec_outcome _ _ _ _ _ W AO PO OK H) as X.
  destruct (special_call c) eqn:S.
  - destruct c; try discriminate; subst st'; [exact Z|apply zinv_free; exact Z|apply zinv_write; exact Z].
  - destruct X as (_ & [(h & p & n & _ & _ & ->)|P]); [apply zinv_free; exact Z|].
    eapply ptr_outcome_zinv; eassumption.
Qed.

(* zalloc_zero: a zeroing allocation (any entry point, p = NULL) returns a block that is zero over
   its whole usable size, whatever bytes the lower layers handed out *)
Lemma zalloc_zero st c o st' r q :
  wf st -> args_ok c -> call_ok st c o -> call_zero c = true -> call_ptr c = NULL ->
  exec st c o = (st', r) -> r_ptr r = Some q ->
  exists b, lookup st' q = Some b /\ b_req b = call_size c /\ call_size c <= b_usable b /\
            b_zero b = true /\ blen (b_bytes b) = b_usable b /\ forall i, byte_at (b_bytes b) i = 0.
Proof.
  intros W AO OK Hz Hp H Hr.
  assert (PO : call_ptr_ok st c) by (left; exact Hp).
  pose proof (exec_outcome _ _ _ _ _ W AO PO OK H) as X.
  destruct (special_call c) eqn:S; [destruct c; discriminate|].
  destruct X as (_ & [(h & p & n & -> & _)|P]); [discriminate|].
  rewrite Hr, Hp, Hz in P. cbn [ptr_outcome] in P.
  destruct P as [(_ & C & _)|[(fbr & blk & _ & M)|(_ & blk & R)]]; [contradiction| |].
  - pose proof (moved_lookup_new _ _ _ _ _ _ _ _ _ _ M) as L.
    destruct M as (Hne & Fr & Ok & Fit & Rq & Rz & Rh & Zb & _).
    eexists. split; [exact L|]. cbn [set_bytes b_req b_usable b_zero b_bytes]. rewrite blen_finish_bytes.
    destruct Ok as (Ok1 & _). repeat split; try assumption.
    intros i. apply byte_at_finish_zero; [apply Zb; reflexivity|]. intros C; exfalso; apply C; reflexivity.
  - destruct R as (E & Fr & Ok & Fit & Rq & Rz & Rh & Zb).
    exists blk. rewrite E, lookup_add, N.eqb_refl. destruct Ok as (Ok1 & _).
    repeat split; try assumption. apply Zb. reflexivity.
Qed.

(* monotone growth chains of a zero-initialised block *)
Inductive zchain : state -> N -> N -> Prop :=
| zc_start st c o st' r p :
    wf st -> zinv st -> args_ok c -> call_ok st c o -> call_zero c = true -> call_ptr c = NULL ->
    exec st c o = (st', r) -> r_ptr r = Some p -> zchain st' p (call_size c)
| zc_write st p n off v :
    zchain st p n -> zchain (write st p off v) p n
| zc_other st p n c o st' r :
    zchain st p n -> args_ok c -> call_ptr_ok st c -> call_ok st c o -> call_ptr c <> p ->
    exec st c o = (st', r) -> zchain st' p n
| zc_grow st p n c o st' r p' :
    zchain st p n -> args_ok c -> call_ok st c o -> call_zero c = true -> call_ptr c = p ->
    n <= call_size c -> exec st c o = (st', r) -> r_ptr r = Some p' -> zchain st' p' (call_size c).

Definition zlive (st : state) (p n : N) : Prop :=
  wf st /\ zinv st /\ exists b, lookup st p = Some b /\ b_zero b = true /\ b_req b = n.

Lemma ptr_outcome_result st heap p n zero st' q :
  ptr_outcome st heap p n zero st' (Some q) -> q = p \/ lookup st q = None.
Proof.
  cbn [ptr_outcome]. intros [(E & _)|[(fbr & blk & _ & M)|(_ & blk & R)]]; [left; exact E| |].
  - right. apply M.
  - right. apply R.
Qed.

(* one growth step from a live zero-family block *)
Lemma grow_step st p n c o st' r p' :
  zlive st p n -> args_ok c -> call_ok st c o -> call_zero c = true -> call_ptr c = p ->
  n <= call_size c -> exec st c o = (st', r) -> r_ptr r = Some p' ->
  zlive st' p' (call_size c) /\
  exists b', lookup st' p' = Some b' /\ forall i, n <= i -> byte_at (b_bytes b') i = 0.
Proof.
  intros (W & Z & b & Hb & Hz & Hr) AO OK Cz Cp Hn H Hres.
  assert (PO : call_ptr_ok st c) by (right; rewrite Cp, Hb; discriminate).
  pose proof (exec_wf _ _ _ _ _ W AO PO OK H) as W'.
  pose proof (exec_zinv _ _ _ _ _ W Z AO PO OK H) as Z'.
  pose proof (exec_outcome _ _ _ _ _ W AO PO OK H) as X.
  pose proof (wf_live_nonnull _ _ _ W Hb) as Hpn.
  destruct (special_call c) eqn:S; [destruct c; discriminate|].
  destruct X as (_ & [(h & p0 & n0 & -> & _)|P]); [discriminate|].
  rewrite Hres, Cp, Cz in P. cbn [ptr_outcome] in P.
  destruct P as [(-> & _ & b0 & Hb0 & Hfit & ->)|[(fbr & blk & _ & M)|(C & _)]]; [| |contradiction].
  - (* in place *)
    rewrite Hb in Hb0. injection Hb0 as <-.
    assert (L : lookup (update st p (set_req (call_size c))) p = Some (set_req (call_size c) b)).
    { rewrite lookup_set_req, N.eqb_refl, Hb. reflexivity. }
    assert (Fz : b_zero (set_req (call_size c) b) = true).
    { cbn [set_req b_zero]. rewrite Hz, Hr. apply N.leb_le in Hn. rewrite Hn. reflexivity. }
    split.
    + split; [exact W'|]. split; [exact Z'|]. eexists. split; [exact L|]. split; [exact Fz|reflexivity].
    + eexists. split; [exact L|]. intros i Hi. cbn [set_req b_bytes]. eapply Z; [exact Hb|exact Hz|lia].
  - (* moved *)
    pose proof (moved_lookup_new _ _ _ _ _ _ _ _ _ _ M) as L.
    destruct M as (Hne & Fr & Ok & Fit & Rq & Rz & Rh & Zb & _).
    split.
    + split; [exact W'|]. split; [exact Z'|]. eexists. split; [exact L|].
      cbn [set_bytes b_zero b_req]. split; assumption.
    + eexists. split; [exact L|]. intros i Hi. cbn [set_bytes b_bytes].
      apply byte_at_finish_zero; [apply Zb; reflexivity|]. intros _ _.
      unfold bytes_of. rewrite Hb. eapply Z; [exact Hb|exact Hz|lia].
Qed.

Lemma zchain_live st p n : zchain st p n -> zlive st p n.
Proof.
  induction 1 as [st c o st' r p W Z AO OK Cz Cp H Hr
                 |st p n off v _ IH
                 |st p n c o st' r _ IH AO PO OK Cp H
                 |st p n c o st' r p' _ IH AO OK Cz Cp Hn H Hr].
  - assert (PO : call_ptr_ok st c) by (left; exact Cp).
    split; [eapply exec_wf; eassumption|]. split; [eapply exec_zinv; eassumption|].
    destruct (zalloc_zero _ _ _ _ _ _ W AO OK Cz Cp H Hr) as (b & L & Rq & _ & Rz & _).
    exists b. repeat split; assumption.
  - destruct IH as (W & Z & b & Hb & Hz & Hr).
    split; [apply wf_write; exact W|]. split; [apply zinv_write; exact Z|].
    unfold write. rewrite Hb. destruct (write_allowed b off); [|exists b; repeat split; assumption].
    rewrite lookup_update, N.eqb_refl, Hb. cbn [option_map]. eexists. split; [reflexivity|].
    cbn [set_bytes b_zero b_req]. split; assumption.
  - destruct IH as (W & Z & b & Hb & Hz & Hr).
    split; [eapply exec_wf; eassumption|]. split; [eapply exec_zinv; eassumption|].
    exists b. split; [|split; assumption]. rewrite <- Hb.
    pose proof (exec_outcome _ _ _ _ _ W AO PO OK H) as X.
    assert (Cp' : p <> call_ptr c) by (intros E; apply Cp; symmetry; exact E).
    destruct (special_call c) eqn:S.
    + destruct c; try discriminate; subst st'; cbn [call_ptr] in Cp, Cp'.
      * reflexivity.
      * rewrite lookup_free. assert (F : (p0 =? p) = false) by (apply N.eqb_neq; assumption).
        rewrite F, andb_false_r. reflexivity.
      * unfold write. destruct (lookup st p0) as [b0|]; [|reflexivity].
        destruct (write_allowed b0 off); [|reflexivity]. rewrite lookup_update.
        assert (F : (p0 =? p) = false) by (apply N.eqb_neq; assumption). rewrite F. reflexivity.
    + destruct X as (_ & [(h & p0 & n0 & -> & _ & ->)|P]).
      * cbn [call_ptr] in Cp. rewrite lookup_free.
        assert (F : (p0 =? p) = false) by (apply N.eqb_neq; assumption). rewrite F, andb_false_r. reflexivity.
      * eapply ptr_outcome_frame; [exact P|exact Cp'|].
        intros E. rewrite E in P. apply ptr_outcome_result in P as [P|P]; [apply Cp; symmetry; exact P|].
        rewrite Hb in P. discriminate.
  - eapply grow_step; eassumption.
Qed.

(* rezalloc_chain_zero: after every growth step of a chain, in place or moved, every byte from the
   previous requested size on (in particular up to the new requested size) is zero *)
Lemma rezalloc_chain_zero st p n c o st' r p' :
  zchain st p n -> args_ok c -> call_ok st c o -> call_zero c = true -> call_ptr c = p ->
  n <= call_size c -> exec st c o = (st', r) -> r_ptr r = Some p' ->
  exists b', lookup st' p' = Some b' /\ b_req b' = call_size c /\ call_size c <= b_usable b' /\
             forall i, n <= i -> byte_at (b_bytes b') i = 0.
Proof.
  intros Ch AO OK Cz Cp Hn H Hr. apply zchain_live in Ch.
  destruct (grow_step _ _ _ _ _ _ _ _ Ch AO OK Cz Cp Hn H Hr) as ((W' & _ & b1 & L1 & _ & Rq) & b' & L & Zb).
  exists b'. split; [exact L|]. rewrite L in L1. injection L1 as <-.
  split; [exact Rq|]. split; [|exact Zb]. destruct (W' _ _ L) as (_ & _ & Ok & _). lia.
Qed.

(* ------------------------------------------------------------------------------------- *)
(* I. C06 at the level of every entry point                                                 *)
(* ------------------------------------------------------------------------------------- *)

Lemma realloc_aligned_oversize st heap p n a off zero o :
  n < W64 -> MI_MAX_ALLOC_SIZE < n -> usable_size st p < n ->
  realloc_zero_aligned_at st heap p n a off zero o = (st, None).
Proof.
  intros H1 H2 H3. unfold realloc_zero_aligned_at.
  destruct (a <=? MI_INTPTR_SIZE); [apply realloc_zero_oversize; assumption|].
  rewrite aligned_oversize by assumption. cbn [fst].
  destruct (p =? NULL); [reflexivity|].
  assert (F : realloc_aligned_inplace_b (usable_size st p) n p a off = false).
  { unfold realloc_aligned_inplace_b. assert (G : (n <=? usable_size st p) = false) by (apply N.leb_gt; assumption).
    rewrite G. reflexivity. }
  rewrite F. reflexivity.
Qed.

Lemma MAX_lt_SIZE_MAX : MI_MAX_ALLOC_SIZE < SIZE_MAX_. Proof. reflexivity. Qed.
Lemma SIZE_MAX_lt_W64 : SIZE_MAX_ < W64. Proof. reflexivity. Qed.

(* oversize_fails: a request above MI_MAX_ALLOC_SIZE that is not already satisfied by the block itself
   fails, for every entry point; nothing changes (mi_reallocf frees p) *)
Lemma oversize_fails st c o st' r :
  args_ok c -> special_call c = false -> MI_MAX_ALLOC_SIZE < call_size c ->
  usable_size st (call_ptr c) < call_size c -> exec st c o = (st', r) ->
  call_failed c r = true /\ match c with CReallocf _ p _ => st' = free st p | _ => st' = st end.
Proof.
  intros AO S Hm Hu H.
  assert (CS : forall cnt s, s < W64 -> total cnt s < W64) by (intros; apply total_lt; assumption).
  destruct c; try discriminate;
    cbn [call_failed call_ptr call_size args_ok] in *; unfold exec in H; cbv beta iota zeta in H.
  - unfold heap_malloc in H. rewrite heap_malloc_zero_oversize in H by assumption. injection H as <- <-. split; reflexivity.
  - unfold heap_zalloc in H. rewrite heap_malloc_zero_oversize in H by assumption. injection H as <- <-. split; reflexivity.
  - unfold heap_calloc in H. rewrite cso_split in H. destruct AO as (_ & AO).
    destruct (overflows count size); [injection H as <- <-; split; reflexivity|].
    unfold heap_zalloc in H. rewrite heap_malloc_zero_oversize in H by auto. injection H as <- <-. split; reflexivity.
  - unfold heap_mallocn in H. rewrite cso_split in H. destruct AO as (_ & AO).
    destruct (overflows count size); [injection H as <- <-; split; reflexivity|].
    unfold heap_malloc in H. rewrite heap_malloc_zero_oversize in H by auto. injection H as <- <-. split; reflexivity.
  - unfold heap_realloc in H. destruct AO as (_ & AO). rewrite realloc_zero_oversize in H by assumption.
    injection H as <- <-. split; reflexivity.
  - unfold heap_reallocn in H. rewrite cso_split in H. destruct AO as (_ & _ & AO).
    destruct (overflows count size); [injection H as <- <-; split; reflexivity|].
    unfold heap_realloc in H. rewrite realloc_zero_oversize in H by auto. injection H as <- <-. split; reflexivity.
  - unfold heap_reallocf, heap_realloc in H. destruct AO as (_ & AO). rewrite realloc_zero_oversize in H by assumption.
    unfold free in *. destruct (p =? NULL); cbn [negb] in H; injection H as <- <-; split; reflexivity.
  - unfold heap_rezalloc in H. destruct AO as (_ & AO). rewrite realloc_zero_oversize in H by assumption.
    injection H as <- <-. split; reflexivity.
  - unfold heap_recalloc in H. rewrite cso_split in H. destruct AO as (_ & _ & AO).
    destruct (overflows count size); [injection H as <- <-; split; reflexivity|].
    unfold heap_rezalloc in H. rewrite realloc_zero_oversize in H by auto. injection H as <- <-. split; reflexivity.
  - destruct AO as (AO & _). rewrite aligned_oversize in H by assumption. injection H as <- <-. split; reflexivity.
  - destruct AO as (AO & _). rewrite aligned_oversize in H by assumption. injection H as <- <-. split; reflexivity.
  - unfold heap_calloc_aligned_at in H. rewrite cso_split in H. destruct AO as (_ & AO & _).
    destruct (overflows count size); [injection H as <- <-; split; reflexivity|].
    rewrite aligned_oversize in H by auto. injection H as <- <-. split; reflexivity.
  - destruct AO as (_ & AO & _). rewrite realloc_aligned_oversize in H by assumption. injection H as <- <-. split; reflexivity.
  - destruct AO as (_ & AO & _). rewrite realloc_aligned_oversize in H by assumption. injection H as <- <-. split; reflexivity.
  - unfold heap_recalloc_aligned_at in H. rewrite cso_split in H. destruct AO as (_ & _ & AO & _).
    destruct (overflows count size); [injection H as <- <-; split; reflexivity|].
    rewrite realloc_aligned_oversize in H by auto. injection H as <- <-. split; reflexivity.
  - unfold realloc_zero_aligned in H. destruct AO as (_ & AO & _).
    destruct (alignment <=? MI_INTPTR_SIZE);
      [rewrite realloc_zero_oversize in H by assumption|rewrite realloc_aligned_oversize in H by assumption];
      injection H as <- <-; split; reflexivity.
  - unfold realloc_zero_aligned in H. destruct AO as (_ & AO & _).
    destruct (alignment <=? MI_INTPTR_SIZE);
      [rewrite realloc_zero_oversize in H by assumption|rewrite realloc_aligned_oversize in H by assumption];
      injection H as <- <-; split; reflexivity.
  - unfold posix_memalign in H. destruct AO as (_ & AO).
    destruct p_null; [injection H as <- <-; split; reflexivity|].
    destruct (negb (alignment mod MI_INTPTR_SIZE =? 0)); [injection H as <- <-; split; reflexivity|].
    destruct ((alignment =? 0) || negb (is_power_of_two alignment)); [injection H as <- <-; split; reflexivity|].
    unfold malloc_aligned in H. rewrite aligned_oversize in H by assumption. cbn [fst] in H.
    assert (F : (size =? 0) = false) by (apply N.eqb_neq; unfold MI_MAX_ALLOC_SIZE in Hm; lia).
    rewrite F in H. cbn [negb] in H. injection H as <- <-. split; reflexivity.
  - unfold memalign, malloc_aligned in H. destruct AO as (_ & AO). rewrite aligned_oversize in H by assumption.
    injection H as <- <-. split; reflexivity.
  - unfold valloc, memalign, malloc_aligned in H. rewrite aligned_oversize in H by assumption.
    injection H as <- <-. split; reflexivity.
  - unfold pvalloc in H. destruct (SIZE_MAX_ - os_page_size_default <=? size) eqn:Ov;
      [injection H as <- <-; split; reflexivity|].
    apply N.leb_gt in Ov.
    assert (AL : align_up size os_page_size_default < W64).
    { pose proof (align_up_props size os_page_size_default) as P. unfold os_page_size_default, SIZE_MAX_ in *.
      rewrite W64_val in *. destruct P as (_ & P & _); lia. }
    unfold malloc_aligned in H. rewrite aligned_oversize in H by assumption. injection H as <- <-. split; reflexivity.
  - unfold aligned_alloc, malloc_aligned in H. destruct AO as (_ & AO). rewrite aligned_oversize in H by assumption.
    injection H as <- <-. split; reflexivity.
  - unfold reallocarray, heap_reallocn in H. rewrite cso_split in H. destruct AO as (_ & _ & AO).
    destruct (overflows count size); [injection H as <- <-; split; reflexivity|].
    unfold heap_realloc in H. rewrite realloc_zero_oversize in H by auto. injection H as <- <-. split; reflexivity.
  - unfold reallocarr in H. destruct p_null; [injection H as <- <-; split; reflexivity|].
    unfold reallocarray, heap_reallocn in H. rewrite cso_split in H. destruct AO as (_ & _ & AO).
    destruct (overflows count size); [injection H as <- <-; split; reflexivity|].
    unfold heap_realloc in H. rewrite realloc_zero_oversize in H by auto. injection H as <- <-. split; reflexivity.
Qed.

(* calloc_overflow_fails: count * size >= 2^64 *)
Lemma calloc_overflow_fails st c o st' r :
  call_overflows c = true -> exec st c o = (st', r) -> call_failed c r = true /\ st' = st.
Proof.
  intros Ov H.
  destruct c; try discriminate; cbn [call_overflows call_failed] in *; unfold exec in H; cbv beta iota zeta in H.
  - unfold heap_calloc in H. rewrite cso_split, Ov in H. injection H as <- <-. split; reflexivity.
  - unfold heap_mallocn in H. rewrite cso_split, Ov in H. injection H as <- <-. split; reflexivity.
  - unfold heap_reallocn in H. rewrite cso_split, Ov in H. injection H as <- <-. split; reflexivity.
  - unfold heap_recalloc in H. rewrite cso_split, Ov in H. injection H as <- <-. split; reflexivity.
  - unfold heap_calloc_aligned_at in H. rewrite cso_split, Ov in H. injection H as <- <-. split; reflexivity.
  - unfold heap_recalloc_aligned_at in H. rewrite cso_split, Ov in H. injection H as <- <-. split; reflexivity.
  - unfold reallocarray, heap_reallocn in H. rewrite cso_split, Ov in H. injection H as <- <-. split; reflexivity.
  - unfold reallocarr in H. destruct p_null; [injection H as <- <-; split; reflexivity|].
    unfold reallocarray, heap_reallocn in H. rewrite cso_split, Ov in H. injection H as <- <-. split; reflexivity.
Qed.

Lemma overflows_iff c s : c < W64 -> s < W64 -> (overflows c s = true <-> W64 <= c * s).
Proof. intros Hc Hs. unfold overflows. apply (mul_overflow_spec c s Hc Hs). Qed.

(* bad_alignment_fails *)
Lemma page_size_pow2 : (os_page_size_default =? 0) || negb (is_power_of_two os_page_size_default) = false.
Proof. vm_compute. reflexivity. Qed.

Lemma bad_alignment_fails st c o st' r a off :
  call_alignment c = Some (a, off) -> is_realloc_aligned c = false ->
  a = 0 \/ is_power_of_two a = false -> exec st c o = (st', r) -> call_failed c r = true /\ st' = st.
Proof.
  intros CA NR Bad H.
  assert (Chk : ((a =? 0) || negb (is_power_of_two a)) = true).
  { destruct Bad as [->| ->]; [reflexivity|]. cbn [negb]. apply orb_true_r. }
  destruct c; try discriminate; cbn [call_alignment call_failed] in *; injection CA as E1 E2; subst;
    unfold exec in H; cbv beta iota zeta in H.
  - rewrite aligned_bad_alignment in H by assumption. injection H as <- <-. split; reflexivity.
  - rewrite aligned_bad_alignment in H by assumption. injection H as <- <-. split; reflexivity.
  - unfold heap_calloc_aligned_at in H. rewrite cso_split in H.
    destruct (overflows count size); [injection H as <- <-; split; reflexivity|].
    rewrite aligned_bad_alignment in H by assumption. injection H as <- <-. split; reflexivity.
  - unfold posix_memalign in H. destruct p_null; [injection H as <- <-; split; reflexivity|].
    destruct (negb (a mod MI_INTPTR_SIZE =? 0)); [injection H as <- <-; split; reflexivity|].
    rewrite Chk in H. injection H as <- <-. split; reflexivity.
  - unfold memalign, malloc_aligned in H. rewrite aligned_bad_alignment in H by assumption.
    injection H as <- <-. split; reflexivity.
  - rewrite page_size_pow2 in Chk. discriminate.
  - rewrite page_size_pow2 in Chk. discriminate.
  - unfold aligned_alloc, malloc_aligned in H. rewrite aligned_bad_alignment in H by assumption.
    injection H as <- <-. split; reflexivity.
Qed.

(* aligned re-allocation of NULL with a bad alignment above the word size fails as well *)
Lemma realloc_aligned_bad_alignment_null st heap n a off zero o :
  MI_INTPTR_SIZE < a -> is_power_of_two a = false ->
  realloc_zero_aligned_at st heap NULL n a off zero o = (st, None).
Proof.
  intros Ha Bad. rewrite realloc_aligned_null by assumption. rewrite aligned_bad_alignment by (right; assumption).
  reflexivity.
Qed.

(* posix_memalign_codes *)
Lemma posix_memalign_codes st p_null a s o :
  let '(st', rc, out) := posix_memalign st p_null a s o in
  (rc = EINVAL_ <-> p_null = true \/ a mod MI_INTPTR_SIZE <> 0 \/ a = 0 \/ is_power_of_two a = false) /\
  (rc = ENOMEM_ <-> p_null = false /\ a mod MI_INTPTR_SIZE = 0 /\ a <> 0 /\ is_power_of_two a = true /\
                    snd (malloc_aligned st s a o) = None /\ s <> 0) /\
  (rc = 0 \/ rc = EINVAL_ \/ rc = ENOMEM_) /\
  (out <> None <-> rc = 0) /\
  (forall q, out = Some (Some q) -> snd (malloc_aligned st s a o) = Some q) /\
  (rc = EINVAL_ -> st' = st).
Proof.
  unfold posix_memalign.
  assert (E1 : EINVAL_ <> 0) by discriminate. assert (E2 : ENOMEM_ <> 0) by discriminate.
  assert (E3 : EINVAL_ <> ENOMEM_) by discriminate.
  assert (E4 : forall x : option N, Some x <> None) by (intros; discriminate).
  destruct p_null.
  { intuition (try congruence). }
  destruct (a mod MI_INTPTR_SIZE =? 0) eqn:Em; cbn [negb].
  2:{ apply N.eqb_neq in Em. intuition (try congruence). }
  apply N.eqb_eq in Em.
  destruct ((a =? 0) || negb (is_power_of_two a)) eqn:Chk.
  { apply orb_prop in Chk.
    assert (Bad : a = 0 \/ is_power_of_two a = false).
    { destruct Chk as [C|C]; [left; apply N.eqb_eq; exact C|right; apply negb_true_iff; exact C]. }
    intuition (try congruence). }
  apply orb_false_elim in Chk as (C1 & C2). apply N.eqb_neq in C1. apply negb_false_iff in C2.
  destruct (malloc_aligned st s a o) as [st1 [q|]] eqn:EM; cbn [snd].
  - intuition (try congruence).
  - destruct (s =? 0) eqn:Es; cbn [negb].
    + apply N.eqb_eq in Es. intuition (try congruence).
    + apply N.eqb_neq in Es. intuition (try congruence).
Qed.

Lemma pvalloc_overflow st size o :
  SIZE_MAX_ - os_page_size_default <= size -> pvalloc st size o = (st, None).
Proof. intros H. unfold pvalloc. apply N.leb_le in H. rewrite H. reflexivity. Qed.

Lemma pvalloc_rounds st size o :
  size < SIZE_MAX_ - os_page_size_default ->
  pvalloc st size o = malloc_aligned st (align_up size os_page_size_default) os_page_size_default o /\
  size <= align_up size os_page_size_default /\ align_up size os_page_size_default mod os_page_size_default = 0.
Proof.
  intros H. unfold pvalloc. assert (F : (SIZE_MAX_ - os_page_size_default <=? size) = false) by (apply N.leb_gt; assumption).
  rewrite F. split; [reflexivity|].
  pose proof (align_up_props size os_page_size_default) as P. unfold os_page_size_default, SIZE_MAX_ in *.
  pose proof W64_val as Hw. destruct P as (P1 & _ & P3); [lia|lia|lia|split; assumption].
Qed.

Lemma reallocarray_errno st p c s ans :
  let '(st', r, e) := reallocarray st p c s ans in
  (r = None <-> e = Some ENOMEM_) /\ (r <> None <-> e = None) /\
  (st', r) = heap_reallocn st 0 p c s ans /\ (r = None -> st' = st).
Proof.
  unfold reallocarray. destruct (heap_reallocn st 0 p c s ans) as [st1 [q|]] eqn:E.
  - repeat split; try discriminate; try reflexivity; intros; congruence.
  - repeat split; try discriminate; try reflexivity; try congruence.
    intros _. unfold heap_reallocn in E. rewrite cso_split in E. destruct (overflows c s); [congruence|].
    unfold heap_realloc in E. apply realloc_zero_none_state in E. exact E.
Qed.

Lemma reallocarr_codes st p_null op c s ans :
  let '(st', rc, op', e) := reallocarr st p_null op c s ans in
  (p_null = true -> rc = EINVAL_ /\ e = Some EINVAL_ /\ op' = op /\ st' = st) /\
  (p_null = false ->
     match snd (heap_reallocn st 0 op c s ans) with
     | None => rc = ENOMEM_ /\ e = Some ENOMEM_ /\ op' = op /\ st' = st
     | Some q => rc = 0 /\ e = None /\ op' = q /\ st' = fst (heap_reallocn st 0 op c s ans)
     end).
Proof.
  unfold reallocarr. destruct p_null; [split; [intros _; repeat split; reflexivity|discriminate]|].
  pose proof (reallocarray_errno st op c s ans) as R. unfold reallocarray in *.
  destruct (heap_reallocn st 0 op c s ans) as [st1 [q|]] eqn:E; cbn [fst snd].
  - split; [discriminate|]. intros _. repeat split; reflexivity.
  - split; [discriminate|]. intros _. destruct R as (_ & _ & _ & R). repeat split; try reflexivity. apply R. reflexivity.
Qed.

(* ---- well-formed requests succeed whenever the lower layers grant memory ---- *)

Lemma MAX_lt_W64 : MI_MAX_ALLOC_SIZE < W64. Proof. reflexivity. Qed.

Lemma overalloc_granted st heap size k off zero a u bytes :
  k < 64 -> overalloc_size size (2 ^ k) <= MI_MAX_ALLOC_SIZE -> (2 ^ k <= MI_BLOCK_ALIGNMENT_MAX \/ off = 0) ->
  exists st' q path,
    malloc_zero_aligned_at_overalloc st heap size (2 ^ k) off zero (Some (a, u, bytes)) = (st', Some q, path).
Proof.
  intros Hk Hm Hd. pose proof MAX_lt_W64 as MW. unfold malloc_zero_aligned_at_overalloc.
  destruct (MI_BLOCK_ALIGNMENT_MAX <? 2 ^ k) eqn:Eh.
  - apply N.ltb_lt in Eh. destruct Hd as [Hd|Hd]; [lia|]. subst off. cbn [N.eqb negb].
    rewrite alloc_block_granted by lia. do 3 eexists. reflexivity.
  - rewrite alloc_block_granted by lia. do 3 eexists. reflexivity.
Qed.

Lemma aligned_granted st heap size k off zero o :
  k < 64 -> size <= MI_MAX_ALLOC_SIZE -> overalloc_size size (2 ^ k) <= MI_MAX_ALLOC_SIZE ->
  (2 ^ k <= MI_BLOCK_ALIGNMENT_MAX \/ off = 0) -> o_ans o <> None -> o_ans2 o <> None ->
  exists st' q path, heap_malloc_zero_aligned_at st heap size (2 ^ k) off zero o = (st', Some q, path).
Proof.
  intros Hk Hs Hm Hd A1 A2. pose proof MAX_lt_W64 as MW.
  destruct (o_ans o) as [[[a u] bytes]|] eqn:Ea; [|contradiction].
  destruct (o_ans2 o) as [[[a2 u2] bytes2]|] eqn:Ea2; [|contradiction].
  unfold heap_malloc_zero_aligned_at. rewrite pow2_checks by assumption.
  match goal with |- context [if ?f then _ else _] => destruct f end.
  - rewrite Ea. cbn [page_malloc_zero]. do 3 eexists. reflexivity.
  - unfold malloc_zero_aligned_at_generic.
    assert (F : (MI_MAX_ALLOC_SIZE - MI_PADDING_SIZE <? size) = false).
    { apply N.ltb_ge. change MI_PADDING_SIZE with 0. lia. }
    rewrite F. destruct ((off =? 0) && malloc_is_naturally_aligned size (2 ^ k)).
    + rewrite Ea. destruct (heap_malloc_zero_granted st heap size zero a u bytes ltac:(lia) Hs) as (st1 & E).
      rewrite E. destruct (N.land a (wsub (2 ^ k) 1) =? 0); [do 3 eexists; reflexivity|].
      rewrite Ea2. apply overalloc_granted; assumption.
    + rewrite Ea. apply overalloc_granted; assumption.
Qed.

Lemma realloc_aligned_granted st heap p n k off zero o :
  k < 64 -> n <= MI_MAX_ALLOC_SIZE -> overalloc_size n (2 ^ k) <= MI_MAX_ALLOC_SIZE ->
  (2 ^ k <= MI_BLOCK_ALIGNMENT_MAX \/ off = 0) -> o_ans o <> None -> o_ans2 o <> None ->
  exists st' q, realloc_zero_aligned_at st heap p n (2 ^ k) off zero o = (st', Some q).
Proof.
  intros Hk Hs Hm Hd A1 A2. pose proof MAX_lt_W64 as MW. unfold realloc_zero_aligned_at.
  destruct (2 ^ k <=? MI_INTPTR_SIZE).
  { destruct (o_ans o) as [[[a u] bytes]|]; [|contradiction]. apply realloc_zero_granted; lia. }
  destruct (aligned_granted st heap n k off zero o Hk Hs Hm Hd A1 A2) as (st1 & q & path & E).
  rewrite E. cbn [fst]. destruct (p =? NULL); [do 2 eexists; reflexivity|].
  destruct (realloc_aligned_inplace_b _ _ _ _ _); do 2 eexists; reflexivity.
Qed.

(* a request is well-formed: no count*size overflow, size (and, for the aligned entry points, the
   over-allocation size) at most MI_MAX_ALLOC_SIZE, alignment a power of two, no offset with a huge
   alignment, and the entry point's own argument conditions *)
Definition call_wellformed (c : call) : Prop :=
  call_overflows c = false /\ call_size c <= MI_MAX_ALLOC_SIZE /\
  match call_alignment c with
  | None => True
  | Some (a, off) =>
      (exists k, k < 64 /\ a = 2 ^ k) /\ (a <= MI_BLOCK_ALIGNMENT_MAX \/ off = 0) /\
      overalloc_size (call_size c) a <= MI_MAX_ALLOC_SIZE
  end /\
  match c with
  | CPosixMemalign pn a _ => pn = false /\ a mod MI_INTPTR_SIZE = 0
  | CReallocarr pn _ _ _ => pn = false
  | CPvalloc s => s < SIZE_MAX_ - os_page_size_default
  | _ => True
  end.

Lemma wellformed_succeeds_if_granted st c o st' r :
  special_call c = false -> call_wellformed c -> o_ans o <> None -> o_ans2 o <> None ->
  exec st c o = (st', r) -> call_failed c r = false.
Proof.
  intros S (Ov & Hs & Hal & Hx) A1 A2 H. pose proof MAX_lt_W64 as MW.
  assert (G : forall heap size zero, size <= MI_MAX_ALLOC_SIZE ->
              exists st1 q, heap_malloc_zero st heap size zero (o_ans o) = (st1, Some q)).
  { intros heap size zero Hsz. destruct (o_ans o) as [[[a u] bytes]|]; [|contradiction].
    destruct (heap_malloc_zero_granted st heap size zero a u bytes ltac:(lia) Hsz) as (st1 & E). eauto. }
  assert (GR : forall heap p n zero, n <= MI_MAX_ALLOC_SIZE ->
              exists st1 q, realloc_zero st heap p n zero (o_ans o) = (st1, Some q)).
  { intros heap p n zero Hsz. destruct (o_ans o) as [[[a u] bytes]|]; [|contradiction].
    apply realloc_zero_granted; lia. }
  destruct c; try discriminate;
    cbn [call_failed call_size call_overflows call_alignment] in *; unfold exec in H; cbv beta iota zeta in H.
  - destruct (G heap size false Hs) as (s1 & q & E). unfold heap_malloc in H. rewrite E in H. injection H as <- <-. reflexivity.
  - destruct (G heap size true Hs) as (s1 & q & E). unfold heap_zalloc in H. rewrite E in H. injection H as <- <-. reflexivity.
  - unfold heap_calloc, heap_zalloc in H. rewrite cso_split, Ov in H.
    destruct (G heap (total count size) true Hs) as (s1 & q & E). rewrite E in H. injection H as <- <-. reflexivity.
  - unfold heap_mallocn, heap_malloc in H. rewrite cso_split, Ov in H.
    destruct (G heap (total count size) false Hs) as (s1 & q & E). rewrite E in H. injection H as <- <-. reflexivity.
  - unfold heap_realloc in H. destruct (GR heap p newsize false Hs) as (s1 & q & E). rewrite E in H. injection H as <- <-. reflexivity.
  - unfold heap_reallocn, heap_realloc in H. rewrite cso_split, Ov in H.
    destruct (GR heap p (total count size) false Hs) as (s1 & q & E). rewrite E in H. injection H as <- <-. reflexivity.
  - unfold heap_reallocf, heap_realloc in H. destruct (GR heap p newsize false Hs) as (s1 & q & E). rewrite E in H.
    injection H as <- <-. reflexivity.
  - unfold heap_rezalloc in H. destruct (GR heap p newsize true Hs) as (s1 & q & E). rewrite E in H. injection H as <- <-. reflexivity.
  - unfold heap_recalloc, heap_rezalloc in H. rewrite cso_split, Ov in H.
    destruct (GR heap p (total count size) true Hs) as (s1 & q & E). rewrite E in H. injection H as <- <-. reflexivity.
  - destruct Hal as ((k & Hk & ->) & Hd & Hm).
    destruct (aligned_granted st heap size k offset false o Hk Hs Hm Hd A1 A2) as (s1 & q & path & E).
    rewrite E in H. injection H as <- <-. reflexivity.
  - destruct Hal as ((k & Hk & ->) & Hd & Hm).
    destruct (aligned_granted st heap size k offset true o Hk Hs Hm Hd A1 A2) as (s1 & q & path & E).
    rewrite E in H. injection H as <- <-. reflexivity.
  - destruct Hal as ((k & Hk & ->) & Hd & Hm). unfold heap_calloc_aligned_at in H. rewrite cso_split, Ov in H.
    destruct (aligned_granted st heap (total count size) k offset true o Hk Hs Hm Hd A1 A2) as (s1 & q & path & E).
    rewrite E in H. injection H as <- <-. reflexivity.
  - destruct Hal as ((k & Hk & ->) & Hd & Hm).
    destruct (realloc_aligned_granted st heap p newsize k offset false o Hk Hs Hm Hd A1 A2) as (s1 & q & E).
    rewrite E in H. injection H as <- <-. reflexivity.
  - destruct Hal as ((k & Hk & ->) & Hd & Hm).
    destruct (realloc_aligned_granted st heap p newsize k offset true o Hk Hs Hm Hd A1 A2) as (s1 & q & E).
    rewrite E in H. injection H as <- <-. reflexivity.
  - destruct Hal as ((k & Hk & ->) & Hd & Hm). unfold heap_recalloc_aligned_at in H. rewrite cso_split, Ov in H.
    destruct (realloc_aligned_granted st heap p (total count size) k offset true o Hk Hs Hm Hd A1 A2) as (s1 & q & E).
    rewrite E in H. injection H as <- <-. reflexivity.
  - destruct Hal as ((k & Hk & ->) & Hd & Hm). unfold realloc_zero_aligned in H.
    destruct (2 ^ k <=? MI_INTPTR_SIZE).
    + destruct (GR heap p newsize false Hs) as (s1 & q & E). rewrite E in H. injection H as <- <-. reflexivity.
    + destruct (realloc_aligned_granted st heap p newsize k (p mod 2 ^ k) false o Hk Hs Hm Hd A1 A2) as (s1 & q & E).
      rewrite E in H. injection H as <- <-. reflexivity.
  - destruct Hal as ((k & Hk & ->) & Hd & Hm). unfold realloc_zero_aligned in H.
    destruct (2 ^ k <=? MI_INTPTR_SIZE).
    + destruct (GR heap p newsize true Hs) as (s1 & q & E). rewrite E in H. injection H as <- <-. reflexivity.
    + destruct (realloc_aligned_granted st heap p newsize k (p mod 2 ^ k) true o Hk Hs Hm Hd A1 A2) as (s1 & q & E).
      rewrite E in H. injection H as <- <-. reflexivity.
  - destruct Hal as ((k & Hk & ->) & Hd & Hm). destruct Hx as (-> & Hmod). unfold posix_memalign in H.
    apply N.eqb_eq in Hmod. rewrite Hmod in H. cbn [negb] in H. rewrite pow2_checks in H by assumption.
    unfold malloc_aligned in H.
    destruct (aligned_granted st 0 size k 0 false o Hk Hs Hm Hd A1 A2) as (s1 & q & path & E).
    rewrite E in H. cbn [fst] in H. injection H as <- <-. reflexivity.
  - destruct Hal as ((k & Hk & ->) & Hd & Hm). unfold memalign, malloc_aligned in H.
    destruct (aligned_granted st 0 size k 0 false o Hk Hs Hm Hd A1 A2) as (s1 & q & path & E).
    rewrite E in H. injection H as <- <-. reflexivity.
  - destruct Hal as ((k & Hk & Ek) & Hd & Hm). unfold valloc, memalign, malloc_aligned in H. rewrite Ek in *.
    destruct (aligned_granted st 0 size k 0 false o Hk Hs Hm Hd A1 A2) as (s1 & q & path & E).
    rewrite E in H. injection H as <- <-. reflexivity.
  - destruct Hal as ((k & Hk & Ek) & Hd & Hm). unfold pvalloc in H.
    assert (F : (SIZE_MAX_ - os_page_size_default <=? size) = false) by (apply N.leb_gt; assumption).
    rewrite F in H. unfold malloc_aligned in H. rewrite Ek in *.
    destruct (aligned_granted st 0 (align_up size (2 ^ k)) k 0 false o Hk Hs Hm Hd A1 A2) as (s1 & q & path & E).
    rewrite E in H. injection H as <- <-. reflexivity.
  - destruct Hal as ((k & Hk & ->) & Hd & Hm). unfold aligned_alloc, malloc_aligned in H.
    destruct (aligned_granted st 0 size k 0 false o Hk Hs Hm Hd A1 A2) as (s1 & q & path & E).
    rewrite E in H. injection H as <- <-. reflexivity.
  - unfold reallocarray, heap_reallocn, heap_realloc in H. rewrite cso_split, Ov in H.
    destruct (GR 0 p (total count size) false Hs) as (s1 & q & E). rewrite E in H. injection H as <- <-. reflexivity.
  - subst p_null. unfold reallocarr, reallocarray, heap_reallocn, heap_realloc in H. rewrite cso_split, Ov in H.
    destruct (GR 0 op (total count size) false Hs) as (s1 & q & E). rewrite E in H. injection H as <- <-. reflexivity.
Qed.

(* ------------------------------------------------------------------------------------- *)
(* J. size and alignment contract (C03): the arithmetic of the aligned paths                *)
(* ------------------------------------------------------------------------------------- *)

Lemma overalloc_aligned size k offset p usable page_start bs i :
  k < 64 -> 2 ^ k <= MI_BLOCK_ALIGNMENT_MAX -> size <= MI_MAX_ALLOC_SIZE -> offset < W64 ->
  p + usable < W64 -> overalloc_size size (2 ^ k) <= usable ->
  let adjust := aligned_adjust p (2 ^ k) offset in
  (p + adjust + offset) mod 2 ^ k = 0 /\ adjust < 2 ^ k /\ adjust + size <= usable /\
  (0 < bs -> bs < W64 -> usable <= bs -> p = page_start + i * bs ->
   ptr_unalign page_start bs (p + adjust) = p).
Proof.
  intros Hk Ha Hs Ho Hp Hu. cbv zeta. pose proof (pow2_pos k) as H2.
  destruct (aligned_adjust_spec p k offset Hk) as (S1 & S2). cbv zeta in S1, S2.
  rewrite overalloc_size_small in Hu by assumption.
  assert (Hm : MI_MAX_ALIGN_SIZE = 16) by reflexivity.
  split; [exact S2|]. split; [exact S1|]. split; [lia|].
  intros Hb0 Hb Hub ->. apply unalign_correct; lia.
Qed.

Lemma mod_divisor_chain p a b : b <> 0 -> p mod a = 0 -> a mod b = 0 -> p mod b = 0.
Proof.
  intros Hb H1 H2. destruct (N.eq_dec a 0) as [->|Ha].
  - destruct p as [|pp]; [apply N.mod_0_l; assumption|]. cbn in H1. discriminate.
  - apply N.mod_divide in H1; [|assumption]. apply N.mod_divide in H2; [|assumption].
    apply N.mod_divide; [assumption|]. eapply N.divide_trans; eassumption.
Qed.

Lemma naturally_aligned_sound size k p :
  k < 64 -> malloc_is_naturally_aligned size (2 ^ k) = true ->
  p mod 8 = 0 -> (16 <= size -> p mod 16 = 0) ->
  (good_size size <= MI_MAX_ALIGN_GUARANTEE -> p mod good_size size = 0) ->
  p mod 2 ^ k = 0.
Proof.
  intros Hk H P8 P16 Pg. pose proof (pow2_pos k) as H2. unfold malloc_is_naturally_aligned in H.
  destruct (size <? 2 ^ k) eqn:E1; [discriminate|]. apply N.ltb_ge in E1.
  destruct (2 ^ k <=? MI_MAX_ALIGN_SIZE) eqn:E2.
  - apply N.leb_le in E2. change MI_MAX_ALIGN_SIZE with (2 ^ 4) in E2.
    apply N.pow_le_mono_r_iff in E2; [|lia].
    assert (K : k = 0 \/ k = 1 \/ k = 2 \/ k = 3 \/ k = 4) by lia.
    destruct K as [->|[->|[->|[->| ->]]]].
    + change (2 ^ 0) with 1. apply N.mod_1_r.
    + change (2 ^ 1) with 2. lia.
    + change (2 ^ 2) with 4. lia.
    + change (2 ^ 3) with 8. exact P8.
    + change (2 ^ 4) with 16 in *. apply P16. exact E1.
  - apply andb_prop in H as (G1 & G2). apply N.leb_le in G1. apply N.eqb_eq in G2.
    rewrite wsub_small in G2 by lia. rewrite land_mask in G2.
    eapply mod_divisor_chain; [lia|apply Pg; exact G1|exact G2].
Qed.

Lemma bin_align s : s <= MI_MEDIUM_OBJ_SIZE_MAX ->
  (s <= 8 /\ bin_size (mi_bin s) = 8) \/ (8 < s /\ bin_size (mi_bin s) mod 16 = 0 /\ 0 < bin_size (mi_bin s)).
Proof.
  intros H. pose proof (forallN_spec _ _ sweep_bin_align s ltac:(lia)) as C. unfold chk_bin_align in C.
  cbv zeta in C. apply orb_prop in C as [C|C].
  - apply andb_prop in C as (C1 & C2). apply N.leb_le in C1. apply N.eqb_eq in C2. left. split; assumption.
  - apply andb_prop in C as (C & C3). apply andb_prop in C as (C1 & C2).
    apply N.ltb_lt in C1. apply N.eqb_eq in C2. apply N.ltb_lt in C3. right. repeat split; assumption.
Qed.

Lemma reachable_bin_sizes b : In b reachable_bins -> bin_size b = 8 \/ bin_size b mod 16 = 0.
Proof.
  intros H. pose proof sweep_bin_table_align as S. rewrite forallb_forall in S. specialize (S b H).
  clear H. unfold chk_bin_table_align in S. cbv zeta in S.
  apply orb_prop in S as [S|S]; apply N.eqb_eq in S; [left|right]; exact S.
Qed.

Lemma min_alignment size page_start bs i :
  page_start mod 16 = 0 ->
  (size <= MI_MEDIUM_OBJ_SIZE_MAX -> bs = bin_size (mi_bin size)) ->
  (MI_MEDIUM_OBJ_SIZE_MAX < size -> i = 0) ->
  let p := page_start + i * bs in
  p mod 8 = 0 /\ (16 <= size -> p mod 16 = 0) /\ (8 < size -> p mod 16 = 0).
Proof.
  intros Hp Hb Hi. cbv zeta.
  destruct (N.le_gt_cases size MI_MEDIUM_OBJ_SIZE_MAX) as [Hs|Hs].
  - specialize (Hb Hs). destruct (bin_align size Hs) as [(S1 & S2)|(S1 & S2 & S3)]; rewrite <- Hb in *.
    + subst bs. repeat split; lia.
    + assert (E : (page_start + i * bs) mod 16 = 0) by (apply mod16_add_mul; assumption).
      repeat split; try (intros; exact E). lia.
  - specialize (Hi Hs). subst i. rewrite N.mul_0_l, N.add_0_r. repeat split; try (intros; exact Hp). lia.
Qed.

Lemma usable_of_interior st heap size k offset zero o st' q path :
  wf st -> k < 64 -> size < W64 -> offset < W64 -> oracles_ok st size (2 ^ k) offset o ->
  heap_malloc_zero_aligned_at st heap size (2 ^ k) offset zero o = (st', Some q, path) ->
  exists b p u bytes0,
    (o_ans o = Some (p, u, bytes0) \/ o_ans2 o = Some (p, u, bytes0)) /\
    lookup st' q = Some b /\ q = p + b_adjust b /\ block_start q b = p /\ block_usable b = u /\
    usable_size st' q = u - b_adjust b /\ size <= usable_size st' q /\
    (q + offset) mod 2 ^ k = 0 /\ expand st' q size = Some q /\
    (forall x, x <> q -> lookup (free st' q) x = lookup st x) /\ lookup (free st' q) q = None.
Proof.
  intros W Hk Hs Ho OK H.
  destruct (aligned_result _ _ _ _ _ _ _ _ _ _ W Hk Hs Ho OK H) as (blk & R & D).
  destruct R as (E & Fr & Ok & Fit & Rq & Rz & Rh & Zb).
  destruct D as (Al & p & u & b0 & Ans & Eq & Eu & Hfit & _ & _).
  assert (L : lookup st' q = Some blk) by (rewrite E, lookup_add, N.eqb_refl; reflexivity).
  assert (Hq : q <> NULL) by (destruct Ok as (_ & _ & _ & _ & _ & Ok); unfold NULL; lia).
  assert (U : usable_size st' q = b_usable blk) by (apply (usable_live _ _ _ L Hq)).
  exists blk, p, u, b0. split; [exact Ans|]. split; [exact L|]. split; [exact Eq|].
  unfold block_start, block_usable. split; [lia|]. split; [lia|]. split; [rewrite U; exact Eu|].
  split; [rewrite U; exact Fit|]. split; [exact Al|].
  split.
  { unfold expand. assert (F : (q =? NULL) = false) by (apply N.eqb_neq; assumption). rewrite F, U.
    assert (G : (b_usable blk <? size) = false) by (apply N.ltb_ge; exact Fit). rewrite G. reflexivity. }
  assert (F : (q =? NULL) = false) by (apply N.eqb_neq; assumption).
  split.
  - intros x Hx. rewrite lookup_free, F. cbn [negb andb].
    assert (G : (q =? x) = false) by (apply N.eqb_neq; intros ->; apply Hx; reflexivity).
    rewrite G, E, lookup_add, G. reflexivity.
  - rewrite lookup_free, F, N.eqb_refl. reflexivity.
Qed.

(* ------------------------------------------------------------------------------------- *)
(* K. the repaired defect, for the record                                                   *)
(* ------------------------------------------------------------------------------------- *)

(* The behaviour before the repair "zero the whole new block when a zero-initialised block is
   re-allocated": the new block was allocated WITHOUT zeroing and cleared only up to newsize.
   Only used by the example below. *)
Definition realloc_zero_old (st : state) (heap p newsize : N) (zero : bool) (ans : answer) : state * option N :=
  let size := usable_size st p in
  if realloc_inplace_b size newsize then (update st p (set_req newsize), Some p)
  else
    match heap_malloc_zero st heap newsize false ans with
    | (_, None) => (st, None)
    | (st1, Some newp) =>
        (realloc_finish st1 p newp size newsize zero true (bytes_of st p), Some newp)
    end.

(* a two-step monotone chain 8 -> 20 -> 28 on dirty memory: zalloc(8) in a 8-byte block, grow to 20
   (moves into a dirty 32-byte block), grow to 28 (stays in place) *)
Definition dirty (n : N) : list N := N.recursion [] (fun _ acc => 7 :: acc) n.
Definition chain_example (rz : state -> N -> N -> N -> bool -> answer -> state * option N) : N :=
  let '(s0, _) := heap_malloc_zero [] 0 8 true (Some (4096, 8, dirty 8)) in
  let '(s1, _) := rz s0 0 4096 20 true (Some (8192, 32, dirty 32)) in
  let '(s2, _) := rz s1 0 8192 28 true None in
  byte_at (bytes_of s2 8192) 24.

Lemma chain_example_old_code_nonzero : chain_example realloc_zero_old = 7.
Proof. vm_compute. reflexivity. Qed.

Lemma chain_example_repaired_zero : chain_example realloc_zero = 0.
Proof. vm_compute. reflexivity. Qed.

(* ------------------------------------------------------------------------------------- *)
(* L. boolean forms of the hypotheses (to run them on concrete states)                      *)
(* ------------------------------------------------------------------------------------- *)

Definition block_ok_b (q : N) (b : block) : bool :=
  (blen (b_bytes b) =? b_usable b) && (0 <? b_usable b) && (b_req b <=? b_usable b) &&
  (b_adjust b <=? q) && (q + b_usable b <? W64) && (0 <? q).

Definition wf_b (st : state) : bool := forallb (fun e => block_ok_b (fst e) (snd e)) st.

Lemma lookup_In st q b : lookup st q = Some b -> In (q, b) st.
Proof.
  induction st as [|[k v] r IH]; cbn [lookup]; [discriminate|].
  destruct (k =? q) eqn:E.
  - apply N.eqb_eq in E. subst k. intros H. injection H as ->. left. reflexivity.
  - intros H. right. apply IH. exact H.
Qed.

Lemma wf_b_sound st : wf_b st = true -> wf st.
Proof.
  intros H q b L. apply lookup_In in L. unfold wf_b in H. rewrite forallb_forall in H.
  specialize (H _ L). cbn [fst snd] in H. unfold block_ok_b in H.
  repeat (apply andb_prop in H as (H & ?)).
  unfold block_ok. repeat split;
    repeat match goal with
           | X : (_ =? _) = true |- _ => apply N.eqb_eq in X
           | X : (_ <=? _) = true |- _ => apply N.leb_le in X
           | X : (_ <? _) = true |- _ => apply N.ltb_lt in X
           end; assumption.
Qed.

Definition answer_ok_b (st : state) (size : N) (ans : answer) : bool :=
  match ans with
  | None => true
  | Some (p, u, bytes) =>
      (0 <? p) && (p + u <? W64) && (blen bytes =? u) && (0 <? u) && (size <=? u) &&
      forallb (fun e => (p + u <=? block_start (fst e) (snd e)) ||
                        (block_start (fst e) (snd e) + block_usable (snd e) <=? p)) st
  end.

Lemma answer_ok_b_sound st size ans : answer_ok_b st size ans = true -> answer_ok st size ans.
Proof.
  destruct ans as [[[p u] bytes]|]; [|intros _; exact I]. cbn [answer_ok_b answer_ok]. intros H.
  repeat (apply andb_prop in H as (H & ?)).
  repeat match goal with
         | X : (_ =? _) = true |- _ => apply N.eqb_eq in X
         | X : (_ <=? _) = true |- _ => apply N.leb_le in X
         | X : (_ <? _) = true |- _ => apply N.ltb_lt in X
         end.
  repeat (split; [assumption|]). intros q b L. apply lookup_In in L.
  match goal with X : forallb _ st = true |- _ => rewrite forallb_forall in X; specialize (X _ L); cbn [fst snd] in X;
    apply orb_prop in X as [X|X]; apply N.leb_le in X; [left|right]; exact X end.
Qed.

Fixpoint all_zero_from (l : list N) (i : N) : bool :=
  match l with
  | [] => true
  | x :: r => if i =? 0 then (x =? 0) && all_zero_from r 0 else all_zero_from r (N.pred i)
  end.

Lemma all_zero_from_sound l : forall i, all_zero_from l i = true -> forall j, i <= j -> byte_at l j = 0.
Proof.
  induction l as [|x r IH]; intros i H j Hj; cbn [byte_at all_zero_from] in *; [reflexivity|].
  destruct (i =? 0) eqn:Ei.
  - apply N.eqb_eq in Ei. subst i. apply andb_prop in H as (H1 & H2). apply N.eqb_eq in H1.
    destruct (j =? 0); [exact H1|]. apply (IH 0 H2). lia.
  - apply N.eqb_neq in Ei. assert (F : (j =? 0) = false) by (apply N.eqb_neq; lia). rewrite F.
    apply (IH (N.pred i) H). lia.
Qed.

Definition zinv_b (st : state) : bool :=
  forallb (fun e => if b_zero (snd e) then all_zero_from (b_bytes (snd e)) (b_req (snd e)) else true) st.

Lemma zinv_b_sound st : zinv_b st = true -> zinv st.
Proof.
  intros H q b L Hz i Hi. apply lookup_In in L. unfold zinv_b in H. rewrite forallb_forall in H.
  specialize (H _ L). cbn [snd] in H. rewrite Hz in H. eapply all_zero_from_sound; eassumption.
Qed.

(* a concrete chain start (non-vacuity of zchain): calloc(3,4) on dirty memory *)
Lemma zchain_example :
  zchain (fst (exec [] (CCalloc 0 3 4) (mkOracles None (Some (4096, 16, dirty 16)) None))) 4096 12.
Proof.
  eapply (zc_start [] (CCalloc 0 3 4) (mkOracles None (Some (4096, 16, dirty 16)) None)).
  - exact wf_nil.
  - exact zinv_nil.
  - vm_compute. split; reflexivity.
  - change (answer_ok [] 12 (Some (4096, 16, dirty 16))). apply answer_ok_b_sound. vm_compute. reflexivity.
  - reflexivity.
  - reflexivity.
  - apply surjective_pairing.
  - vm_compute. reflexivity.
Qed.

(* the aligned re-allocation entry points do not validate an alignment <= sizeof(void* ) *)
Lemma bad_alignment_realloc_refuted : exists st heap p n a off o,
  is_power_of_two a = false /\ lookup st p <> None /\
  snd (realloc_zero_aligned_at st heap p n a off false o) <> None.
Proof.
  exists [ (4096, mkBlock 32 (dirty 32) 0 20 false 0) ], 0, 4096, 100, 3, 0,
         (mkOracles None (Some (8192, 112, dirty 112)) None).
  vm_compute. repeat split; discriminate.
Qed.

(* ------------------------------------------------------------------------------------- *)
(* M. the natural-alignment shortcut composed with the page geometry                        *)
(* ------------------------------------------------------------------------------------- *)

Lemma good_size_large size : MI_MEDIUM_OBJ_SIZE_MAX < size -> size <= MI_MAX_ALLOC_SIZE ->
  MI_MAX_ALIGN_GUARANTEE < good_size size.
Proof.
  intros H1 H2. unfold good_size. assert (F : (size <=? MI_MEDIUM_OBJ_SIZE_MAX) = false) by (apply N.leb_gt; assumption).
  rewrite F. change MI_PADDING_SIZE with 0. pose proof W64_val as Hw.
  unfold MI_MAX_ALLOC_SIZE, MI_MEDIUM_OBJ_SIZE_MAX, MI_MAX_ALIGN_GUARANTEE in *.
  rewrite wadd_small by lia. rewrite N.add_0_r.
  pose proof (align_up_props size os_page_size_default) as P. unfold os_page_size_default in *.
  destruct P as (P1 & _); lia.
Qed.

(* block i of a page laid out by _mi_segment_page_start_from_slice, for a request that
   mi_malloc_is_naturally_aligned accepts, is aligned: the alignment test after the plain allocation
   in mi_heap_malloc_zero_aligned_at_generic never fails *)
Lemma natural_block_aligned seg idx cnt size k bs i :
  seg mod MI_SEGMENT_SIZE = 0 -> seg + MI_SEGMENT_SIZE < W64 -> 0 < cnt -> idx + cnt <= MI_SLICES_PER_SEGMENT ->
  k < 64 -> size <= MI_MAX_ALLOC_SIZE -> bs < W64 ->
  malloc_is_naturally_aligned size (2 ^ k) = true ->
  (size <= MI_MEDIUM_OBJ_SIZE_MAX -> bs = good_size size /\ 2 * bs <= cnt * MI_SEGMENT_SLICE_SIZE) ->
  (MI_MEDIUM_OBJ_SIZE_MAX < size -> i = 0) ->
  (fst (page_start_from_slice seg idx cnt bs) + i * bs) mod 2 ^ k = 0.
Proof.
  intros Hal Hw Hc Hic Hk Hs Hbs Nat Hsmall Hlarge.
  pose proof (page_start_aligned16 seg idx cnt bs Hal Hw Hc Hic Hbs) as P16.
  destruct (page_start_from_slice seg idx cnt bs) as [start psize] eqn:EP. cbn [fst].
  destruct P16 as (P16 & _). change MI_MAX_ALIGN_SIZE with 16 in P16.
  destruct (N.le_gt_cases size MI_MEDIUM_OBJ_SIZE_MAX) as [Hm|Hm].
  - destruct (Hsmall Hm) as (Ebs & H2).
    assert (Eg : good_size size = bin_size (mi_bin size)).
    { apply good_size_small; [unfold MI_MEDIUM_OBJ_SIZE_MAX in *; lia|assumption]. }
    assert (Hb : size <= MI_MEDIUM_OBJ_SIZE_MAX -> bs = bin_size (mi_bin size)) by (intros _; rewrite Ebs; exact Eg).
    assert (Hi : MI_MEDIUM_OBJ_SIZE_MAX < size -> i = 0) by (intros C; lia).
    destruct (min_alignment size start bs i P16 Hb Hi) as (M8 & M16 & _).
    apply (naturally_aligned_sound size k _ Hk Nat M8 M16).
    intros Hg. rewrite <- Ebs in *.
    assert (Hcls : bs mod 16 = 0 \/ bs = 8).
    { rewrite (Hb Hm). destruct (bin_align size Hm) as [(_ & B)|(_ & B & _)]; [right|left]; exact B. }
    assert (Hpos : 0 < bs).
    { rewrite (Hb Hm). destruct (bin_align size Hm) as [(_ & B)|(_ & _ & B)]; [rewrite B; lia|exact B]. }
    pose proof (page_start_block_aligned seg idx cnt bs Hal Hw Hc Hic Hpos Hg Hcls H2) as PB.
    rewrite EP in PB. cbn [fst] in PB.
    rewrite N.add_mod by lia. rewrite PB, N.mod_mul by lia. rewrite N.add_0_l. apply N.mod_0_l. lia.
  - specialize (Hlarge Hm). subst i. rewrite N.mul_0_l, N.add_0_r.
    apply (naturally_aligned_sound size k start Hk Nat).
    + lia.
    + intros _. exact P16.
    + intros Hg. pose proof (good_size_large size Hm Hs). lia.
Qed.

(* hence, when the answer of the lower layers is such a block, the aligned allocation takes the
   natural path to the end and never consults the second oracle *)
Lemma natural_path_no_fallback st heap size k zero o p u bytes :
  k < 64 -> size <= MI_MAX_ALLOC_SIZE -> malloc_is_naturally_aligned size (2 ^ k) = true ->
  o_ans o = Some (p, u, bytes) -> p mod 2 ^ k = 0 ->
  malloc_zero_aligned_at_generic st heap size (2 ^ k) 0 zero o =
    (add st p (mkBlock u (if zero then zero_all bytes else bytes) heap size zero 0), Some p, PathNatural).
Proof.
  intros Hk Hs Nat Ea Hp. pose proof (pow2_pos k) as H2. pose proof MAX_lt_W64 as MW.
  unfold malloc_zero_aligned_at_generic.
  assert (F : (MI_MAX_ALLOC_SIZE - MI_PADDING_SIZE <? size) = false).
  { apply N.ltb_ge. change MI_PADDING_SIZE with 0. lia. }
  rewrite F, Nat. cbn [N.eqb andb]. rewrite Ea. unfold heap_malloc_zero.
  rewrite alloc_block_granted by lia.
  assert (G : (N.land p (wsub (2 ^ k) 1) =? 0) = true).
  { apply N.eqb_eq. rewrite wsub_small by lia. rewrite land_mask. exact Hp. }
  rewrite G. reflexivity.
Qed.
