(* Lemmas about the API-level model (Model/Api.v): properties C03 (aligned paths), C04, C05, C06. *)
From Coq Require Import NArith ZArith Lia Bool List.
From Coq Require Import ZifyN ZifyBool.
From MiV Require Import Gen.Consts Gen.Bins Model.Arith Proofs.Base Proofs.ArithSweeps Proofs.ArithProofs
                        Proofs.BitsProofs Model.Api.
Import ListNotations.
Ltac Zify.zify_post_hook ::= Z.div_mod_to_equations.
Local Open Scope N_scope.
Local Open Scope bool_scope.

(* ------------------------------------------------------------------------------------- *)
(* A. bytes                                                                                 *)
(* ------------------------------------------------------------------------------------- *)

Lemma blen_mapi_from f l : forall i, blen (mapi_from f i l) = blen l.
Proof. induction l as [|x r IH]; intros i; cbn [mapi_from blen]; [reflexivity|]. rewrite IH. reflexivity. Qed.

Lemma blen_mapi f l : blen (mapi f l) = blen l.
Proof. apply blen_mapi_from. Qed.

Lemma byte_at_out l : forall i, blen l <= i -> byte_at l i = 0.
Proof.
  induction l as [|x r IH]; intros i H; cbn [byte_at blen] in *; [reflexivity|].
  destruct (i =? 0) eqn:E; [apply N.eqb_eq in E; lia|]. apply IH. apply N.eqb_neq in E. lia.
Qed.

Lemma byte_at_mapi_from f l : forall k i, i < blen l ->
  byte_at (mapi_from f k l) i = f (k + i) (byte_at l i).
Proof.
  induction l as [|x r IH]; intros k i H; cbn [blen] in H; [lia|].
  cbn [mapi_from byte_at]. destruct (i =? 0) eqn:E.
  - apply N.eqb_eq in E. subst i. rewrite N.add_0_r. reflexivity.
  - apply N.eqb_neq in E. rewrite IH by lia. f_equal. lia.
Qed.

Lemma byte_at_mapi f l i : i < blen l -> byte_at (mapi f l) i = f i (byte_at l i).
Proof. intros H. unfold mapi. rewrite byte_at_mapi_from by assumption. reflexivity. Qed.

Lemma blen_drop l : forall n, blen (drop n l) = blen l - n.
Proof.
  induction l as [|x r IH]; intros n; cbn [drop blen]; [reflexivity|].
  destruct (n =? 0) eqn:E.
  - apply N.eqb_eq in E. subst n. cbn [blen]. lia.
  - apply N.eqb_neq in E. rewrite IH. lia.
Qed.

Lemma byte_at_drop l : forall n i, byte_at (drop n l) i = byte_at l (n + i).
Proof.
  induction l as [|x r IH]; intros n i; cbn [drop byte_at]; [reflexivity|].
  destruct (n =? 0) eqn:E.
  - apply N.eqb_eq in E. subst n. reflexivity.
  - apply N.eqb_neq in E. rewrite IH.
    assert (F : (n + i =? 0) = false) by (apply N.eqb_neq; lia). rewrite F.
    f_equal. lia.
Qed.

Lemma blen_zero_all l : blen (zero_all l) = blen l.
Proof. apply blen_mapi. Qed.
Lemma blen_zero_range a b l : blen (zero_range a b l) = blen l.
Proof. apply blen_mapi. Qed.
Lemma blen_copy_prefix s n l : blen (copy_prefix s n l) = blen l.
Proof. apply blen_mapi. Qed.
Lemma blen_set_byte o v l : blen (set_byte o v l) = blen l.
Proof. apply blen_mapi. Qed.

Lemma byte_at_zero_all l i : byte_at (zero_all l) i = 0.
Proof.
  destruct (N.lt_ge_cases i (blen l)) as [H|H].
  - unfold zero_all. rewrite byte_at_mapi by assumption. reflexivity.
  - apply byte_at_out. rewrite blen_zero_all. assumption.
Qed.

Lemma byte_at_zero_range a b l i :
  byte_at (zero_range a b l) i = if (a <=? i) && (i <? b) then 0 else byte_at l i.
Proof.
  destruct (N.lt_ge_cases i (blen l)) as [H|H].
  - unfold zero_range. rewrite byte_at_mapi by assumption. reflexivity.
  - rewrite (byte_at_out (zero_range a b l)) by (rewrite blen_zero_range; assumption).
    rewrite (byte_at_out l) by assumption. destruct ((a <=? i) && (i <? b)); reflexivity.
Qed.

Lemma byte_at_copy_prefix s n l i : i < blen l ->
  byte_at (copy_prefix s n l) i = if i <? n then byte_at s i else byte_at l i.
Proof. intros H. unfold copy_prefix. rewrite byte_at_mapi by assumption. reflexivity. Qed.

Lemma byte_at_set_byte o v l i : i < blen l ->
  byte_at (set_byte o v l) i = if i =? o then v else byte_at l i.
Proof. intros H. unfold set_byte. rewrite byte_at_mapi by assumption. reflexivity. Qed.

(* ------------------------------------------------------------------------------------- *)
(* B. the map                                                                               *)
(* ------------------------------------------------------------------------------------- *)

Lemma lookup_add st p b q : lookup (add st p b) q = if p =? q then Some b else lookup st q.
Proof. reflexivity. Qed.

Lemma lookup_remove st p q : lookup (remove st p) q = if p =? q then None else lookup st q.
Proof.
  unfold remove. induction st as [|[k b] r IH]; cbn [filter lookup fst].
  - destruct (p =? q); reflexivity.
  - destruct (k =? p) eqn:E1; cbn [negb].
    + apply N.eqb_eq in E1. subst k. rewrite IH. destruct (p =? q); reflexivity.
    + cbn [lookup]. rewrite IH. destruct (k =? q) eqn:E2; [|reflexivity].
      apply N.eqb_eq in E2. subst k. rewrite N.eqb_sym, E1. reflexivity.
Qed.

Lemma lookup_update st p f q :
  lookup (update st p f) q = if p =? q then option_map f (lookup st q) else lookup st q.
Proof.
  unfold update. induction st as [|[k b] r IH]; cbn [map lookup fst snd option_map].
  - destruct (p =? q); reflexivity.
  - destruct (k =? p) eqn:E1; cbn [lookup].
    + apply N.eqb_eq in E1. subst k. rewrite IH. destruct (p =? q); reflexivity.
    + rewrite IH. destruct (k =? q) eqn:E2; [|reflexivity].
      apply N.eqb_eq in E2. subst k. rewrite N.eqb_sym, E1. reflexivity.
Qed.

Lemma lookup_free st p q : lookup (free st p) q = if negb (p =? NULL) && (p =? q) then None else lookup st q.
Proof.
  unfold free. destruct (p =? NULL); cbn [negb andb]; [reflexivity|]. apply lookup_remove.
Qed.

Definition st_eq (s1 s2 : state) : Prop := forall x, lookup s1 x = lookup s2 x.

Lemma usable_size_eq s1 s2 p : st_eq s1 s2 -> usable_size s1 p = usable_size s2 p.
Proof. intros H. unfold usable_size. rewrite H. reflexivity. Qed.

(* ------------------------------------------------------------------------------------- *)
(* C. representation invariant and the contract of the lower layers                         *)
(* ------------------------------------------------------------------------------------- *)

Definition block_ok (q : N) (b : block) : Prop :=
  blen (b_bytes b) = b_usable b /\ 0 < b_usable b /\ b_req b <= b_usable b /\
  b_adjust b <= q /\ q + b_usable b < W64 /\ 0 < q.

Definition wf (st : state) : Prop := forall q b, lookup st q = Some b -> block_ok q b.

(* the layer contract of an answer to a request of `size` bytes in state `st` *)
Definition answer_ok (st : state) (size : N) (ans : answer) : Prop :=
  match ans with
  | None => True
  | Some (p, u, bytes) =>
      0 < p /\ p + u < W64 /\ blen bytes = u /\ 0 < u /\ size <= u /\
      (forall q b, lookup st q = Some b ->
         p + u <= block_start q b \/ block_start q b + block_usable b <= p)
  end.

Lemma wf_nil : wf [].
Proof. intros q b H. discriminate. Qed.

Lemma answer_ok_st_eq s1 s2 size ans : st_eq s1 s2 -> answer_ok s1 size ans -> answer_ok s2 size ans.
Proof.
  intros E. destruct ans as [[[p u] bytes]|]; [|trivial]. cbn [answer_ok].
  intros (A & B & C & D & F & G). repeat (split; [assumption|]). intros q b Hq. apply G. rewrite E. exact Hq.
Qed.

Lemma wf_st_eq s1 s2 : st_eq s1 s2 -> wf s1 -> wf s2.
Proof. intros E W q b H. apply W. rewrite E. exact H. Qed.

(* an address inside a fresh block is not a live user pointer *)
Lemma answer_fresh st size p u bytes x :
  wf st -> answer_ok st size (Some (p, u, bytes)) -> p <= x -> x < p + u -> lookup st x = None.
Proof.
  intros W (A & B & C & D & F & G) H1 H2.
  destruct (lookup st x) as [b|] eqn:E; [|reflexivity]. exfalso.
  destruct (W _ _ E) as (_ & U & _ & Adj & _ & _).
  destruct (G _ _ E) as [K|K]; unfold block_start, block_usable in K; lia.
Qed.

(* ------------------------------------------------------------------------------------- *)
(* D. allocation                                                                            *)
(* ------------------------------------------------------------------------------------- *)

Lemma req_size_eq size : size < W64 -> wsub (wadd size MI_PADDING_SIZE) MI_PADDING_SIZE = size.
Proof.
  intros H. change MI_PADDING_SIZE with 0. rewrite wadd_small by lia. rewrite wsub_small by lia. lia.
Qed.

Lemma page_malloc_zero_some zero ans p u bytes :
  page_malloc_zero zero ans = Some (p, u, bytes) ->
  exists bytes0, ans = Some (p, u, bytes0) /\ bytes = (if zero then zero_all bytes0 else bytes0).
Proof.
  unfold page_malloc_zero. destruct ans as [[[p0 u0] b0]|]; [|discriminate].
  intros H. injection H as -> -> <-. exists b0. split; reflexivity.
Qed.

Lemma alloc_block_some size zero ha ans p u bytes :
  alloc_block size zero ha ans = Some (p, u, bytes) ->
  exists bytes0, ans = Some (p, u, bytes0) /\ bytes = (if zero then zero_all bytes0 else bytes0).
Proof.
  unfold alloc_block. destruct (size <=? MI_SMALL_SIZE_MAX); [apply page_malloc_zero_some|].
  destruct (_ && _); [discriminate|apply page_malloc_zero_some].
Qed.

Lemma alloc_block_oversize size zero ha ans :
  size < W64 -> MI_MAX_ALLOC_SIZE < size -> alloc_block size zero ha ans = None.
Proof.
  intros Hs Hm. unfold alloc_block. rewrite req_size_eq by assumption.
  assert (F1 : (size <=? MI_SMALL_SIZE_MAX) = false).
  { apply N.leb_gt. unfold MI_SMALL_SIZE_MAX, MI_MAX_ALLOC_SIZE in *. lia. }
  assert (F2 : (MI_MEDIUM_OBJ_SIZE_MAX - MI_PADDING_SIZE <? size) = true).
  { apply N.ltb_lt. unfold MI_MEDIUM_OBJ_SIZE_MAX, MI_PADDING_SIZE, MI_MAX_ALLOC_SIZE in *. lia. }
  assert (F3 : (MI_MAX_ALLOC_SIZE <? size) = true) by (apply N.ltb_lt; assumption).
  rewrite F1, F2, F3. reflexivity.
Qed.

Lemma alloc_block_granted size zero ha p u bytes :
  size < W64 -> size <= MI_MAX_ALLOC_SIZE ->
  alloc_block size zero ha (Some (p, u, bytes)) = Some (p, u, if zero then zero_all bytes else bytes).
Proof.
  intros Hs Hm. unfold alloc_block. rewrite req_size_eq by assumption.
  assert (F3 : (MI_MAX_ALLOC_SIZE <? size) = false) by (apply N.ltb_ge; assumption).
  rewrite F3, andb_false_r. destruct (size <=? MI_SMALL_SIZE_MAX); reflexivity.
Qed.

Lemma alloc_block_none size zero ha ans :
  size < W64 -> alloc_block size zero ha ans = None -> ans = None \/ MI_MAX_ALLOC_SIZE < size.
Proof.
  intros Hs H. destruct (N.le_gt_cases size MI_MAX_ALLOC_SIZE) as [Hm|Hm]; [|right; assumption].
  destruct ans as [[[p u] b]|]; [|left; reflexivity].
  rewrite alloc_block_granted in H by assumption. discriminate.
Qed.

Lemma heap_malloc_zero_some st heap size zero ans st' q :
  heap_malloc_zero st heap size zero ans = (st', Some q) ->
  exists u bytes0, ans = Some (q, u, bytes0) /\
    st' = add st q (mkBlock u (if zero then zero_all bytes0 else bytes0) heap size zero 0).
Proof.
  unfold heap_malloc_zero. destruct (alloc_block size zero 0 ans) as [[[p u] b]|] eqn:E; [|discriminate].
  intros H. injection H as <- <-. apply alloc_block_some in E as (b0 & -> & ->).
  exists u, b0. split; reflexivity.
Qed.

Lemma heap_malloc_zero_none st heap size zero ans st' :
  heap_malloc_zero st heap size zero ans = (st', None) -> st' = st.
Proof.
  unfold heap_malloc_zero. destruct (alloc_block size zero 0 ans) as [[[p u] b]|]; [discriminate|].
  intros H. injection H as <-. reflexivity.
Qed.

(* what a successful allocation establishes *)
Definition alloc_result (st : state) (heap size : N) (zero : bool) (q : N) (blk : block) (st' : state) : Prop :=
  st_eq st' (add st q blk) /\ lookup st q = None /\ block_ok q blk /\ size <= b_usable blk /\
  b_req blk = size /\ b_zero blk = zero /\ b_heap blk = heap /\
  (zero = true -> forall i, byte_at (b_bytes blk) i = 0).

Lemma malloc_result st heap size zero ans st' q :
  wf st -> answer_ok st size ans -> heap_malloc_zero st heap size zero ans = (st', Some q) ->
  exists blk, st' = add st q blk /\ alloc_result st heap size zero q blk st' /\ b_adjust blk = 0 /\
    exists u bytes0, ans = Some (q, u, bytes0) /\ b_usable blk = u /\
                     b_bytes blk = (if zero then zero_all bytes0 else bytes0).
Proof.
  intros W A H. apply heap_malloc_zero_some in H as (u & b0 & -> & ->).
  eexists. split; [reflexivity|]. split; [|split; [reflexivity|exists u, b0; repeat split; reflexivity]].
  pose proof A as A'. destruct A' as (A1 & A2 & A3 & A4 & A5 & A6).
  unfold alloc_result. cbn [b_usable b_bytes b_req b_zero b_heap b_adjust].
  split; [intros x; reflexivity|]. split; [eapply answer_fresh; eauto; lia|].
  split.
  { unfold block_ok. cbn [b_usable b_bytes b_req b_adjust].
    destruct zero; rewrite ?blen_zero_all; repeat split; try assumption; try lia. }
  repeat split; try assumption; try reflexivity.
  intros -> i. apply byte_at_zero_all.
Qed.

Lemma wf_add st q blk : wf st -> block_ok q blk -> wf (add st q blk).
Proof.
  intros W B x b. rewrite lookup_add. destruct (q =? x) eqn:E.
  - apply N.eqb_eq in E. subst x. intros H. injection H as <-. exact B.
  - apply W.
Qed.

Lemma alloc_result_wf st heap size zero q blk st' :
  wf st -> alloc_result st heap size zero q blk st' -> wf st'.
Proof.
  intros W (E & _ & B & _). eapply wf_st_eq; [intros x; symmetry; apply E|]. apply wf_add; assumption.
Qed.

(* ---- aligned allocation ---- *)

Lemma mod_W64_mod_pow2 x k : k <= 64 -> (x mod W64) mod 2 ^ k = x mod 2 ^ k.
Proof.
  intros Hk. pose proof (pow2_pos k) as Hp. pose proof (pow2_pos (64 - k)) as Hp2.
  assert (E : W64 = 2 ^ k * 2 ^ (64 - k)).
  { rewrite <- N.pow_add_r. rewrite W64_pow. f_equal. lia. }
  rewrite E. rewrite N.mod_mul_r by lia.
  rewrite N.mul_comm. rewrite N.mod_add by lia. apply N.mod_mod. lia.
Qed.

Lemma land_wadd_mask p offset k : k < 64 ->
  N.land (wadd p offset) (wsub (2 ^ k) 1) = (p + offset) mod 2 ^ k.
Proof.
  intros Hk. pose proof (pow2_pos k) as Hp.
  rewrite wsub_small by lia. rewrite land_mask. unfold wadd. rewrite wrap_mod.
  apply mod_W64_mod_pow2. lia.
Qed.

Lemma aligned_adjust_spec p k offset :
  k < 64 ->
  let adj := aligned_adjust p (2 ^ k) offset in
  adj < 2 ^ k /\ (p + adj + offset) mod 2 ^ k = 0.
Proof.
  intros Hk. cbv zeta. unfold aligned_adjust. rewrite land_wadd_mask by assumption.
  pose proof (pow2_pos k) as Hp. set (a := 2 ^ k) in *. clearbody a.
  pose proof (N.mod_lt (p + offset) a ltac:(lia)) as Hr.
  pose proof (N.div_mod (p + offset) a ltac:(lia)) as Hd.
  set (r := (p + offset) mod a) in *. set (d := (p + offset) / a) in *. clearbody r d.
  destruct (r =? 0) eqn:E.
  - apply N.eqb_eq in E. subst r. split; [lia|].
    replace (p + 0 + offset) with (0 + d * a) by lia. rewrite N.mod_add by lia. apply N.mod_0_l. lia.
  - apply N.eqb_neq in E. split; [lia|].
    replace (p + (a - r) + offset) with (0 + (d + 1) * a) by lia. rewrite N.mod_add by lia. apply N.mod_0_l. lia.
Qed.

Definition fast_path_b (size alignment offset : N) (o : oracles) : bool :=
  if (size <=? MI_SMALL_SIZE_MAX) && (alignment <=? size) then
    match o_page_free o with
    | Some f => N.land (wadd f offset) (wsub alignment 1) =? 0
    | None => false
    end
  else false.

(* placement of a huge-alignment block by the segment layer (theorem huge_aligned of the segment
   model): the aligned pointer lies inside the block with `size` bytes behind it *)
Definition huge_answer_ok (size alignment : N) (ans : answer) : Prop :=
  MI_BLOCK_ALIGNMENT_MAX < alignment -> forall p u bytes, ans = Some (p, u, bytes) ->
    aligned_adjust p alignment 0 + size <= u /\ aligned_adjust p alignment 0 < u.

(* the layer contract for an aligned allocation: each answer that is consulted answers the request
   that is made on that path *)
Definition oracles_ok (st : state) (size alignment offset : N) (o : oracles) : Prop :=
  if fast_path_b size alignment offset o then
    answer_ok st size (o_ans o) /\
    (forall f p u bytes, o_page_free o = Some f -> o_ans o = Some (p, u, bytes) -> p = f)
  else if (offset =? 0) && malloc_is_naturally_aligned size alignment then
    answer_ok st size (o_ans o) /\
    answer_ok st (overalloc_size size alignment) (o_ans2 o) /\ huge_answer_ok size alignment (o_ans2 o)
  else answer_ok st (overalloc_size size alignment) (o_ans o) /\ huge_answer_ok size alignment (o_ans o).

Lemma overalloc_size_small size alignment :
  size <= MI_MAX_ALLOC_SIZE -> 0 < alignment -> alignment <= MI_BLOCK_ALIGNMENT_MAX ->
  overalloc_size size alignment = N.max size MI_MAX_ALIGN_SIZE + alignment - 1.
Proof.
  intros Hs Ha0 Ha. unfold overalloc_size.
  assert (F : (MI_BLOCK_ALIGNMENT_MAX <? alignment) = false) by (apply N.ltb_ge; assumption).
  rewrite F. unfold MI_MAX_ALLOC_SIZE, MI_BLOCK_ALIGNMENT_MAX, MI_MAX_ALIGN_SIZE in *.
  destruct (size <? 16) eqn:E; [apply N.ltb_lt in E|apply N.ltb_ge in E];
    (rewrite wadd_small by (rewrite W64_val; lia)); (rewrite wsub_small by lia); lia.
Qed.

Lemma overalloc_result st heap size k offset zero ans st' q path :
  wf st -> k < 64 -> size <= MI_MAX_ALLOC_SIZE -> offset < W64 ->
  answer_ok st (overalloc_size size (2 ^ k)) ans -> huge_answer_ok size (2 ^ k) ans ->
  malloc_zero_aligned_at_overalloc st heap size (2 ^ k) offset zero ans = (st', Some q, path) ->
  exists blk, st' = add st q blk /\ alloc_result st heap size zero q blk st' /\ (q + offset) mod 2 ^ k = 0 /\
    exists p u bytes0, ans = Some (p, u, bytes0) /\ q = p + b_adjust blk /\ b_usable blk = u - b_adjust blk /\
      b_adjust blk = aligned_adjust p (2 ^ k) offset /\ b_adjust blk < 2 ^ k /\
      b_adjust blk + size <= u /\
      (zero = false -> forall i, byte_at (b_bytes blk) i = byte_at bytes0 (b_adjust blk + i)).
Proof.
  intros W Hk Hs Ho A Hh H. pose proof (pow2_pos k) as Hp.
  pose proof (aligned_adjust_spec) as AS.
  unfold malloc_zero_aligned_at_overalloc in H.
  destruct (MI_BLOCK_ALIGNMENT_MAX <? 2 ^ k) eqn:Eh.
  - (* huge alignment *)
    apply N.ltb_lt in Eh.
    destruct (offset =? 0) eqn:Eo; cbn [negb] in H; [|discriminate]. apply N.eqb_eq in Eo. subst offset.
    destruct (alloc_block _ false _ ans) as [[[p u] b]|] eqn:E; [|discriminate].
    apply alloc_block_some in E as (b0 & -> & ->).
    destruct (Hh Eh _ _ _ eq_refl) as (Hh1 & Hh2).
    destruct A as (A1 & A2 & A3 & A4 & A5 & A6).
    destruct (AS p k 0 Hk) as (S1 & S2). cbv zeta in S1, S2.
    set (adj := aligned_adjust p (2 ^ k) 0) in *.
    assert (Ew : wadd p adj = p + adj) by (apply wadd_small; lia). rewrite Ew in H.
    injection H as <- <- <-.
    eexists. split; [reflexivity|]. cbn [b_adjust b_usable b_bytes].
    split.
    { unfold alloc_result. cbn [b_usable b_bytes b_req b_zero b_heap b_adjust].
      split; [intros x; reflexivity|].
      split; [eapply (answer_fresh st _ p u b0); [assumption|repeat split; eassumption|lia|lia]|].
      split.
      { unfold block_ok. cbn [b_usable b_bytes b_req b_adjust].
        assert (L : blen (if zero then zero_all (drop adj b0) else drop adj b0) = u - adj).
        { destruct zero; rewrite ?blen_zero_all, blen_drop; lia. }
        repeat split; try lia. exact L. }
      repeat split; try reflexivity; try lia.
      intros -> i. apply byte_at_zero_all. }
    split; [rewrite <- S2; f_equal; lia|].
    exists p, u, b0. repeat split; try reflexivity; try lia.
    intros -> i. apply byte_at_drop.
  - (* over-allocation *)
    apply N.ltb_ge in Eh.
    destruct (alloc_block _ zero 0 ans) as [[[p u] b]|] eqn:E; [|discriminate].
    apply alloc_block_some in E as (b0 & -> & ->).
    rewrite overalloc_size_small in A by (try assumption; lia).
    destruct A as (A1 & A2 & A3 & A4 & A5 & A6).
    destruct (AS p k offset Hk) as (S1 & S2). cbv zeta in S1, S2.
    set (adj := aligned_adjust p (2 ^ k) offset) in *.
    assert (Hm : MI_MAX_ALIGN_SIZE = 16) by reflexivity.
    assert (Ew : wadd p adj = p + adj) by (apply wadd_small; lia). rewrite Ew in H.
    injection H as <- <- <-.
    eexists. split; [reflexivity|]. cbn [b_adjust b_usable b_bytes].
    split.
    { unfold alloc_result. cbn [b_usable b_bytes b_req b_zero b_heap b_adjust].
      split; [intros x; reflexivity|].
      split; [eapply (answer_fresh st _ p u b0); [assumption|repeat split; eassumption|lia|lia]|].
      split.
      { unfold block_ok. cbn [b_usable b_bytes b_req b_adjust]. rewrite blen_drop.
        assert (L : blen (if zero then zero_all b0 else b0) = u) by (destruct zero; rewrite ?blen_zero_all; assumption).
        rewrite L. repeat split; lia. }
      repeat split; try reflexivity; try lia.
      intros -> i. rewrite byte_at_drop. apply byte_at_zero_all. }
    split; [exact S2|].
    exists p, u, b0. repeat split; try reflexivity; try lia.
    intros -> i. apply byte_at_drop.
Qed.
