(* Property C01, segment / span layer (and the huge-alignment placement of C03).
   Pages are spans of 64 KiB slices inside a segment; a pointer is mapped to its page through the slice
   array.  The invariant span_Inv is the translation of mi_segment_is_valid (src/segment.c) plus queue
   exactness; it holds for a fresh segment and is preserved by every span operation, hence in every
   reachable state; used spans are pairwise disjoint; allocation hands out a span that was free; freeing
   removes exactly one used span; coalescing is complete; pointer -> segment -> page recovers the page of
   every live block (interior pointers too); blocks of different pages / segments are disjoint.
   This file contains only statements, each closed by `exact <lemma>`, Print Assumptions, and Examples. *)
From Coq Require Import NArith List Bool Permutation.
From MiV Require Import Gen.Consts Gen.Bins Model.Arith Model.Page Model.Span Proofs.Base Proofs.BitsProofs
  Proofs.SpanBase Proofs.SpanInv Proofs.SpanOps Proofs.SpanRaw Proofs.SpanProofs.
Import ListNotations.
Local Open Scope N_scope.

(* ---- the boolean evaluated on slice arrays dumped from the implementation is the invariant ---- *)
Theorem C01_span_inv_b_spec : forall st, span_inv_b st = true <-> span_Inv st.
Proof. exact span_inv_b_spec. Qed.
Print Assumptions C01_span_inv_b_spec.

(* ---- span_inv_init: the layout built by mi_segment_alloc, normal and huge ---- *)
Theorem C01_span_inv_init_normal :
  segment_init 0 0 empty_queues = Some init_normal /\
  span_Inv init_normal /\ kind (fst init_normal) = SegNormal /\
  coalesced_b (fst init_normal) = true /\ used (fst init_normal) = 0.
Proof. exact (conj segment_init_normal span_inv_init_normal). Qed.
Print Assumptions C01_span_inv_init_normal.

Theorem C01_span_inv_init_huge : forall ss, 2 <= ss -> ss < 4294967296 ->
  exists st, huge_init ss = Some st /\
    span_Inv_with 1 st [(0, 1); (1, ss - 1)] ss /\ used (fst st) = 1 /\ kind (fst st) = SegHuge /\
    info_slices (fst st) = 1 /\
    slice_entries (fst st) = N.min ss MI_SLICES_PER_SEGMENT /\
    get (entries (fst st)) 1 = mkSlice (ss - 1) 0 ((ss - 1) * MI_SEGMENT_SLICE_SIZE) /\
    (1 < N.min (ss - 1) (slice_entries (fst st)) ->
     get (entries (fst st)) (N.min (ss - 1) (slice_entries (fst st))) = follower (N.min (ss - 1) (slice_entries (fst st)) - 1)).
Proof. exact huge_init_inv. Qed.
Print Assumptions C01_span_inv_init_huge.

Theorem C01_segment_init_huge : forall required al ss a' off,
  required <> 0 -> segment_request required al = (ss, 1, a', off) ->
  segment_init required al empty_queues = huge_init ss.
Proof. exact segment_init_huge. Qed.
Print Assumptions C01_segment_init_huge.

(* ---- span_inv_preserved: the single operations (mid-states carry a raw region) ---- *)
Theorem C01_span_allocate_inv : forall sg qs a w l1 l2 m,
  raw_inv (used sg) (sg, qs) a w l1 l2 m ->
  exists st', span_allocate (sg, qs) a w true = Some st' /\
              span_Inv_with (used (fst st')) st' (l1 ++ (a, w) :: l2) m /\ used (fst st') = used sg + 1.
Proof. exact span_allocate_inv. Qed.
Print Assumptions C01_span_allocate_inv.

Theorem C01_slice_split_raw : forall U sg qs a w l1 l2 m k,
  raw_inv U (sg, qs) a w l1 l2 m -> slice_count (get (entries sg) a) = w -> 0 < k -> k < w ->
  let st' := slice_split (sg, qs) a k in
  raw_inv U st' a k l1 ((a + k, w - k) :: l2) m /\ slice_count (get (entries (fst st')) a) = k /\
  used (fst st') = used sg.
Proof. exact slice_split_raw. Qed.
Print Assumptions C01_slice_split_raw.

Theorem C01_span_free_raw : forall U sg qs a w l1 l2 m,
  raw_inv U (sg, qs) a w l1 l2 m -> span_Inv_with U (span_free (sg, qs) a w) (l1 ++ (a, w) :: l2) m.
Proof. exact raw_fill_free. Qed.
Print Assumptions C01_span_free_raw.

Theorem C01_span_free_coalesce_raw : forall U sg qs a w l1 l2 m,
  raw_inv U (sg, qs) a w l1 l2 m -> slice_count (get (entries sg) a) = w ->
  exists l1' l2' a' w',
    let st' := fst (span_free_coalesce (sg, qs) a) in
    snd (span_free_coalesce (sg, qs) a) = a' /\
    span_Inv_with U st' (l1' ++ (a', w') :: l2') m /\ used (fst st') = used sg /\
    a' <= a /\ a + w <= a' + w' /\
    ((l2' = l2 /\ a' + w' = a + w /\ (a + w < slice_entries sg -> 0 < bsz (get (entries sg) (a + w)))) \/
     (exists c2, l2 = (a + w, c2) :: l2' /\ a' + w' = a + w + c2 /\ bsz (get (entries sg) (a + w)) = 0)) /\
    ((l1' = l1 /\ a' = a /\ (forall j cj r, l1 = r ++ [(j, cj)] -> 0 < bsz (get (entries sg) j))) \/
     (exists cj, l1 = l1' ++ [(a', cj)] /\ a' + cj = a /\ bsz (get (entries sg) a') = 0)) /\
    (forall j, j < a' \/ a' + w' <= j -> get (entries (fst st')) j = get (entries sg) j) /\
    bsz (get (entries (fst st')) a') = 0 /\ frame_seg sg (fst st').
Proof. exact span_free_coalesce_raw. Qed.
Print Assumptions C01_span_free_coalesce_raw.

(* a used / a free span of a valid segment becomes the raw region the operations work on *)
Theorem C01_raw_open_used : forall U sg qs sps m i c,
  span_Inv_with U (sg, qs) sps m -> kind sg = SegNormal -> In (i, c) sps -> i <> 0 ->
  0 < bsz (get (entries sg) i) ->
  exists l1 l2, sps = l1 ++ (i, c) :: l2 /\ 1 <= U /\ raw_inv (U - 1) (sg, qs) i c l1 l2 m.
Proof. exact raw_open_used. Qed.
Print Assumptions C01_raw_open_used.

Theorem C01_raw_open_free : forall U sg qs sps m i c,
  span_Inv_with U (sg, qs) sps m -> kind sg = SegNormal -> In (i, c) sps ->
  bsz (get (entries sg) i) = 0 ->
  exists l1 l2, sps = l1 ++ (i, c) :: l2 /\
    raw_inv U (if owned sg then span_queue_delete (sg, qs) (slice_bin c) i else (sg, qs)) i c l1 l2 m.
Proof. exact raw_open_free. Qed.
Print Assumptions C01_raw_open_free.

(* ---- span_inv_preserved: the composite operations, valid state to valid state ---- *)
Theorem C01_find_and_allocate_ok : forall sg qs count suit sps m b idx,
  span_Inv_with (used sg) (sg, qs) sps m -> find_span (sg, qs) count suit = Some (b, idx) ->
  let k := if count =? 0 then 1 else count in
  exists l1 l2 c st',
    sps = l1 ++ (idx, c) :: l2 /\ bsz (get (entries sg) idx) = 0 /\ k <= c /\ suit idx = true /\
    page_find_and_allocate (sg, qs) count suit true = (Some idx, st') /\
    span_Inv_with (used (fst st')) st' (alloc_spans l1 l2 idx c k) m /\
    used (fst st') = used sg + 1 /\ 0 < bsz (get (entries (fst st')) idx) /\
    (k < c -> bsz (get (entries (fst st')) (idx + k)) = 0) /\
    (forall j, j < idx \/ idx + c <= j -> get (entries (fst st')) j = get (entries sg) j).
Proof. exact find_and_allocate_ok. Qed.
Print Assumptions C01_find_and_allocate_ok.

Theorem C01_find_and_allocate_fail : forall sg qs count suit sps m b idx,
  span_Inv_with (used sg) (sg, qs) sps m -> find_span (sg, qs) count suit = Some (b, idx) ->
  exists st' sps', page_find_and_allocate (sg, qs) count suit false = (None, st') /\
    span_Inv_with (used (fst st')) st' sps' m /\ used (fst st') = used sg.
Proof. exact find_and_allocate_fail. Qed.
Print Assumptions C01_find_and_allocate_fail.

(* commit failure: exactly what is restored (in a coalesced segment): the same spans and `used`, every
   entry except the interior entries of the span that was tried, the same queue contents (the tried
   span moves to the front of its queue) *)
Theorem C01_find_and_allocate_fail_restores : forall sg qs count suit sps m b idx,
  span_Inv_with (used sg) (sg, qs) sps m -> CCpos (entries sg) sps ->
  find_span (sg, qs) count suit = Some (b, idx) ->
  exists st' c, page_find_and_allocate (sg, qs) count suit false = (None, st') /\ In (idx, c) sps /\
    span_Inv_with (used sg) st' sps m /\ used (fst st') = used sg /\
    (forall j, j <= idx \/ idx + c - 1 <= j -> get (entries (fst st')) j = get (entries sg) j) /\
    (forall bb, Permutation (q_get (snd st') bb) (q_get qs bb)).
Proof. exact find_and_allocate_fail_restores. Qed.
Print Assumptions C01_find_and_allocate_fail_restores.

Theorem C01_set_block_size_inv : forall U sg qs sps m i c bs,
  span_Inv_with U (sg, qs) sps m -> In (i, c) sps -> 0 < bsz (get (entries sg) i) -> 0 < bs ->
  span_Inv_with U (set_block_size (sg, qs) i bs) sps m.
Proof. exact set_block_size_inv. Qed.
Print Assumptions C01_set_block_size_inv.

Theorem C01_page_clear_huge : forall U sg qs sps m i c,
  span_Inv_with U (sg, qs) sps m -> used sg = U -> kind sg = SegHuge -> In (i, c) sps -> i <> 0 ->
  0 < bsz (get (entries sg) i) ->
  let st' := fst (page_clear (sg, qs) i) in
  span_Inv_with (used (fst st')) st' sps m /\ used (fst st') = U - 1 /\ 1 <= U /\
  (forall j, j <> i -> get (entries (fst st')) j = get (entries sg) j) /\ bsz (get (entries (fst st')) i) = 0.
Proof. exact page_clear_huge. Qed.
Print Assumptions C01_page_clear_huge.

Theorem C01_span_inv_preserved : forall st o st', span_Inv st -> span_step st o = Some st' -> span_Inv st'.
Proof. exact span_inv_step. Qed.
Print Assumptions C01_span_inv_preserved.

Theorem C01_span_inv_run : forall st ops st', span_Inv st -> span_run st ops = Some st' -> span_Inv st'.
Proof. exact span_inv_run. Qed.
Print Assumptions C01_span_inv_run.

(* ---- span_inv_reachable ---- *)
Theorem C01_span_inv_reachable : forall st, span_reachable st -> span_Inv st.
Proof. exact span_inv_reachable. Qed.
Print Assumptions C01_span_inv_reachable.

(* ---- used_spans_disjoint ---- *)
Theorem C01_used_spans_disjoint : forall st, span_Inv st ->
  (forall i1 c1 i2 c2, In (i1, c1) (used_spans (fst st)) -> In (i2, c2) (used_spans (fst st)) ->
     (i1 = i2 /\ c1 = c2) \/ i1 + c1 <= i2 \/ i2 + c2 <= i1) /\
  (forall i c, In (i, c) (used_spans (fst st)) ->
     0 < c /\ i < slice_entries (fst st) /\ (i = 0 /\ c = info_slices (fst st) \/ info_slices (fst st) <= i) /\
     (kind (fst st) = SegNormal -> i + c <= slice_entries (fst st))).
Proof. exact used_spans_disjoint. Qed.
Print Assumptions C01_used_spans_disjoint.

(* ---- coalesce_complete ---- *)
Theorem C01_coalesce_complete : forall st, span_reachable st -> coalesced (fst st).
Proof. exact coalesce_complete. Qed.
Print Assumptions C01_coalesce_complete.

Theorem C01_span_step_coalesced : forall st o st',
  span_Inv st -> coalesced (fst st) -> span_step st o = Some st' -> coalesced (fst st').
Proof. exact span_step_coalesced. Qed.
Print Assumptions C01_span_step_coalesced.

Theorem C01_coalesced_b_spec : forall U st sps m, span_Inv_with U st sps m ->
  (coalesced_b (fst st) = true <-> CCpos (entries (fst st)) sps).
Proof. exact coalesced_b_spec. Qed.
Print Assumptions C01_coalesced_b_spec.

(* the search over the span queues of several segments picks, in the segment it chooses, the slice that the
   search over that segment's own queues picks (this is what the dump replay checks per segment) *)
Theorem C01_t_find_proj : forall segs tqs count suit sid idx sg,
  t_find segs tqs count suit = Some (sid, idx) -> seg_lookup segs sid = Some sg ->
  exists b, find_span (sg, proj_queues sid tqs) count (fun _ => suit sid) = Some (b, idx).
Proof. exact t_find_proj. Qed.
Print Assumptions C01_t_find_proj.

(* ---- allocate_fresh / free_frame ---- *)
Theorem C01_allocate_fresh : forall sg qs count suit idx st',
  span_Inv (sg, qs) -> page_find_and_allocate (sg, qs) count suit true = (Some idx, st') ->
  let k := if count =? 0 then 1 else count in
  exists sps c, spans_of sg = Some sps /\ In (idx, c) sps /\ bsz (get (entries sg) idx) = 0 /\ k <= c /\
    (forall i' c', In (i', c') (used_spans sg) -> i' + c' <= idx \/ idx + c <= i') /\
    (forall sp, In sp (used_spans (fst st')) <-> sp = (idx, k) \/ In sp (used_spans sg)) /\
    (forall j, j < idx \/ idx + c <= j -> get (entries (fst st')) j = get (entries sg) j) /\
    used (fst st') = used sg + 1 /\ span_Inv st'.
Proof. exact allocate_fresh. Qed.
Print Assumptions C01_allocate_fresh.

Theorem C01_free_frame : forall sg qs idx c,
  span_Inv (sg, qs) -> In (idx, c) (used_spans sg) -> idx <> 0 ->
  let st' := fst (page_clear (sg, qs) idx) in
  (forall sp, In sp (used_spans (fst st')) <-> sp <> (idx, c) /\ In sp (used_spans sg)) /\
  used (fst st') = used sg - 1 /\ 1 <= used sg /\ span_Inv st'.
Proof. exact free_frame. Qed.
Print Assumptions C01_free_frame.

(* ---- page_of_correct / ptr_roundtrip ---- *)
Theorem C01_page_of_correct : forall base st i c p,
  span_Inv st ->
  base mod MI_SEGMENT_SIZE = 0 -> 0 < base -> base + MI_SEGMENT_SIZE < 2^63 ->
  In (i, c) (used_spans (fst st)) -> i <> 0 ->
  fst (page_start base (fst st) i) <= p -> p < fst (page_start base (fst st) i) + snd (page_start base (fst st) i) ->
  p <= base + MI_SEGMENT_SIZE ->
  (kind (fst st) = SegHuge -> slice_index_of base p <= slice_entries (fst st)) ->
  (slice_index_of base p - i <= MI_MAX_SLICE_OFFSET_COUNT \/
   slice_index_of base p = N.min (i + c - 1) (slice_entries (fst st))) ->
  ptr_segment p = base /\ segment_page_of base (fst st) p = i.
Proof. exact page_of_correct. Qed.
Print Assumptions C01_page_of_correct.

Theorem C01_ptr_roundtrip : forall base st i c b off,
  span_Inv st ->
  base mod MI_SEGMENT_SIZE = 0 -> 0 < base -> base + MI_SEGMENT_SIZE < 2^63 ->
  In (i, c) (used_spans (fst st)) -> i <> 0 ->
  let start := fst (page_start base (fst st) i) in let psize := snd (page_start base (fst st) i) in
  let bs := bsz (get (entries (fst st)) i) in
  let p := start + b * bs + off in
  off < bs -> bs < W64 -> p < start + psize -> p <= base + MI_SEGMENT_SIZE ->
  (kind (fst st) = SegHuge -> slice_index_of base p <= slice_entries (fst st)) ->
  (slice_index_of base p - i <= MI_MAX_SLICE_OFFSET_COUNT \/
   slice_index_of base p = N.min (i + c - 1) (slice_entries (fst st))) ->
  ptr_segment p = base /\ segment_page_of base (fst st) p = i /\ ptr_unalign start bs p = start + b * bs.
Proof. exact ptr_roundtrip. Qed.
Print Assumptions C01_ptr_roundtrip.

(* ---- C03 huge_aligned ---- *)
Theorem C03_huge_aligned : forall size k base ss info al off,
  25 <= k -> k < 47 -> 0 < size -> size < 2^47 ->
  segment_request size (2^k) = (ss, info, al, off) ->
  (base + off) mod (2^k) = 0 ->
  0 < base -> base + ss * MI_SEGMENT_SLICE_SIZE < 2^63 ->
  exists st, segment_init size (2^k) empty_queues = Some st /\ span_Inv st /\ kind (fst st) = SegHuge /\
    al = 2^k /\ info = info_slices (fst st) /\
    let p := huge_aligned_ptr base (fst st) (2^k) in
    p mod (2^k) = 0 /\ ptr_segment p = base /\ segment_page_of base (fst st) p = info_slices (fst st) /\
    fst (page_start base (fst st) (info_slices (fst st))) <= p /\
    p + size <= base + ss * MI_SEGMENT_SLICE_SIZE.
Proof. exact huge_aligned. Qed.
Print Assumptions C03_huge_aligned.

(* ---- blocks_disjoint_across_pages ---- *)
Theorem C01_blocks_disjoint_across_pages : forall base1 st1 i1 c1 b1 base2 st2 i2 c2 b2 e1 e2,
  span_Inv st1 -> span_Inv st2 ->
  base1 mod MI_SEGMENT_SIZE = 0 -> base1 + MI_SEGMENT_SIZE < 2^63 ->
  base2 mod MI_SEGMENT_SIZE = 0 -> base2 + MI_SEGMENT_SIZE < 2^63 ->
  In (i1, c1) (used_spans (fst st1)) -> In (i2, c2) (used_spans (fst st2)) ->
  block_in_page base1 st1 i1 b1 -> block_in_page base2 st2 i2 b2 ->
  (i1 + c1) * MI_SEGMENT_SLICE_SIZE <= e1 -> (i2 + c2) * MI_SEGMENT_SLICE_SIZE <= e2 ->
  (base1 = base2 -> st1 = st2) -> (base1 <> base2 -> base1 + e1 <= base2 \/ base2 + e2 <= base1) ->
  (base1, i1, b1) <> (base2, i2, b2) ->
  block_hi base1 st1 i1 b1 <= block_lo base2 st2 i2 b2 \/ block_hi base2 st2 i2 b2 <= block_lo base1 st1 i1 b1.
Proof. exact blocks_disjoint_across_pages. Qed.
Print Assumptions C01_blocks_disjoint_across_pages.

(* ---- Examples: the hypotheses are satisfiable on concrete non-trivial states ---- *)

(* a segment after allocate / split / free / coalesce steps, including a failed commit *)
Definition ex_ops : list span_op :=
  [OpAlloc 1 true true; OpSetBlockSize 1 16; OpAlloc 8 true true; OpSetBlockSize 2 1024;
   OpAlloc 1 true true; OpSetBlockSize 10 32; OpFree 2; OpAlloc 3 true true; OpAlloc 300 true true;
   OpAlloc 300 true true; OpFree 1; OpFree 10; OpAlloc 2 true false; OpAlloc 2 true true; OpFree 11].
Definition ex_state : state := match span_run init_normal ex_ops with Some st => st | None => dummy_state end.

Example C01_span_example_reachable : span_run init_normal ex_ops = Some ex_state.
Proof. vm_compute. reflexivity. Qed.

Example C01_span_example_inv :
  span_inv_b ex_state = true /\ coalesced_b (fst ex_state) = true /\
  spans_of (fst ex_state) = Some [(0, 1); (1, 1); (2, 3); (5, 2); (7, 505)] /\
  used_spans (fst ex_state) = [(0, 1); (2, 3); (5, 2)] /\ used (fst ex_state) = 2 /\
  q_get (snd ex_state) (slice_bin 1) = [1] /\ q_get (snd ex_state) (slice_bin 505) = [7].
Proof. vm_compute. repeat split; reflexivity. Qed.

(* pointer lookup on that state: an interior address of the 3-slice page at slice 2 *)
Example C01_span_example_page_of :
  let base := 5 * MI_SEGMENT_SIZE in
  let p := fst (page_start base (fst ex_state) 2) + 150000 in
  ptr_segment p = base /\ segment_page_of base (fst ex_state) p = 2 /\ slice_index_of base p = 4.
Proof. vm_compute. repeat split; reflexivity. Qed.

(* a huge segment of 641 slices (a 40 MiB block): valid, the entry at slice_entries carries the back-offset *)
Definition ex_huge : state := match huge_init 641 with Some st => st | None => dummy_state end.
Example C01_span_example_huge :
  span_inv_b ex_huge = true /\ slice_entries (fst ex_huge) = 512 /\
  get (entries (fst ex_huge)) 512 = follower 511 /\ get (entries (fst ex_huge)) 257 = slice0 /\
  span_inv_b (fst (page_clear ex_huge 1)) = true.
Proof. vm_compute. repeat split; reflexivity. Qed.

(* the counter-statement: an address deeper than MI_MAX_SLICE_OFFSET_COUNT slices into the huge page
   (and not in its last entry) does NOT resolve -- this is why MI_BLOCK_ALIGNMENT_MAX bounds the offset
   of interior pointers *)
Example C01_page_of_beyond_offset_count_fails :
  let base := 5 * MI_SEGMENT_SIZE in
  let p := fst (page_start base (fst ex_huge) 1) + 300 * MI_SEGMENT_SLICE_SIZE in   (* slice 301 of the page at slice 1 *)
  fst (page_start base (fst ex_huge) 1) <= p /\
  p < fst (page_start base (fst ex_huge) 1) + snd (page_start base (fst ex_huge) 1) /\
  ptr_segment p = base /\ slice_index_of base p - 1 = 300 /\
  segment_page_of base (fst ex_huge) p = 301 /\ segment_page_of base (fst ex_huge) p <> 1.
Proof. vm_compute. repeat split; try reflexivity; intro H; discriminate H. Qed.

(* huge alignment: a 100000-byte block aligned to 64 MiB *)
Example C03_huge_aligned_example :
  let base := 3 * 67108864 - 33554432 in
  match segment_init 100000 67108864 empty_queues with
  | Some st => span_inv_b st = true /\ segment_request 100000 67108864 = (514, 1, 67108864, 33554432) /\
               huge_aligned_ptr base (fst st) 67108864 = 3 * 67108864 /\
               ptr_segment (3 * 67108864) = base /\ segment_page_of base (fst st) (3 * 67108864) = 1
  | None => False
  end.
Proof. vm_compute. repeat split; reflexivity. Qed.
