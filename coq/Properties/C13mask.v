(* Property C13, mask / purge clauses ("purging and decommitting only ever affect memory that holds no live block, and the
   allocator never reads or writes memory it has decommitted") at the level of the commit/purge masks of a segment and of
   mi_os_page_align_areax.  This is the property file of C13 (there is no
   Properties/C13.v); the option matrix on the real allocator is tools/props/C13.py.
   Only statements closed by `exact <lemma>`, Print Assumptions, and Examples. *)
From Coq Require Import NArith ZArith List Bool.
From MiV Require Import Gen.Consts Gen.OsConsts Model.Arith Model.Os Model.Mask Model.Purge
  Proofs.OsProofs Proofs.MaskProofs Proofs.PurgeProofs Proofs.MaskSound.
Import ListNotations.
Local Open Scope N_scope.

(* conservative rounding (purge): only slices that lie completely inside [p, p+size) are named, and the byte range handed
   to the OS is exactly those slices (inside [p, p+size)) *)
Theorem C13_conservative_inside : forall s p size start full mask,
  seg_ok s -> s_base s <= p -> p + size <= s_base s + s_size s ->
  segment_commit_mask s true p size = (start, full, mask) ->
  (forall k, N.testbit mask k = true -> p <= s_base s + k * CS /\ s_base s + (k + 1) * CS <= p + size) /\
  (mask <> 0 ->
     p <= start /\ start + full <= p + size /\
     exists i c, start = s_base s + i * CS /\ full = c * CS /\ 0 < c /\ i + c <= MASK_BITS /\
                 forall k, N.testbit mask k = (i <=? k) && (k <? i + c)) /\
  (full = 0 -> mask = 0).
Proof. exact conservative_inside. Qed.
Print Assumptions C13_conservative_inside.

(* liberal rounding (commit): every byte of [p, p+size) is covered by the mask and by the byte range handed to the OS *)
Theorem C13_liberal_covers : forall s p size start full mask,
  seg_ok s -> is_huge s = false -> 0 < size -> size <= MI_SEGMENT_SIZE ->
  s_base s <= p -> p + size <= s_base s + s_size s ->
  segment_commit_mask s false p size = (start, full, mask) ->
  (forall a, p <= a -> a < p + size -> N.testbit mask ((a - s_base s) / CS) = true) /\
  start <= p /\ p + size <= start + full /\ start + full <= s_base s + s_size s /\
  exists i c, start = s_base s + i * CS /\ full = c * CS /\ 0 < c /\ i + c <= MASK_BITS /\
              forall k, N.testbit mask k = (i <=? k) && (k <? i + c).
Proof. exact liberal_covers. Qed.
Print Assumptions C13_liberal_covers.

(* the same two for mi_os_page_align_areax *)
Theorem C13_page_align_conservative_inside : forall addr size start csize,
  addr + size < 2 ^ 62 ->
  os_page_align_area true addr size = (start, csize) -> 0 < csize ->
  addr <= start /\ start + csize <= addr + size /\ start mod PAGE = 0 /\ csize mod PAGE = 0.
Proof. exact page_align_conservative_inside. Qed.
Print Assumptions C13_page_align_conservative_inside.

Theorem C13_page_align_liberal_covers : forall addr size start csize,
  0 < addr -> 0 < size -> addr + size < 2 ^ 62 ->
  os_page_align_area false addr size = (start, csize) ->
  start <= addr /\ addr + size <= start + csize /\ start mod PAGE = 0 /\ csize mod PAGE = 0 /\ 0 < csize.
Proof. exact page_align_liberal_covers. Qed.
Print Assumptions C13_page_align_liberal_covers.

(* purge_mask is a subset of commit_mask: preserved by commit, ensure_committed, purge, schedule_purge, try_purge
   (for every range, option setting, oracle and time) *)
Theorem C13_purge_mask_subset_commit : forall cfg oracle o s p size now force,
  msub (s_purge s) (s_commit s) ->
  (let s' := snd (fst (segment_commit cfg oracle o s p size now)) in msub (s_purge s') (s_commit s')) /\
  (let s' := snd (fst (segment_ensure_committed cfg oracle o s p size now)) in msub (s_purge s') (s_commit s')) /\
  (let s' := snd (segment_purge cfg oracle o s p size) in msub (s_purge s') (s_commit s')) /\
  (let s' := snd (segment_schedule_purge cfg oracle o s p size now) in msub (s_purge s') (s_commit s')) /\
  (let s' := snd (segment_try_purge cfg oracle o s force now) in msub (s_purge s') (s_commit s')).
Proof.
  intros cfg oracle o s p size now force H.
  exact (conj (segment_commit_subset cfg oracle o s p size now H)
        (conj (ensure_committed_subset cfg oracle o s p size now H)
        (conj (segment_purge_subset cfg oracle o s p size H)
        (conj (schedule_subset cfg oracle o s p size now H) (try_purge_subset cfg oracle o s force now H))))).
Qed.
Print Assumptions C13_purge_mask_subset_commit.

(* allocate_clears_purge + commit_then_accessible: after a SUCCESSFUL mi_segment_ensure_committed (what
   mi_segment_span_allocate calls before a span becomes a page) every slice of the range is committed and NOT scheduled for
   purging any more; if the commit mask was sound (bit set => memory accessible in the ghost kernel) the whole range is
   accessible and the mask is still sound -- for every oracle (a refused commit makes the call return false) *)
Theorem C13_ensure_committed : forall cfg oracle o s p size now o' s',
  seg_ok2 s -> is_huge s = false -> 0 < size -> size <= MI_SEGMENT_SIZE ->
  s_base s <= p -> p + size <= s_base s + s_size s ->
  segment_ensure_committed cfg oracle o s p size now = (o', s', true) ->
  (forall a, p <= a -> a < p + size ->
     N.testbit (s_purge s') ((a - s_base s) / CS) = false /\ N.testbit (s_commit s') ((a - s_base s) / CS) = true) /\
  (mask_sound o s -> mask_sound o' s' /\ forall a, p <= a -> a < p + size -> accessible (os_k o') a = true).
Proof. exact ensure_committed_spec. Qed.
Print Assumptions C13_ensure_committed.


(* the commit mask stays sound under purge, also in builds where a decommit revokes access (decommit_protects): every slice
   whose commit bit is set after mi_segment_purge / mi_segment_try_purge / mi_segment_schedule_purge is accessible in the
   ghost kernel afterwards -- for every (p, size), wrapped pointer arithmetic included: the range handed to _mi_os_purge is
   exactly the slices of the conservative mask, and the commit bits of that mask are cleared whenever the OS call reports
   needs_recommit (with C13_ensure_committed: the allocator never touches memory it has decommitted) *)
Theorem C13_mask_sound_purge : forall cfg oracle o s p size, seg_ok2 s -> is_huge s = false -> mask_sound o s ->
  mask_sound (fst (segment_purge cfg oracle o s p size)) (snd (segment_purge cfg oracle o s p size)).
Proof. exact mask_sound_purge. Qed.
Print Assumptions C13_mask_sound_purge.

Theorem C13_mask_sound_try_purge : forall cfg oracle o s force now, seg_ok2 s -> is_huge s = false -> mask_sound o s ->
  mask_sound (fst (segment_try_purge cfg oracle o s force now)) (snd (segment_try_purge cfg oracle o s force now)).
Proof. exact mask_sound_try_purge. Qed.
Print Assumptions C13_mask_sound_try_purge.

Theorem C13_mask_sound_schedule_purge : forall cfg oracle o s p size now, seg_ok2 s -> is_huge s = false -> mask_sound o s ->
  mask_sound (fst (segment_schedule_purge cfg oracle o s p size now)) (snd (segment_schedule_purge cfg oracle o s p size now)).
Proof. exact mask_sound_schedule_purge. Qed.
Print Assumptions C13_mask_sound_schedule_purge.

(* purge_only_scheduled: every system call issued by mi_segment_try_purge is on the slices of one run of the purge mask,
   i.e. on slices that a span FREE scheduled and no allocation has taken back since (C13_ensure_committed clears them) *)
Theorem C13_purge_only_scheduled : forall cfg oracle o s force now,
  seg_ok2 s -> is_huge s = false -> s_size s = MI_SEGMENT_SIZE -> s_allow_purge s = true ->
  s_expire s <> 0%Z -> s_purge s <> 0 -> msub (s_purge s) (s_commit s) ->
  force = true \/ (s_expire s <= now)%Z ->
  forall sg, In sg (calls (fst (segment_try_purge cfg oracle o s force now))) ->
  In sg (calls o) \/
  exists r, In r (mask_runs (s_purge s)) /\ snd (fst sg) = snd r * CS /\ snd (fst (fst sg)) = s_base s + fst r * CS /\
            forall k, in_run r k -> N.testbit (s_purge s) k = true.
Proof. exact try_purge_only_scheduled. Qed.
Print Assumptions C13_purge_only_scheduled.

(* a single mi_segment_purge touches the two masks only inside its own conservative mask *)
Theorem C13_purge_masks : forall cfg oracle o s p size,
  let m := snd (segment_commit_mask s true p size) in
  let s' := snd (segment_purge cfg oracle o s p size) in
  (s_purge s' = s_purge s \/ s_purge s' = N.ldiff (s_purge s) m) /\
  (s_commit s' = s_commit s \/ (s_commit s' = N.ldiff (s_commit s) m /\ s_purge s' = N.ldiff (s_purge s) m)).
Proof. exact segment_purge_masks. Qed.
Print Assumptions C13_purge_masks.

(* an arena purge pass touches only blocks that are scheduled and NOT in use; the in-use bitmap is unchanged *)
Theorem C13_arena_purge_only_free : forall cfg oracle o a now force,
  a_pinned a = false -> force = true \/ (a_expire a <> 0%Z /\ (a_expire a <= now)%Z) ->
  let a' := snd (fst (arena_try_purge cfg oracle o a now force)) in
  aframe a a' /\ a_inuse a' = a_inuse a /\ a_expire a' = 0%Z /\
  (forall b, b < a_field_count a * 64 -> N.testbit (a_purge a') b = N.testbit (a_purge a) b && N.testbit (a_inuse a) b) /\
  (forall b, a_field_count a * 64 <= b -> N.testbit (a_purge a') b = N.testbit (a_purge a) b) /\
  ((purge_delay cfg < 0)%Z -> fst (fst (arena_try_purge cfg oracle o a now force)) = o).
Proof. exact arena_try_purge_spec. Qed.
Print Assumptions C13_arena_purge_only_free.

(* ---------------------------------------------------------------- non-vacuity *)
Definition ex_seg : segment :=
  {| s_base := 2 ^ 40; s_kind := SegNormal; s_size := MI_SEGMENT_SIZE; s_info_size := 65536; s_commit := 1; s_purge := 0;
     s_expire := 0%Z; s_allow_decommit := true; s_allow_purge := true |}.
(* a range that starts and ends inside slices: conservative = the 2 inner slices (bits 4,5), liberal = 4 slices (bits 3..6) *)
Example C13_ex_rounding :
  segment_commit_mask ex_seg true (2 ^ 40 + 3 * 65536 + 100) (3 * 65536) = (2 ^ 40 + 4 * 65536, 2 * 65536, 48) /\
  segment_commit_mask ex_seg false (2 ^ 40 + 3 * 65536 + 100) (3 * 65536) = (2 ^ 40 + 3 * 65536, 4 * 65536, 120) /\
  os_page_align_area true 8193 8191 = (12288, 4096) /\ os_page_align_area false 8193 8191 = (8192, 8192).
Proof. vm_compute. repeat split. Qed.
(* lazily committed segment (only the info slice committed), commit of slices 3..6 through the ghost kernel *)
Definition ex_os : os :=
  {| os_k := {| k_maps := [ {| m_base := 2 ^ 40; m_len := MI_SEGMENT_SIZE |} ];
                k_at := fun a => {| pg_rw := a <? 2 ^ 40 + 65536; pg_purged := false |} |};
     os_seq := O; os_log := []; os_hint := 0 |}.
Example C13_ex_commit :
  let '(o1, s1, ok) := segment_ensure_committed default_cfg (fun _ => {| a_ok := true; a_addr := 0 |}) ex_os ex_seg
                          (2 ^ 40 + 3 * 65536 + 100) (3 * 65536) 1000 in
  ok = true /\ s_commit s1 = 121 /\ calls o1 = [(KMprotect, 2 ^ 40 + 3 * 65536, 4 * 65536, PROT_RW_)] /\
  accessible (os_k o1) (2 ^ 40 + 3 * 65536 + 100) = true /\ accessible (os_k ex_os) (2 ^ 40 + 3 * 65536 + 100) = false.
Proof. vm_compute. repeat split. Qed.
