(* Property C18 -- unused memory is purged after the configured delay without a forced collect.
   Only statements, each closed by `exact <lemma>`, and Print Assumptions; Examples for non-vacuity.
   Models: Model/Os.v (ghost kernel, system-call log), Model/Mask.v (segments), Model/Purge.v (arenas, as
   repaired by 9676b42 and c59c73f).  `now` is the value of _mi_clock_now(); cfg are the option values. *)
From Coq Require Import NArith ZArith List Bool.
From MiV Require Import Gen.Consts Gen.OsConsts Model.Arith Model.Os Model.Mask Model.MaskWords Model.Purge
  Proofs.OsProofs Proofs.MaskProofs Proofs.MaskWordsProofs Proofs.PurgeProofs Proofs.PurgePasses Proofs.ArenaCalls.
Import ListNotations.
Local Open Scope N_scope.

(* ---------------------------------------------------------------- segments *)
(* now < purge_expire and not forced: the state is unchanged and no OS call is issued *)
Theorem C18_segment_not_before_delay : forall cfg oracle o s now,
  (now < s_expire s)%Z -> segment_try_purge cfg oracle o s false now = (o, s).
Proof. exact try_purge_not_expired. Qed.
Print Assumptions C18_segment_not_before_delay.

(* now >= purge_expire (or forced): exactly the runs of the purge mask (which lies inside the commit mask) are handed
   to _mi_os_purge, in order; the purge mask becomes empty and purge_expire 0.  `purge_sigs` are the system calls of
   _mi_os_purge on a page-aligned range: madvise(DONTNEED) [+ mprotect(NONE) in debug builds] or madvise(FREE), none
   when purge_delay < 0 *)
Theorem C18_segment_purge_after_delay : forall cfg oracle o s force now,
  seg_ok2 s -> is_huge s = false -> s_size s = MI_SEGMENT_SIZE -> s_allow_purge s = true ->
  s_expire s <> 0%Z -> s_purge s <> 0 -> msub (s_purge s) (s_commit s) ->
  force = true \/ (s_expire s <= now)%Z ->
  let r := segment_try_purge cfg oracle o s force now in
  calls (fst r) = calls o ++ flat_map (fun r => purge_sigs cfg (s_base s + fst r * CS) (snd r * CS) true) (mask_runs (s_purge s)) /\
  s_purge (snd r) = 0 /\ s_expire (snd r) = 0%Z /\ msub (s_commit (snd r)) (s_commit s) /\ same_frame s (snd r).
Proof. exact try_purge_expired. Qed.
Print Assumptions C18_segment_purge_after_delay.

(* the runs are exactly the set bits of the mask: every position of a run is a set bit below 512, every set bit below
   512 lies in a run, and the runs are disjoint and increasing *)
Theorem C18_runs_exact : forall cm,
  (forall r k, In r (mask_runs cm) -> in_run r k -> k < MASK_BITS /\ N.testbit cm k = true) /\
  (forall k, k < MASK_BITS -> N.testbit cm k = true -> exists r, In r (mask_runs cm) /\ in_run r k) /\
  sorted_from 0 (mask_runs cm).
Proof. intros cm. exact (conj (mask_runs_sound cm) (conj (mask_runs_complete cm) (mask_runs_sorted cm))). Qed.
Print Assumptions C18_runs_exact.

(* the run iteration itself.  _mi_commit_mask_next_run returns the FIRST MAXIMAL run of set bits at or after idx (the
   remainder of a run when idx lies inside it), or (MASK_BITS, 0) when no bit is set from idx on -- for every mask and idx *)
Theorem C18_next_run_first_maximal_run : forall cm idx,
  let r := commit_mask_next_run cm idx in
  (snd r = 0 /\ fst r = MASK_BITS /\ forall k, idx <= k -> k < MASK_BITS -> N.testbit cm k = false) \/
  (0 < snd r /\ idx <= fst r /\ fst r + snd r <= MASK_BITS /\
   (forall k, idx <= k -> k < fst r -> N.testbit cm k = false) /\
   (forall k, fst r <= k -> k < fst r + snd r -> N.testbit cm k = true) /\
   (fst r + snd r = MASK_BITS \/ N.testbit cm (fst r + snd r) = false)).
Proof. exact next_run_bits_spec. Qed.
Print Assumptions C18_next_run_first_maximal_run.

(* iterating it from 0 the way mi_commit_mask_foreach does (idx = 0; while ((count = next_run(cm,&idx)) > 0) { ...; idx += count })
   terminates and enumerates exactly the maximal runs of set bits, in increasing order, each once: the visited list IS
   mask_runs cm (what mi_segment_try_purge hands to mi_segment_purge), which is sorted, sound, complete, and every run is
   bounded on both sides by a clear bit or an end of the mask *)
Theorem C18_foreach_enumerates_maximal_runs : forall cm,
  foreach_runs cm = Some (mask_runs cm) /\
  sorted_from 0 (mask_runs cm) /\
  (forall r k, In r (mask_runs cm) -> in_run r k -> k < MASK_BITS /\ N.testbit cm k = true) /\
  (forall k, k < MASK_BITS -> N.testbit cm k = true -> exists r, In r (mask_runs cm) /\ in_run r k) /\
  (forall r, In r (mask_runs cm) ->
     (fst r = 0 \/ N.testbit cm (fst r - 1) = false) /\ (fst r + snd r = MASK_BITS \/ N.testbit cm (fst r + snd r) = false)).
Proof. exact foreach_enumerates. Qed.
Print Assumptions C18_foreach_enumerates_maximal_runs.

(* the loops of the C function over the 8 words of 64 bits (Model/MaskWords.v: word index i, bit offset ofs that is reset to 0
   when the scan moves to the next word, reload of the word when a run of ones reaches bit 63) compute that function, for all
   8-word masks and every idx; hence the word-level foreach visits mask_runs too *)
Theorem C18_next_run_words_refines : forall ws idx, length ws = 8%nat -> Forall (fun w => w < 2 ^ 64) ws ->
  next_run_words ws idx = commit_mask_next_run (mask_of_fields ws) idx /\
  foreach_words ws = Some (mask_runs (mask_of_fields ws)).
Proof. exact words_refine. Qed.
Print Assumptions C18_next_run_words_refines.

(* the three expiry-update cases of mi_segment_schedule_purge (and the fourth: an old expired mask is purged first) *)
Theorem C18_schedule_expiry_rules : forall cfg oracle o s p size now st fu m,
  s_allow_purge s = true -> purge_delay cfg <> 0%Z ->
  segment_commit_mask s true p size = (st, fu, m) -> m <> 0 -> fu <> 0 ->
  let s1 := set_purge s (N.lor (s_purge s) (N.land (s_commit s) m)) in
  (s_expire s = 0%Z -> segment_schedule_purge cfg oracle o s p size now = (o, set_expire s1 (now + purge_delay cfg)%Z)) /\
  (s_expire s <> 0%Z -> (now < s_expire s)%Z ->
     segment_schedule_purge cfg oracle o s p size now = (o, set_expire s1 (s_expire s + purge_extend_delay cfg)%Z)) /\
  (s_expire s <> 0%Z -> (s_expire s <= now)%Z -> (now < s_expire s + purge_extend_delay cfg)%Z ->
     segment_schedule_purge cfg oracle o s p size now = (o, set_expire s1 (now + purge_extend_delay cfg)%Z)) /\
  (s_expire s <> 0%Z -> (s_expire s + purge_extend_delay cfg <= now)%Z -> (s_expire s <= now)%Z ->
     segment_schedule_purge cfg oracle o s p size now = segment_try_purge cfg oracle o s1 true now).
Proof. exact schedule_rules. Qed.
Print Assumptions C18_schedule_expiry_rules.

(* purge_delay = 0: scheduling IS purging (segments and arenas) *)
Theorem C18_delay0_immediate : forall cfg oracle,
  (forall o s p size now, s_allow_purge s = true -> purge_delay cfg = 0%Z ->
     segment_schedule_purge cfg oracle o s p size now = segment_purge cfg oracle o s p size) /\
  (forall o g a idx blocks now, arena_purge_delay cfg = 0%Z ->
     arena_schedule_purge cfg oracle o g a idx blocks now =
       (fst (arena_purge cfg oracle o a idx blocks), g, snd (arena_purge cfg oracle o a idx blocks))).
Proof. intros cfg oracle. exact (conj (schedule_delay0 cfg oracle) (arena_schedule_delay0 cfg oracle)). Qed.
Print Assumptions C18_delay0_immediate.

(* ... and a purge of a run of whole slices with a committed slice issues the OS purge at once *)
Theorem C18_delay0_purges_now : forall cfg oracle o s i c,
  seg_ok2 s -> is_huge s = false -> s_allow_purge s = true -> 0 < c -> (i + c) * CS <= s_size s ->
  (exists k, i <= k /\ k < i + c /\ N.testbit (s_commit s) k = true) ->
  let r := segment_purge cfg oracle o s (wadd (s_base s) (wmul i CS)) (wmul c CS) in
  calls (fst r) = calls o ++ purge_sigs cfg (s_base s + i * CS) (c * CS) true /\
  s_purge (snd r) = N.ldiff (s_purge s) (commit_mask_create i c) /\
  (s_commit (snd r) = s_commit s \/ s_commit (snd r) = N.ldiff (s_commit s) (commit_mask_create i c)).
Proof. exact segment_purge_run. Qed.
Print Assumptions C18_delay0_purges_now.

(* purge_delay < 0: no schedule, no purge, no pass ever changes the OS state or issues a system call;
   segments created with a negative delay have allow_purge = false and are not even scheduled *)
Theorem C18_delay_neg_never : forall cfg oracle, (purge_delay cfg < 0)%Z ->
  (forall o p size ar, os_purge_ex cfg oracle o p size ar = (o, false)) /\
  (forall o s p size, fst (segment_purge cfg oracle o s p size) = o) /\
  (forall o s p size now, fst (segment_schedule_purge cfg oracle o s p size now) = o) /\
  (forall o s force now, fst (segment_try_purge cfg oracle o s force now) = o) /\
  (forall o s p size now, s_allow_purge s = false -> segment_schedule_purge cfg oracle o s p size now = (o, s)).
Proof.
  intros cfg oracle H.
  exact (conj (fun o p size ar => os_purge_ex_neg cfg oracle o p size ar H)
        (conj (fun o s p size => segment_purge_neg cfg oracle o s p size H)
        (conj (fun o s p size now => schedule_neg cfg oracle o s p size now H)
        (conj (fun o s force now => try_purge_neg cfg oracle o s force now H)
              (fun o s p size now => schedule_not_allowed cfg oracle o s p size now))))).
Qed.
Print Assumptions C18_delay_neg_never.

Theorem C18_delay_neg_never_arena : forall cfg oracle,
  (forall o g a idx blocks now, (arena_purge_delay cfg < 0)%Z -> arena_schedule_purge cfg oracle o g a idx blocks now = (o, g, a)) /\
  (forall o g l now force visit_all, (arena_purge_delay cfg <= 0)%Z -> arenas_try_purge cfg oracle o g l now force visit_all = (o, g, l)).
Proof. intros cfg oracle. exact (conj (arena_schedule_neg cfg oracle) (arenas_try_purge_nonpos cfg oracle)). Qed.
Print Assumptions C18_delay_neg_never_arena.

(* ---------------------------------------------------------------- arenas *)
(* one arena visit: not yet expired and not forced -> untouched; expired (or forced) -> exactly the scheduled blocks that
   are not in use lose their purge bit (they were handed to mi_arena_purge), nothing else changes, expiry reset *)
Theorem C18_arena_try_purge : forall cfg oracle o a now,
  (arena_idle a now -> arena_try_purge cfg oracle o a now false = (o, a, false)) /\
  (forall force, a_pinned a = false -> force = true \/ (a_expire a <> 0%Z /\ (a_expire a <= now)%Z) ->
     let a' := snd (fst (arena_try_purge cfg oracle o a now force)) in
     aframe a a' /\ a_inuse a' = a_inuse a /\ a_expire a' = 0%Z /\
     (forall b, b < a_field_count a * 64 -> N.testbit (a_purge a') b = N.testbit (a_purge a) b && N.testbit (a_inuse a) b) /\
     (forall b, a_field_count a * 64 <= b -> N.testbit (a_purge a') b = N.testbit (a_purge a) b) /\
     ((purge_delay cfg < 0)%Z -> fst (fst (arena_try_purge cfg oracle o a now force)) = o)).
Proof.
  intros cfg oracle o a now. split; [exact (arena_try_purge_idle cfg oracle o a now)|].
  intros force. exact (arena_try_purge_spec cfg oracle o a now force).
Qed.
Print Assumptions C18_arena_try_purge.

(* ... and the system calls of that visit (purge_delay >= 0, purge_decommits): every scheduled block that is not in use lies in
   a block range [i, i+c) that the visit hands to madvise(start + i * BLOCK, c * BLOCK, MADV_DONTNEED).  arena_geom: the
   arena starts page-aligned and does not wrap around; with block_count <= field_count * 64 these are the facts
   mi_manage_os_memory_ex2 establishes for every arena (start aligned to MI_SEGMENT_ALIGN, field_count = divide_up(block_count, 64));
   without them the statement is false in the model (Proofs/ArenaCalls.v, arena_try_purge_calls_any_arena_refuted: for an
   unaligned start _mi_os_purge rounds the range inwards) *)
Theorem C18_arena_try_purge_calls : forall cfg oracle, (0 <= purge_delay cfg)%Z -> purge_decommits cfg = true ->
  forall o a now force,
  a_pinned a = false -> arena_geom a -> a_block_count a <= a_field_count a * 64 ->
  force = true \/ (a_expire a <> 0%Z /\ (a_expire a <= now)%Z) ->
  forall b, b < a_block_count a -> N.testbit (a_purge a) b = true -> N.testbit (a_inuse a) b = false ->
  exists i c, i <= b /\ b < i + c /\
    In (KMadvise, a_start a + i * BLOCK, c * BLOCK, MADV_DONTNEED_) (calls (fst (fst (arena_try_purge cfg oracle o a now force)))).
Proof. exact arena_try_purge_calls. Qed.
Print Assumptions C18_arena_try_purge_calls.

(* a NON-forced pass once the global expiry and the arena's expiry have passed: the first arena of the list that is
   not idle is purged (exactly its scheduled blocks that are not in use) *)
Theorem C18_arena_purge_after_delay : forall cfg oracle o g pre a post now visit_all,
  (0 < arena_purge_delay cfg)%Z -> g <> 0%Z -> (g <= now)%Z ->
  Forall (fun x => arena_idle x now) pre ->
  a_pinned a = false -> a_expire a <> 0%Z -> (a_expire a <= now)%Z ->
  exists a' post',
    snd (arenas_try_purge cfg oracle o g (pre ++ a :: post) now false visit_all) = pre ++ a' :: post' /\
    a' = snd (fst (arena_try_purge cfg oracle o a now false)) /\
    a_inuse a' = a_inuse a /\ a_expire a' = 0%Z /\
    (forall b, b < a_field_count a * 64 -> N.testbit (a_purge a') b = N.testbit (a_purge a) b && N.testbit (a_inuse a) b).
Proof. exact arena_purge_after_delay. Qed.
Print Assumptions C18_arena_purge_after_delay.

(* every non-forced pass that runs either visits ALL arenas (each expired one is purged as above) or is cut short after
   max_purge_count purging arenas, in which case the global expiry stays armed at now + delay *)
Theorem C18_arena_pass_progress : forall cfg oracle o g l now visit_all,
  (0 < arena_purge_delay cfg)%Z -> g <> 0%Z -> (g <= now)%Z ->
  let r := arenas_try_purge cfg oracle o g l now false visit_all in
  Forall2 (visited false now) l (snd r) \/ snd (fst r) = (now + arena_purge_delay cfg)%Z.
Proof. exact pass_visits_all_or_rearms. Qed.
Print Assumptions C18_arena_pass_progress.

(* "within one extra delay period": an arena whose own expiry has not passed when the pass runs stays scheduled, the
   global expiry is re-armed to now + delay, and its own expiry (scheduled no later than now) is then not later *)
Theorem C18_arena_pending_rearms : forall cfg oracle o g l now visit_all a,
  (0 < arena_purge_delay cfg)%Z -> g <> 0%Z -> (g <= now)%Z ->
  In a l -> a_expire a <> 0%Z -> (now < a_expire a)%Z ->
  let r := arenas_try_purge cfg oracle o g l now false visit_all in
  snd (fst r) = (now + arena_purge_delay cfg)%Z /\ In a (snd r) /\
  ((a_expire a <= now + arena_purge_delay cfg)%Z -> (a_expire a <= snd (fst r))%Z).
Proof. exact pass_keeps_armed. Qed.
Print Assumptions C18_arena_pending_rearms.

(* expiry_fields_consistent: whenever some arena has purge_expire <> 0 the global expiry is <> 0 -- an invariant of
   every history of arena frees, arena allocations, forced and non-forced collects (times >= 0) *)
Theorem C18_expiry_fields_consistent : forall cfg oracle h st,
  times_nonneg h = true -> expiry_consistent st -> expiry_consistent (prun cfg oracle st h).
Proof. exact expiry_fields_consistent. Qed.
Print Assumptions C18_expiry_fields_consistent.

(* repeated passes: from a state with consistent expiry fields, non-forced collects one arena purge delay apart, the first
   one not before any pending expiry, leave no arena that can be purged with a pending expiry: k = 1 + the number of such
   arenas passes suffice although every pass stops after max_purge_count = 2 purging arenas (the pass re-arms the global
   expiry to now + delay, the time of the next pass).  The clock value t0 is not negative: _mi_clock_now() is the
   millisecond count of a monotonic clock; for a negative clock the statement is false in the model (Proofs/PurgePasses.v,
   arena_eventually_purged_any_clock_refuted: a pass at now = -delay re-arms the global expiry to 0 = "not armed") *)
Theorem C18_arena_eventually_purged : forall cfg oracle st,
  (0 < arena_purge_delay cfg)%Z -> expiry_consistent st ->
  exists k, forall t0, (0 <= t0)%Z -> (forall a, In a (p_arenas st) -> (a_expire a <= t0)%Z) -> (p_g st <= t0)%Z ->
    let h := map (fun i => (PCollect false, (t0 + Z.of_nat i * arena_purge_delay cfg)%Z)) (seq 0 k) in
    forall a', In a' (p_arenas (prun cfg oracle st h)) -> a_pinned a' = false -> a_expire a' = 0%Z.
Proof. exact arena_eventually_purged. Qed.
Print Assumptions C18_arena_eventually_purged.

(* ---------------------------------------------------------------- non-vacuity / regression scenarios *)
(* the two histories that defeated the code before repair c59c73f (two arenas; one arena with a forced collect):
   after the pass at t0+120ms the global expiry is re-armed (1000220) while the arena expiry 1000150 is pending, and the
   next non-forced collect purges the block *)
Example C18_ex_two_arenas :
  let st1 := prun default_cfg wit_oracle wit2_state (firstn 3 wit2_hist) in
  let st := prun default_cfg wit_oracle wit2_state wit2_hist in
  (p_g st1 = 1000220%Z /\ map a_expire (p_arenas st1) = [0%Z; 1000150%Z] /\ map a_purge (p_arenas st1) = [0; 1]) /\
  (p_g st = 0%Z /\ map a_expire (p_arenas st) = [0%Z; 0%Z] /\ map a_purge (p_arenas st) = [0; 0] /\
   calls (p_os st) = [(KMadvise, 2 ^ 40, BLOCK, MADV_DONTNEED_); (KMadvise, 2 ^ 41, BLOCK, MADV_DONTNEED_)]).
Proof. exact wit2_result. Qed.
Example C18_ex_single_arena :
  let st1 := prun default_cfg wit_oracle wit1_state (firstn 4 wit1_hist) in
  let st := prun default_cfg wit_oracle wit1_state wit1_hist in
  (p_g st1 = 1000220%Z /\ map a_expire (p_arenas st1) = [1000150%Z] /\ map a_purge (p_arenas st1) = [2]) /\
  (p_g st = 0%Z /\ map a_expire (p_arenas st) = [0%Z] /\ map a_purge (p_arenas st) = [0] /\
   calls (p_os st) = [(KMadvise, 2 ^ 40, BLOCK, MADV_DONTNEED_); (KMadvise, 2 ^ 40 + BLOCK, BLOCK, MADV_DONTNEED_)]).
Proof. exact wit1_result. Qed.

(* the hypotheses of C18_arena_try_purge_calls hold for the arena of the single-arena scenario after its frees *)
Example C18_ex_arena_calls_hyps :
  let a := {| a_start := 2 ^ 40; a_block_count := 32; a_field_count := 1; a_inuse := N.ones 64 - N.ones 32; a_committed := N.ones 64;
              a_purge := 3; a_expire := 1000150%Z; a_pinned := false |} in
  arena_geom a /\ a_block_count a <= a_field_count a * 64 /\ (0 <= purge_delay default_cfg)%Z /\ purge_decommits default_cfg = true /\
  N.testbit (a_purge a) 1 = true /\ N.testbit (a_inuse a) 1 = false /\
  calls (fst (fst (arena_try_purge default_cfg wit_oracle wit1_os a 1000150 false))) = [(KMadvise, 2 ^ 40, 2 * BLOCK, MADV_DONTNEED_)].
Proof. exact ex_arena_calls_hyps. Qed.

(* run iteration over several words: freed pages at slices 20 and 69 (word 0 bit 20, word 1 bit 5: the later run at a LOWER
   bit position), a run across the boundary of words 1 and 2 (slices 126..129) and one that ends at the last bit of the mask *)
Example C18_ex_runs_words :
  let ws := [2 ^ 20; 2 ^ 5 + 2 ^ 62 + 2 ^ 63; 3; 0; 0; 0; 0; 2 ^ 63] in
  foreach_words ws = Some [(20, 1); (69, 1); (126, 4); (511, 1)] /\
  next_run_words ws 21 = (69, 1) /\ next_run_words ws 127 = (127, 3) /\ next_run_words ws 130 = (511, 1) /\
  next_run_words ws 512 = (512, 0) /\ length ws = 8%nat /\ mask_runs (mask_of_fields ws) = [(20, 1); (69, 1); (126, 4); (511, 1)].
Proof. vm_compute. repeat split. Qed.

(* a segment with slices 3..6 scheduled at t=1000 (default options: delay 10ms): untouched at t=1009, purged by one
   madvise(DONTNEED) of 4 slices at t=1010 *)
Definition ex_seg : segment :=
  {| s_base := 2 ^ 40; s_kind := SegNormal; s_size := MI_SEGMENT_SIZE; s_info_size := 65536; s_commit := mask_full; s_purge := 0;
     s_expire := 0%Z; s_allow_decommit := true; s_allow_purge := true |}.
Definition ex_os : os :=
  {| os_k := {| k_maps := [ {| m_base := 2 ^ 40; m_len := MI_SEGMENT_SIZE |} ]; k_at := fun _ => {| pg_rw := true; pg_purged := false |} |};
     os_seq := O; os_log := []; os_hint := 0 |}.
Example C18_ex_segment :
  let '(o1, s1) := segment_schedule_purge default_cfg wit_oracle ex_os ex_seg (2 ^ 40 + 3 * 65536) (4 * 65536) 1000 in
  let '(o2, s2) := segment_try_purge default_cfg wit_oracle o1 s1 false 1009 in
  let '(o3, s3) := segment_try_purge default_cfg wit_oracle o2 s2 false 1010 in
  s_purge s1 = 120 /\ s_expire s1 = 1010%Z /\ calls o1 = [] /\ calls o2 = [] /\ s_purge s2 = 120 /\
  s_purge s3 = 0 /\ s_expire s3 = 0%Z /\ calls o3 = [(KMadvise, 2 ^ 40 + 3 * 65536, 4 * 65536, MADV_DONTNEED_)].
Proof. vm_compute. repeat split. Qed.
(* the hypotheses of C18_segment_purge_after_delay hold for that scheduled segment *)
Example C18_ex_segment_hyps :
  let s1 := snd (segment_schedule_purge default_cfg wit_oracle ex_os ex_seg (2 ^ 40 + 3 * 65536) (4 * 65536) 1000) in
  seg_ok2 s1 /\ is_huge s1 = false /\ s_size s1 = MI_SEGMENT_SIZE /\ s_allow_purge s1 = true /\ s_expire s1 <> 0%Z /\
  s_purge s1 <> 0 /\ msub (s_purge s1) (s_commit s1).
Proof.
  cbv zeta. split; [|split; [reflexivity|split; [reflexivity|split; [reflexivity|split; [vm_compute; discriminate|split; [vm_compute; discriminate|]]]]]].
  - unfold seg_ok2, seg_ok. repeat split; vm_compute; try reflexivity; intros H; discriminate H.
  - apply all_set_msub. vm_compute. reflexivity.
Qed.
