(* Property C11 -- freed memory is given back: OS regions unmapped, footprint does not creep.
   Only statements closed by `exact <lemma>`, Print Assumptions, and Examples.
   Models: Model/Os.v (ghost kernel + oracle), Model/Purge.v (arena purge): the OS layer (every region obtained from
   the OS is unmapped again with the recorded base and size), the thread-metadata cache and the arena purge of a forced
   collect.  The whole-workload clause ("everything freed + forced collect: segments, arena blocks and OS-backed
   regions are given back; repeating the workload does not grow") needs the segment layer and is in
   Properties/C11back.v, on Model/Commit.v: C11_all_freed_gives_back, C11_workload_fixpoint, C11_workload_repeat,
   C11_forced_collect_purges (the Commit.v analogue of C11_forced_collect_purges_arena below).
   k_wf: pages outside every mapping are in the default state; k_eq k k': same list of mappings, same page states;
   munmaps_ok: no munmap in the log was refused (refusals are C07). *)
From Coq Require Import NArith ZArith List Bool.
From MiV Require Import Gen.Consts Gen.OsConsts Model.Arith Model.Os Model.Mask Model.Purge
  Proofs.OsProofs Proofs.MaskProofs Proofs.PurgeProofs.
Import ListNotations.
Local Open Scope N_scope.

(* _mi_os_alloc_aligned: for ALL sizes and alignments (size_t values) and ALL oracles (kernel address choices, refusals of
   mmap/madvise): the returned address is aligned, [p, p+size) lies inside ONE fresh mapping [p, p+len_up good) (pages
   outside it are untouched -- also on the over-allocate-and-trim path), and the memid records base and size *)
Theorem C11_os_alloc_aligned_spec : forall cfg oracle o size alignment commit al o1 p m,
  k_wf (os_k o) -> size < W64 -> alignment < W64 ->
  os_alloc_aligned cfg oracle o size alignment commit al = (o1, Some (p, m)) ->
  munmaps_ok (os_log o1) = true ->
  let good := os_good_alloc_size size in
  p mod (align_up alignment PAGE) = 0 /\ 0 < p /\ 0 < size /\ size <= good /\ good <= len_up good /\
  p + len_up good <= ADDR_LIMIT /\
  m = memid_create_os commit true false p good /\
  holds_fresh o o1 p (len_up good) /\ log_ext o o1.
Proof. exact os_alloc_aligned_spec. Qed.
Print Assumptions C11_os_alloc_aligned_spec.

(* os_free_inverse: _mi_os_free_ex applied to what the allocation returned (with ANY size argument and still_committed
   flag) removes exactly the mapping(s) the allocation created: the ghost kernel is what it was *)
Theorem C11_os_free_inverse_alloc : forall cfg oracle o size o1 p m fsize sc o2,
  k_wf (os_k o) -> size < W64 ->
  os_alloc cfg oracle o size = (o1, Some (p, m)) ->
  os_free_ex oracle o1 p fsize sc m = o2 -> munmaps_ok (os_log o2) = true ->
  k_eq (os_k o) (os_k o2).
Proof. exact os_free_inverse_alloc. Qed.
Print Assumptions C11_os_free_inverse_alloc.

Theorem C11_os_free_inverse_aligned : forall cfg oracle o size alignment commit al o1 p m fsize sc o2,
  k_wf (os_k o) -> size < W64 -> alignment < W64 ->
  os_alloc_aligned cfg oracle o size alignment commit al = (o1, Some (p, m)) ->
  os_free_ex oracle o1 p fsize sc m = o2 -> munmaps_ok (os_log o2) = true ->
  k_eq (os_k o) (os_k o2).
Proof. exact os_free_inverse_aligned. Qed.
Print Assumptions C11_os_free_inverse_aligned.

(* with an offset: size and alignment within the address space (the C asserts offset <= size, alignment a page multiple) *)
Theorem C11_os_free_inverse_at_offset : forall cfg oracle o size alignment offset commit al o1 p m fsize sc o2,
  k_wf (os_k o) -> size < 2 ^ 62 -> alignment < 2 ^ 62 -> offset <= MI_SEGMENT_SIZE ->
  os_alloc_aligned_at_offset cfg oracle o size alignment offset commit al = (o1, Some (p, m)) ->
  os_free_ex oracle o1 p fsize sc m = o2 -> munmaps_ok (os_log o2) = true ->
  k_eq (os_k o) (os_k o2).
Proof. exact os_free_inverse_at_offset. Qed.
Print Assumptions C11_os_free_inverse_at_offset.

(* thread_data_released: after _mi_thread_data_collect every cache slot is empty and exactly one munmap(base, size) was
   issued for every cached block (blocks as _mi_os_alloc produced them), in slot order *)
Theorem C11_thread_data_released : forall oracle c o,
  (forall e, In e (td_cached c) -> td_entry_ok e) ->
  let r := thread_data_collect oracle o c in
  snd r = map (fun _ => None) c /\
  calls (fst r) = calls o ++ map (fun e => (KMunmap, fst e, mem_size (snd e), 0)) (td_cached c).
Proof. exact thread_data_collect_spec. Qed.
Print Assumptions C11_thread_data_released.

(* forced_collect_purges_arena: with purging enabled (arena delay > 0; with delay 0 blocks are purged when they are freed,
   C18_delay0_immediate) a forced mi_arenas_try_purge visits EVERY arena, and afterwards no block of a purgeable arena is
   still scheduled unless it is in use: every scheduled free block was handed to mi_arena_purge *)
Theorem C11_forced_collect_purges_arena : forall cfg oracle o g l now,
  (0 < arena_purge_delay cfg)%Z ->
  let l' := snd (arenas_try_purge cfg oracle o g l now true true) in
  Forall2 (visited true now) l l' /\
  forall a', In a' l' -> a_pinned a' = false ->
             forall b, b < a_field_count a' * 64 -> N.testbit (a_purge a') b = true -> N.testbit (a_inuse a') b = true.
Proof. exact forced_collect_purges_arena. Qed.
Print Assumptions C11_forced_collect_purges_arena.

(* ---------------------------------------------------------------- non-vacuity *)
(* the kernel answers the hinted mmap with a misaligned address: free, over-allocate 64 MiB, trim 2 pieces, and the free
   afterwards leaves no mapping; the empty kernel is well formed *)
Definition ex_oracle (n : nat) : answer := {| a_ok := true; a_addr := 2 ^ 30 + 4096 + 2 ^ 35 * N.of_nat n |}.
Example C11_ex_trim :
  let '(o1, r) := os_alloc_aligned default_cfg ex_oracle os0 (32 * 1024 * 1024) (32 * 1024 * 1024) true false in
  match r with
  | Some (p, m) =>
    let o2 := os_free_ex ex_oracle o1 p (32 * 1024 * 1024) true m in
    p = 69826772992 /\ p mod (32 * 1024 * 1024) = 0 /\ mem_base m = p /\ mem_size m = 33554432 /\
    k_maps (os_k o1) = [{| m_base := p; m_len := 33554432 |}] /\
    calls o1 = [(KMmap, 2199023255552, 33554432, 3); (KMunmap, 1073745920, 33554432, 0); (KMmap, 0, 67108864, 3);
                (KMunmap, 69793222656, 33550336, 0); (KMunmap, 69860327424, 4096, 0)] /\
    k_maps (os_k o2) = [] /\ munmaps_ok (os_log o2) = true
  | None => False
  end.
Proof. vm_compute. repeat split. Qed.
Example C11_ex_wf : k_wf (os_k os0).
Proof. exact kernel0_wf. Qed.
