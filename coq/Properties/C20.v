(* Property C20 -- options, environment parsing and diagnostic output are total and memory-safe.
   Only statements, each closed by `exact <lemma>`, Print Assumptions, and Examples.
   Vocabulary (Model/Opt.v, Proofs/OptProofs.v): a destination buffer carries a `fault` flag that is
   set by any read or write at an index >= its length, so `fault = false` + `blen = size` says "never
   touches memory outside the buffer of that size"; `okb b n` abbreviates both. *)
From Coq Require Import NArith ZArith List Bool.
From MiV Require Import Gen.Consts Gen.Options Model.Arith Model.Opt Proofs.Base Proofs.OptProofs.
Import ListNotations.
Local Open Scope N_scope.

(* ---- bounded string helpers -------------------------------------------------------------- *)
(* _mi_strlcpy(&b[d], src, size) for every source, every size > 0 and every destination that has
   `size` bytes at d: no fault; n = min(strlen src, size-1) < size bytes of the source are copied,
   followed by the terminator; every other byte of the destination is unchanged *)
Theorem strlcpy_bounded_terminated : forall b d src size,
  0 < size -> d + size <= blen b -> fault b = false ->
  let r := strlcpy b d src size in
  let n := N.min (strlen src) (size - 1) in
  fault r = false /\ blen r = blen b /\ n < size /\
  (forall i, i < n -> bget r (d + i) = nthN src i) /\
  bget r (d + n) = 0 /\
  (forall j, j < d \/ d + n < j -> bget r j = bget b j).
Proof. exact strlcpy_spec. Qed.
Print Assumptions strlcpy_bounded_terminated.

(* _mi_strlcat: k = length of the string already in the destination (at most size-1) *)
Theorem strlcat_bounded_terminated : forall b d src size,
  0 < size -> d + size <= blen b -> fault b = false ->
  let r := strlcat b d src size in
  let k := N.min (strlen (dropN (bdata b) d)) (size - 1) in
  let n := N.min (strlen src) (size - k - 1) in
  fault r = false /\ blen r = blen b /\ k + n < size /\
  (forall i, i < n -> bget r (d + k + i) = nthN src i) /\
  bget r (d + k + n) = 0 /\
  (forall j, j < d + k \/ d + k + n < j -> bget r j = bget b j).
Proof. exact strlcat_spec. Qed.
Print Assumptions strlcat_bounded_terminated.

(* _mi_getenv on an arbitrary environment, name and result buffer: no fault; when found, the result
   holds the first min(strlen value, size-1) bytes of the value of an entry that defines the name
   (case-insensitively), terminated; when not found the buffer is untouched *)
Theorem getenv_bounded : forall env name res size,
  size <= blen res -> fault res = false ->
  let '(found, r) := mi_getenv env name res size in
  fault r = false /\ blen r = blen res /\
  (found = false -> r = res) /\
  (found = true -> 64 <= size /\ exists s, In s env /\ env_match name s = true /\
      let n := N.min (strlen (env_value name s)) (size - 1) in
      n < size /\ (forall i, i < n -> bget r i = nthN (env_value name s) i) /\ bget r n = 0 /\
      (forall j, n < j -> bget r j = bget res j)).
Proof. exact getenv_bounded_lemma. Qed.
Print Assumptions getenv_bounded.

(* with at most 10000 entries, "not found" means that no entry defines the name *)
Theorem getenv_complete : forall env name res size r,
  64 <= size -> strlen name <> 0 -> N.of_nat (length env) <= 10000 ->
  mi_getenv env name res size = (false, r) -> forall s, In s env -> env_match name s = false.
Proof. exact mi_getenv_notfound. Qed.
Print Assumptions getenv_complete.

(* ---- the decision of mi_option_init on a value ------------------------------------------- *)
(* u: the value as mi_option_init sees it (bytes, no NUL).  Exactly the empty string and the words
   1/TRUE/YES/ON in any letter case give 1, exactly 0/FALSE/NO/OFF give 0 (PWord) *)
Theorem parse_bool_words : forall kib u, isbytes u = true -> nonul u = true ->
  (parse_value kib u = PWord 1 <-> u = [] \/ In (map toupper u) true_words) /\
  (parse_value kib u = PWord 0 <-> In (map toupper u) false_words).
Proof. exact parse_bool_words_lemma. Qed.
Print Assumptions parse_bool_words.

(* [whitespace][sign]digits on an ordinary option: the decimal value, saturated to LONG_MAX/LONG_MIN *)
Theorem parse_decimal_saturates : forall ws sg ds,
  forallb isspace ws = true -> is_sign sg -> ds <> [] -> forallb isdigit ds = true ->
  let u := ws ++ sg ++ ds in
  u <> w_1 -> u <> w_0 ->
  parse_value false u = PNum (clamp_long (sign_apply sg (decval ds))).
Proof. exact parse_decimal_lemma. Qed.
Print Assumptions parse_decimal_saturates.

Theorem clamp_long_saturates : forall v,
  ((LONG_MAX_ < v)%Z -> clamp_long v = LONG_MAX_) /\
  ((v < LONG_MIN_)%Z -> clamp_long v = LONG_MIN_) /\
  ((LONG_MIN_ <= v <= LONG_MAX_)%Z -> clamp_long v = v).
Proof. exact clamp_long_spec. Qed.
Print Assumptions clamp_long_saturates.

(* [whitespace][sign]digits[K|M|G|T][B|IB] on the two size-in-KiB options *)
Theorem parse_size_suffixes : forall ws sg ds un tl,
  forallb isspace ws = true -> is_sign sg -> ds <> [] -> forallb isdigit ds = true -> is_unit un -> is_tail tl ->
  let u := ws ++ sg ++ ds ++ un ++ tl in
  u <> w_1 -> u <> w_0 ->
  parse_value true u = PNum (kib_value (clamp_long (sign_apply sg (decval ds))) (hd0 (un ++ tl))).
Proof. exact parse_size_lemma. Qed.
Print Assumptions parse_size_suffixes.

(* ... where the value in KiB is: bytes rounded up without unit, x1 / x1024 / x2^20 / x2^30 for
   K / M / G / T, negative numbers count as 0, and anything above MI_MAX_ALLOC_SIZE (in particular a
   product that overflows size_t) saturates to MI_MAX_ALLOC_SIZE / KiB *)
Theorem parse_size_values : forall v,
  let size := Z.to_N (Z.max 0 v) in
  kib_value v 0  = Z.of_N (sat_kib ((size + 1023) / 1024)) /\
  kib_value v 66 = Z.of_N (sat_kib ((size + 1023) / 1024)) /\
  kib_value v 73 = Z.of_N (sat_kib ((size + 1023) / 1024)) /\
  kib_value v 75 = Z.of_N (sat_kib size) /\
  kib_value v 77 = Z.of_N (sat_kib (size * 1024)) /\
  kib_value v 71 = Z.of_N (sat_kib (size * 1048576)) /\
  kib_value v 84 = Z.of_N (sat_kib (size * 1073741824)).
Proof. exact kib_value_units. Qed.
Print Assumptions parse_size_values.

(* "malformed" as a boolean predicate: not empty, not one of the eight words, not in the grammar;
   the value is rejected exactly then.  grammar_b is the declarative grammar (second theorem) *)
Theorem malformed_iff_invalid : forall kib u, nonul u = true -> isbytes u = true ->
  (parse_value kib u = PInvalid <-> malformed_b kib u = true).
Proof. exact parse_invalid_iff. Qed.
Print Assumptions malformed_iff_invalid.

Theorem malformed_grammar : forall kib u, grammar_b kib u = true <-> Grammar kib u.
Proof. exact grammar_b_iff. Qed.
Print Assumptions malformed_grammar.

(* mi_option_init after the value was found (s: the 65-byte array holding the value, a value of at
   most 64 bytes; b: the 65-byte scratch array): a malformed value leaves the option's value in
   place with init = DEFAULTED and changes no other option; every other value initialises the
   option; no fault in either array.  (iff: the two cases are complementary) *)
Theorem malformed_keeps_default : forall t i s b,
  in_range t i = true -> fault s = false -> fault b = false -> 65 <= blen b ->
  lenN (bstr s 0) <= 64 -> isbytes (bstr s 0) = true ->
  let u := map toupper (bstr s 0) in
  let '(r, s', b') := option_init_found t i s b in
  fault s' = false /\ fault b' = false /\
  (malformed_b (has_size_in_kib i) u = true ->
     exists t', r = Some t' /\ o_value (tget t' i) = o_value (tget t i) /\ o_init (tget t' i) = DEFAULTED /\
                forall j, j <> i -> tget t' j = tget t j) /\
  (malformed_b (has_size_in_kib i) u = false -> exists t', r = Some t' /\ o_init (tget t' i) = INITIALIZED).
Proof. exact malformed_keeps_default_lemma. Qed.
Print Assumptions malformed_keeps_default.

(* values longer than 64 bytes: only the first 64 bytes take part in the decision (known finding
   impl:long-value-truncated: the clause "malformed keeps the default" fails for them) *)
Theorem long_value_truncated : forall t i s b,
  fault s = false -> fault b = false -> 65 <= blen b ->
  let '(r, s', b') := option_init_found t i s b in
  r = apply_pres t i (parse_value (has_size_in_kib i) (map toupper (takeN 64 (bstr s 0)))) /\
  fault s' = false /\ fault b' = false /\ blen b' = blen b.
Proof. exact option_init_found_spec. Qed.
Print Assumptions long_value_truncated.

(* witness: purge_delay with <63 spaces>"1x" (65 bytes, malformed) becomes 1 *)
Theorem long_value_refuted :
  lenN long_witness = 65 /\ malformed_b false (map toupper long_witness) = true /\
  o_name (tget table0 idx_purge_delay) = [112; 117; 114; 103; 101; 95; 100; 101; 108; 97; 121] /\
  get_via_env idx_purge_delay long_witness = Some (1%Z, INITIALIZED, false) /\
  o_value (tget table0 idx_purge_delay) <> 1%Z.
Proof. exact long_value_refuted_lemma. Qed.
Print Assumptions long_value_refuted.

(* ---- option table ------------------------------------------------------------------------- *)
Theorem set_get_roundtrip : forall t i v env pre s0 b0, in_range t i = true ->
  exists t', option_set t i v = Some t' /\ option_get t' i env pre s0 b0 = Some (v, t', false) /\
             o_init (tget t' i) = INITIALIZED.
Proof. exact set_get_roundtrip_lemma. Qed.
Print Assumptions set_get_roundtrip.

(* mi_option_set changes only the option itself and the coupled guarded_min/guarded_max *)
Theorem set_frame : forall t i v, in_range t i = true ->
  exists t', option_set t i v = Some t' /\ length t' = length t /\
             o_value (tget t' i) = v /\ o_init (tget t' i) = INITIALIZED /\
             (forall j, j <> i -> j <> opt_guarded_min -> j <> opt_guarded_max -> tget t' j = tget t j).
Proof. exact option_set_spec. Qed.
Print Assumptions set_frame.

Theorem set_default_spec : forall t i v, in_range t i = true ->
  let t' := option_set_default t i v in
  o_init (tget t' i) = o_init (tget t i) /\
  o_value (tget t' i) = (if o_init (tget t i) =? INITIALIZED then o_value (tget t i) else v) /\
  (forall j, j <> i -> tget t' j = tget t j).
Proof. exact set_default_lemma. Qed.
Print Assumptions set_default_spec.

Theorem option_out_of_range_ignored : forall t i v env pre s0 b0, in_range t i = false ->
  option_set t i v = Some t /\ option_set_default t i v = t /\ option_get t i env pre s0 b0 = Some (0%Z, t, false).
Proof. exact out_of_range_lemma. Qed.
Print Assumptions option_out_of_range_ignored.

(* every option of the table regenerated from /repo, through the complete mi_option_get path
   (MIMALLOC_<NAME> lookup, parsing, table update): decimal, words, empty, sign, unit, malformed *)
Theorem env_sets_every_option : forallb check_env_option (seq 0 option_count) = true.
Proof. exact env_sets_every_option_lemma. Qed.
Print Assumptions env_sets_every_option.

(* ---- _mi_vsnprintf ------------------------------------------------------------------------ *)
(* for every format, argument list and buffer size: a result exists (the loop terminates), nothing
   outside the bufsize bytes is touched, and for bufsize > 0 the returned length is < bufsize with a
   terminator at that index.  `base` is the address of the buffer; the hypothesis excludes field
   widths so large that `start + width` wraps around the address space in mi_out_alignright
   (fmt_maxw fmt = the largest width written in fmt; see vsnprintf_width_wrap_faults) *)
Theorem vsnprintf_no_fault_terminated : forall base fmt args b bufsize,
  blen b = bufsize -> fault b = false -> base + bufsize + N.max (fmt_maxw fmt) 16 < W64 ->
  exists r ret, vsnprintf base b bufsize fmt args = Some (r, ret) /\
    fault r = false /\ blen r = bufsize /\
    (bufsize = 0 -> r = b /\ ret = 0) /\
    (0 < bufsize -> ret < bufsize /\ bget r ret = 0).
Proof. exact vsnprintf_lemma. Qed.
Print Assumptions vsnprintf_no_fault_terminated.

(* outside that hypothesis the code does fault: a width of 2^64-8 on a stack-like address *)
Example vsnprintf_width_wrap_faults :
  match vsnprintf 140737488351200 (newbuf 170 32) 32
          [37; 49; 56; 52; 52; 54; 55; 52; 52; 48; 55; 51; 55; 48; 57; 53; 53; 49; 54; 48; 56; 100] [AInt 5] with
  | Some (r, _) => fault r = true
  | None => False
  end.
Proof. vm_compute. reflexivity. Qed.

(* ---- output buffers ------------------------------------------------------------------------ *)
(* the delayed output buffer out_buf[MI_MAX_DELAY_OUTPUT+1]: any sequence of mi_out_buf and
   mi_out_buf_flush calls from any out_len stays inside it (messages shorter than 2^64-16384 bytes) *)
Theorem out_buf_bounded : forall ops b len,
  okb b (MAX_DELAY + 1) -> len < W64 -> Forall out_op_ok ops ->
  let '(b', len') := fold_left out_step ops (b, len) in okb b' (MAX_DELAY + 1) /\ len' < W64.
Proof. exact out_buf_bounded_lemma. Qed.
Print Assumptions out_buf_bounded.

(* mi_buffered_out with a buffer of count+1 bytes, count > 0 (the only call site uses 255) *)
Theorem buffered_out_bounded : forall msg count b used outl,
  0 < count -> okb b (count + 1) -> used <= count ->
  let '(b', used', outl') := buffered_out msg count (b, used, outl) in okb b' (count + 1) /\ used' <= count.
Proof. exact buffered_out_lemma. Qed.
Print Assumptions buffered_out_bounded.

(* mi_heap_buf_print for every message, every (caller) buffer size and every outcome of the
   reallocations: stays inside the buffer, used < size, the text stays 0-terminated within the
   size; a caller-supplied buffer (can_realloc = false) is never resized *)
Theorem heap_buf_bounded : forall h msg grows, hinv h ->
  let '(h', grows') := heap_buf_print h msg grows in
  hinv h' /\ (h_can_realloc h = false -> h_size h' = h_size h) /\ h_can_realloc h' = h_can_realloc h.
Proof. exact heap_buf_bounded_lemma. Qed.
Print Assumptions heap_buf_bounded.

(* ---- examples: the hypotheses are satisfiable, concrete values ------------------------------ *)
(* "TrUe" -> 1, "off" -> 0, "E" and ";" (fragments accepted before the repair a38bfd4) -> invalid *)
Example ex_words : parse_value false (map toupper [84; 114; 85; 101]) = PWord 1 /\
                   parse_value false (map toupper [111; 102; 102]) = PWord 0 /\
                   parse_value false [69] = PInvalid /\ parse_value false [59] = PInvalid /\
                   malformed_b false [69] = true.
Proof. vm_compute. repeat split. Qed.
(* "  +7" -> 7; 20 nines saturate to LONG_MAX; "-99999999999999999999" to LONG_MIN *)
Example ex_decimal : parse_value false [32; 32; 43; 55] = PNum 7 /\
                     parse_value false (repeatN 57 20) = PNum LONG_MAX_ /\
                     parse_value false (45 :: repeatN 57 20) = PNum LONG_MIN_.
Proof. vm_compute. repeat split. Qed.
(* "3GIB" -> 3*2^20 KiB; "1025" bytes -> 2 KiB; "99999999999T" saturates; a bare "K" / "MIB" is invalid
   (repair 6b9e244); "12K" on an ordinary option is invalid *)
Example ex_size : parse_value true [51; 71; 73; 66] = PNum 3145728 /\
                  parse_value true [49; 48; 50; 53] = PNum 2 /\
                  parse_value true (repeatN 57 11 ++ [84]) = PNum (Z.of_N (MI_MAX_ALLOC_SIZE / 1024)) /\
                  parse_value true [75] = PInvalid /\ parse_value true [77; 73; 66] = PInvalid /\
                  parse_value false [49; 50; 75] = PInvalid.
Proof. vm_compute. repeat split. Qed.
(* strlcpy of "mimalloc_" into 5 bytes: "mima\0" *)
Example ex_strlcpy : bdata (strlcpy (newbuf 170 5) 0 [109; 105; 109; 97; 108; 108; 111; 99; 95] 5) = [109; 105; 109; 97; 0].
Proof. vm_compute. reflexivity. Qed.
(* "a%5d|%-4s|%x" with 42, "xy", 255 into 20 bytes *)
Example ex_vsnprintf :
  match vsnprintf 1000 (newbuf 170 20) 20 [97; 37; 53; 100; 124; 37; 45; 52; 115; 124; 37; 120] [AInt 42; AStr [120; 121]; AInt 255] with
  | Some (r, ret) => ret = 14 /\ takeN 15 (bdata r) = [97; 32; 32; 32; 52; 50; 124; 120; 121; 32; 32; 124; 70; 70; 0] /\ fault r = false
  | None => False
  end.
Proof. vm_compute. repeat split. Qed.
(* a JSON-style print into a caller buffer of 4 bytes: "{\n" fits, the next message is cut, terminated *)
Example ex_heap_buf :
  let h0 := mkh (newbuf 0 4) 4 0 false in
  let h1 := fst (heap_buf_print h0 [123; 10] []) in
  let h2 := fst (heap_buf_print h1 [32; 32; 34; 118] []) in
  hinv h0 /\ bdata (h_buf h1) = [123; 10; 0; 0] /\ bdata (h_buf h2) = [123; 10; 32; 0] /\ fault (h_buf h2) = false.
Proof. vm_compute. repeat split; try (exists 0; split; reflexivity); discriminate. Qed.
