(* Property C20 *)
From Coq Require Import NArith ZArith List.
From MiV Require Import Model.Opt Proofs.OptProofs.
