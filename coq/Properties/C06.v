(* Property C06 -- malformed or oversized requests fail cleanly; well-formed ones succeed.
   Only statements, each closed by `exact <lemma>`, Print Assumptions, and examples.
   Model: Model/Arith.v (mul_overflow, count_size_overflow) and Model/Api.v; every entry point is a
   constructor of `call`, executed by `exec` with the answers of the lower layers as oracle
   arguments.  call_failed: the call returned NULL (posix_memalign / reallocarr: a non-zero code).
   call_size: the total size requested; call_ptr: the pointer argument; call_alignment: alignment and
   offset of the aligned entry points. *)
From Coq Require Import NArith List Bool.
From MiV Require Import Gen.Consts Gen.Bins Model.Arith Model.Api Proofs.Base Proofs.ApiProofs Proofs.ApiOpen.
Import ListNotations.
Local Open Scope N_scope.

(* the overflow-detecting multiply, for all 64-bit operands, including the count == 1 shortcut *)
Theorem C06_mul_overflow_spec : forall c s, c < W64 -> s < W64 ->
  (fst (mul_overflow c s) = true <-> W64 <= c * s) /\
  (fst (mul_overflow c s) = false -> snd (mul_overflow c s) = c * s) /\
  (fst (count_size_overflow c s) = true <-> W64 <= c * s) /\
  (fst (count_size_overflow c s) = false -> snd (count_size_overflow c s) = c * s) /\
  (fst (count_size_overflow c s) = true -> snd (count_size_overflow c s) = SIZE_MAX_) /\
  (c = 1 -> count_size_overflow c s = (false, s)).
Proof. exact mul_overflow_spec. Qed.
Print Assumptions C06_mul_overflow_spec.

(* a request above MI_MAX_ALLOC_SIZE fails for EVERY entry point (unless, for the realloc family,
   the block itself already has that many usable bytes); nothing changes, mi_reallocf frees p *)
Theorem C06_oversize_fails : forall st c o st' r,
  args_ok c -> special_call c = false -> MI_MAX_ALLOC_SIZE < call_size c ->
  usable_size st (call_ptr c) < call_size c -> exec st c o = (st', r) ->
  call_failed c r = true /\ match c with CReallocf _ p _ => st' = free st p | _ => st' = st end.
Proof. exact oversize_fails. Qed.
Print Assumptions C06_oversize_fails.

(* count * size >= 2^64 : calloc, mallocn, reallocn, recalloc, calloc_aligned_at, recalloc_aligned_at,
   reallocarray, reallocarr *)
Theorem C06_calloc_overflow_fails : forall st c o st' r,
  call_overflows c = true -> exec st c o = (st', r) -> call_failed c r = true /\ st' = st.
Proof. exact calloc_overflow_fails. Qed.
Print Assumptions C06_calloc_overflow_fails.

Theorem C06_overflows_iff : forall c s, c < W64 -> s < W64 -> (overflows c s = true <-> W64 <= c * s).
Proof. exact overflows_iff. Qed.
Print Assumptions C06_overflows_iff.

(* alignment 0 or not a power of two.  PARTIAL: proved for all aligned ALLOCATION entry points
   (malloc/zalloc/calloc aligned_at, posix_memalign, memalign, aligned_alloc; valloc/pvalloc use the
   page size) and for the aligned re-allocation of NULL with an alignment above the word size ... *)
Theorem C06_bad_alignment_fails_partial : forall st c o st' r a off,
  call_alignment c = Some (a, off) -> is_realloc_aligned c = false ->
  a = 0 \/ is_power_of_two a = false -> exec st c o = (st', r) -> call_failed c r = true /\ st' = st.
Proof. exact bad_alignment_fails. Qed.
Print Assumptions C06_bad_alignment_fails_partial.

Theorem C06_realloc_aligned_bad_alignment_null : forall st heap n a off zero o,
  MI_INTPTR_SIZE < a -> is_power_of_two a = false ->
  realloc_zero_aligned_at st heap NULL n a off zero o = (st, None).
Proof. exact realloc_aligned_bad_alignment_null. Qed.
Print Assumptions C06_realloc_aligned_bad_alignment_null.

(* ... the full clause (every entry point that takes an alignment, ApiOpen.bad_alignment_fails_full_stmt)
   is REFUTED by the faithful model on the unchanged code: the aligned re-allocation entry points
   delegate to the unaligned re-allocation for every alignment of at most sizeof(void* ) (0, 3, 5, 6,
   7) before any validation, so the call succeeds and the alignment is not honoured.
   Witness (replayed on the real code by harness/f_api.c, T record bad_align_realloc; known finding
   impl:realloc-aligned-bad-alignment): mi_realloc_aligned(p, 100, 3) on a live 32-byte block. *)
Definition C06_full_bad_alignment_fails : Prop := bad_alignment_fails_full_stmt.

Theorem C06_bad_alignment_fails_full_refuted : ~ C06_full_bad_alignment_fails.
Proof. exact bad_alignment_fails_full_refuted. Qed.
Print Assumptions C06_bad_alignment_fails_full_refuted.

Theorem C06_bad_alignment_realloc_refuted : exists st heap p n a off o,
  is_power_of_two a = false /\ lookup st p <> None /\
  snd (realloc_zero_aligned_at st heap p n a off false o) <> None.
Proof. exact bad_alignment_realloc_refuted. Qed.
Print Assumptions C06_bad_alignment_realloc_refuted.

(* an alignment above MI_BLOCK_ALIGNMENT_MAX cannot be combined with an offset *)
Theorem C06_huge_alignment_offset_fails : forall st heap size k offset zero o,
  k < 64 -> size < W64 -> MI_BLOCK_ALIGNMENT_MAX < 2 ^ k -> offset <> 0 ->
  heap_malloc_zero_aligned_at st heap size (2 ^ k) offset zero o = (st, None, PathError).
Proof. exact huge_alignment_offset. Qed.
Print Assumptions C06_huge_alignment_offset_fails.

(* posix_memalign: EINVAL iff the alignment is not a multiple of sizeof(void* ) or not a power of
   two (or the out-parameter is NULL); ENOMEM iff the arguments are valid, the allocation failed and
   size <> 0; the out-parameter is written iff the result is 0; EINVAL leaves the state alone *)
Theorem C06_posix_memalign_codes : forall st p_null a s o,
  let '(st', rc, out) := posix_memalign st p_null a s o in
  (rc = EINVAL_ <-> p_null = true \/ a mod MI_INTPTR_SIZE <> 0 \/ a = 0 \/ is_power_of_two a = false) /\
  (rc = ENOMEM_ <-> p_null = false /\ a mod MI_INTPTR_SIZE = 0 /\ a <> 0 /\ is_power_of_two a = true /\
                    snd (malloc_aligned st s a o) = None /\ s <> 0) /\
  (rc = 0 \/ rc = EINVAL_ \/ rc = ENOMEM_) /\
  (out <> None <-> rc = 0) /\
  (forall q, out = Some (Some q) -> snd (malloc_aligned st s a o) = Some q) /\
  (rc = EINVAL_ -> st' = st).
Proof. exact posix_memalign_codes. Qed.
Print Assumptions C06_posix_memalign_codes.

Theorem C06_pvalloc_overflow : forall st size o,
  SIZE_MAX_ - os_page_size_default <= size -> pvalloc st size o = (st, None).
Proof. exact pvalloc_overflow. Qed.
Print Assumptions C06_pvalloc_overflow.

Theorem C06_pvalloc_rounds : forall st size o,
  size < SIZE_MAX_ - os_page_size_default ->
  pvalloc st size o = malloc_aligned st (align_up size os_page_size_default) os_page_size_default o /\
  size <= align_up size os_page_size_default /\ align_up size os_page_size_default mod os_page_size_default = 0.
Proof. exact pvalloc_rounds. Qed.
Print Assumptions C06_pvalloc_rounds.

(* mi_reallocarray sets errno = ENOMEM exactly when it returns NULL (state unchanged);
   mi_reallocarr: EINVAL for a NULL argument, ENOMEM on failure with *p unchanged, 0 and *p updated
   on success *)
Theorem C06_reallocarray_errno : forall st p c s ans,
  let '(st', r, e) := reallocarray st p c s ans in
  (r = None <-> e = Some ENOMEM_) /\ (r <> None <-> e = None) /\
  (st', r) = heap_reallocn st 0 p c s ans /\ (r = None -> st' = st).
Proof. exact reallocarray_errno. Qed.
Print Assumptions C06_reallocarray_errno.

Theorem C06_reallocarr_codes : forall st p_null op c s ans,
  let '(st', rc, op', e) := reallocarr st p_null op c s ans in
  (p_null = true -> rc = EINVAL_ /\ e = Some EINVAL_ /\ op' = op /\ st' = st) /\
  (p_null = false ->
     match snd (heap_reallocn st 0 op c s ans) with
     | None => rc = ENOMEM_ /\ e = Some ENOMEM_ /\ op' = op /\ st' = st
     | Some q => rc = 0 /\ e = None /\ op' = q /\ st' = fst (heap_reallocn st 0 op c s ans)
     end).
Proof. exact reallocarr_codes. Qed.
Print Assumptions C06_reallocarr_codes.

(* EVERY failing call leaves the abstract state -- all live blocks and their bytes -- unchanged
   (st_eq: the same lookup result for every address); mi_reallocf frees p instead.  The forced
   collect that _mi_malloc_generic performs before giving up does not touch the abstract map. *)
Theorem C06_failed_call_state_unchanged : forall st c o st' r,
  wf st -> args_ok c -> call_ptr_ok st c -> call_ok st c o -> exec st c o = (st', r) ->
  call_failed c r = true ->
  match c with
  | CReallocf _ p _ => st' = free st p
  | _ => st_eq st' st
  end.
Proof. exact failed_call_state_unchanged. Qed.
Print Assumptions C06_failed_call_state_unchanged.

(* conversely: a well-formed request (call_wellformed: no count*size overflow; size and, for the
   aligned entry points, size + alignment - 1 at most MI_MAX_ALLOC_SIZE; alignment a power of two;
   alignment <= MI_BLOCK_ALIGNMENT_MAX or offset 0; posix_memalign: alignment a multiple of
   sizeof(void* ) and a non-NULL out-parameter) succeeds whenever the lower layers answer with a
   block -- i.e. failure only comes from the page / segment / OS layers *)
Theorem C06_wellformed_succeeds_if_granted : forall st c o st' r,
  special_call c = false -> call_wellformed c -> o_ans o <> None -> o_ans2 o <> None ->
  exec st c o = (st', r) -> call_failed c r = false.
Proof. exact wellformed_succeeds_if_granted. Qed.
Print Assumptions C06_wellformed_succeeds_if_granted.

(* ---- non-vacuity ---- *)
Definition ex6_st : state := [ (4096, mkBlock 32 (dirty 32) 0 20 false 0) ].
Definition ex6_o : oracles := mkOracles None (Some (8192, 4096, [])) (Some (16384, 4096, [])).

Example C06_ex_overflow :
  count_size_overflow 1 5 = (false, 5) /\ count_size_overflow 4294967296 4294967296 = (true, SIZE_MAX_) /\
  count_size_overflow 4294967296 4294967295 = (false, 18446744069414584320) /\
  call_overflows (CCalloc 0 4294967296 4294967296) = true /\
  exec ex6_st (CCalloc 0 4294967296 4294967296) ex6_o = (ex6_st, res_ptr None).
Proof. vm_compute. repeat split; reflexivity. Qed.

Example C06_ex_fail :
  exec ex6_st (CMalloc 0 (MI_MAX_ALLOC_SIZE + 1)) ex6_o = (ex6_st, res_ptr None) /\
  exec ex6_st (CRealloc 0 4096 (MI_MAX_ALLOC_SIZE + 1)) ex6_o = (ex6_st, res_ptr None) /\
  exec ex6_st (CMallocAlignedAt 0 100 24 0) ex6_o = (ex6_st, res_ptr None) /\
  exec ex6_st (CMallocAlignedAt 0 100 0 0) ex6_o = (ex6_st, res_ptr None) /\
  exec ex6_st (CMallocAlignedAt 0 100 (2 ^ 25) 8) ex6_o = (ex6_st, res_ptr None) /\
  posix_memalign ex6_st false 4 100 ex6_o = (ex6_st, EINVAL_, None) /\
  posix_memalign ex6_st false 24 100 ex6_o = (ex6_st, EINVAL_, None) /\
  posix_memalign ex6_st false 64 100 (mkOracles None None None) = (ex6_st, ENOMEM_, None) /\
  snd (posix_memalign ex6_st false 64 100 ex6_o) = Some (Some 8192) /\
  pvalloc ex6_st (SIZE_MAX_ - 4096) ex6_o = (ex6_st, None) /\
  snd (reallocarray ex6_st 4096 4294967296 4294967296 None) = Some ENOMEM_.
Proof. vm_compute. repeat split; reflexivity. Qed.

Example C06_ex_wellformed :
  call_failed (CMallocAlignedAt 0 100 64 0) (snd (exec ex6_st (CMallocAlignedAt 0 100 64 0) ex6_o)) = false /\
  call_failed (CPvalloc 5000) (snd (exec ex6_st (CPvalloc 5000) ex6_o)) = false /\
  call_failed (CRecalloc 0 4096 10 10) (snd (exec ex6_st (CRecalloc 0 4096 10 10) ex6_o)) = false.
Proof. vm_compute. repeat split; reflexivity. Qed.
