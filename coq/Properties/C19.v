(* Property C19 -- drop-in override: every standard entry point is served by one allocator.
   This file contains only statements, each closed by `exact <lemma>`, and Print Assumptions.

   `table` (Gen/Override.v) is regenerated from /repo on every run: one entry per exported non-mi_ symbol
   of the shared library built from the current tree (nm -D), its mi_ target and argument order from the
   preprocessed src/alloc.c.  `required` (Model/Override.v) is the list of C and C++ allocation entry
   points of Linux/glibc x86-64 with class, C signature, parameter roles and failure convention.

   What is NOT a theorem here: the behaviour of the mi_ targets themselves (that mi_posix_memalign
   returns EINVAL/ENOMEM without touching the result slot, that mi_reallocarray sets errno, that a
   block of one mi_ function can be released by another).  The last is hypothesis H of
   C19_cross_entry_point_ok -- the subject of C01/C03/C05; the codes of mi_posix_memalign and
   mi_reallocarray are modelled in Model/Api.v (C03/C06).  Here the table shows that each entry point
   reaches the target with the documented convention (C19_failure_convention), and the return values
   are checked on the implementation through the libc / C++ names by harness/t_override.c and
   t_override.cpp (every entry point, preloaded and statically overridden). *)
From Coq Require Import List String Bool.
From MiV Require Import Gen.Override Model.Override Proofs.OverrideProofs.
Import ListNotations.
Local Open Scope string_scope.

(* every required entry point is exported by the library built from the current tree and resolves to a
   mi_ function of its class, with the arguments in the right positions, defined in the same library *)
Theorem C19_override_complete : override_ok Gen.Override.table = true.
Proof. exact override_complete. Qed.
Print Assumptions C19_override_complete.

(* what `override_ok t = true` says, for any table *)
Theorem C19_override_ok_spec : forall t, override_ok t = true ->
  forall r, In r required ->
    (exists e, In e (l_entries t) /\ e_sym e = r_sym r /\
       exists g, In g targets /\ t_name g = e_target e /\
         t_cls g = r_cls r /\ t_fail g = r_fail r /\
         passed_roles (map snd (r_params r)) (e_args e) = Some (t_roles g) /\
         e_ret e = r_ret r /\ e_params e = map fst (r_params r) /\
         e_returns e = returns_value r /\
         (e_via e = Alias -> e_same_addr e = true) /\
         In (e_target e) (l_defined t))
    \/ ((forall e, In e (l_entries t) -> e_sym e <> r_sym r) /\ r_presence r <> MustExport).
Proof. exact override_ok_spec. Qed.
Print Assumptions C19_override_ok_spec.

(* identity order for same-signature forwards: handing the parameters on in order (what an alias does)
   gives every argument of the target the role the entry point's parameter has *)
Theorem C19_identity_forward : forall roles, passed_roles roles (seq 0 (List.length roles)) = Some roles.
Proof. exact passed_roles_identity. Qed.
Print Assumptions C19_identity_forward.

(* one allocator: every exported non-mi_ name resolves into the library itself, no name is defined twice,
   the library imports none of the entry points it has to provide, and the mi_ core API is present *)
Theorem C19_override_single_allocator :
  (forall e, In e (l_entries Gen.Override.table) -> In (e_target e) (l_defined Gen.Override.table)) /\
  NoDup (map e_sym (l_entries Gen.Override.table)) /\
  (forall r, In r required -> r_presence r = MustExport -> ~ In (r_sym r) (l_imports Gen.Override.table)) /\
  (forall s, In s core_api -> In s (l_defined Gen.Override.table)).
Proof. exact override_single_allocator. Qed.
Print Assumptions C19_override_single_allocator.

(* every entry point the platform provides is served by a mi_ function of this library that has the
   entry point's class (strdup/strndup/realpath when not exported: by malloc's target, through libc) *)
Theorem C19_entry_points_served : forall r, In r required -> r_presence r <> Optional ->
  exists f, served_by Gen.Override.table r = Some f /\ In f (l_defined Gen.Override.table) /\
    (class_of_target f = Some (r_cls r) \/ (r_presence r = ViaMalloc /\ class_of_target f = Some Alloc)).
Proof. exact entry_points_served. Qed.
Print Assumptions C19_entry_points_served.

(* the documented failure convention (error code with untouched slot, NULL + errno, NULL, throw, nullptr)
   of every exported entry point is the convention of the mi_ function it resolves to *)
Theorem C19_failure_convention : forall r e, In r required ->
  find_entry Gen.Override.table (r_sym r) = Some e ->
  exists g, find_target (e_target e) = Some g /\ t_cls g = r_cls r /\ t_fail g = r_fail r.
Proof. exact failure_convention. Qed.
Print Assumptions C19_failure_convention.

(* crossing entry points.  The first premise is hypothesis H (Section hypothesis H_one_allocator of
   Proofs/OverrideProofs.v): the mi_ functions belong to ONE allocator instance whose releasing /
   resizing / querying functions accept any live block returned by any of its allocating functions --
   what C01/C03/C05 establish.  Then for every pair (allocating entry point, releasing / resizing /
   querying entry point) of the platform, C or C++, a block obtained through the first is accepted by
   the second. *)
Theorem C19_cross_entry_point_ok :
  forall (block : Type) (returned_by accepted_by : string -> block -> Prop),
    (forall fa fc b, allocating_target fa = true -> consuming_target fc = true ->
                     returned_by fa b -> accepted_by fc b) ->
    forall ra rc, In ra required -> In rc required ->
      allocating (r_cls ra) = true -> consuming (r_cls rc) = true ->
      served_by Gen.Override.table rc <> None ->
      forall b, entry_returns block returned_by Gen.Override.table ra b ->
                entry_accepts block accepted_by Gen.Override.table rc b.
Proof. exact cross_entry_point_ok. Qed.
Print Assumptions C19_cross_entry_point_ok.

(* ---- non-vacuity -------------------------------------------------------------------------------- *)

(* the requirement is not empty and the table is the real one *)
Example C19_ex_sizes :
  List.length required = 44 /\ List.length (filter must_export required) = 31 /\
  List.length (filter (fun r => allocating (r_cls r)) required) = 27 /\
  List.length (filter (fun r => consuming (r_cls r)) required) = 20 /\
  option_map e_target (find_entry Gen.Override.table "malloc") = Some "mi_malloc" /\
  option_map e_via (find_entry Gen.Override.table "malloc") = Some Alias /\
  option_map e_args (find_entry Gen.Override.table "_ZdlPvmSt11align_val_t") = Some [0; 1; 2] /\
  option_map e_args (find_entry Gen.Override.table "_ZnwmRKSt9nothrow_t") = Some [0].
Proof. vm_compute. repeat split. Qed.

(* the decision rejects tables that are wrong in the ways a change of alloc-override.c can be wrong *)
Example C19_ex_rejects :
  override_failures (drop_entry "pvalloc" Gen.Override.table) = ["pvalloc"] /\
  override_failures (drop_entry "_ZdaPvSt11align_val_t" Gen.Override.table) = ["_ZdaPvSt11align_val_t"] /\
  override_failures (retarget "memalign" "mi_memalign" [1; 0] Gen.Override.table) = ["memalign"] /\
  override_failures (retarget "reallocarray" "mi_realloc" [0; 1] Gen.Override.table) = ["reallocarray"] /\
  override_failures (retarget "reallocarray" "mi_reallocarray" [0; 2; 1] Gen.Override.table) = ["reallocarray"] /\
  override_failures (retarget "calloc" "mi_mallocn" [0; 1] Gen.Override.table) = ["calloc"] /\
  override_failures (retarget "malloc" "mi_new" [0] Gen.Override.table) = ["malloc"] /\
  override_failures (retarget "free" "mi_free_size" [0; 0] Gen.Override.table) = ["free"] /\
  (* dropping the size of a sized delete is fine *)
  override_failures (retarget "_ZdlPvm" "mi_free" [0] Gen.Override.table) = [] /\
  (* strdup may be left to libc (it calls the interposed malloc) *)
  override_failures (drop_entry "strdup" Gen.Override.table) = [] /\
  served_by (drop_entry "strdup" Gen.Override.table)
    (mkReq "strdup" LC Dup "char*" [("const char*", RStr)] FNull ViaMalloc) = Some "mi_malloc".
Proof. vm_compute. repeat split. Qed.

(* hypothesis H is satisfiable and the conclusion is not empty: with the instance "a function returns /
   accepts exactly what its class says", a block from strdup is accepted by sized aligned delete[] *)
Example C19_ex_cross :
  let H_ret := fun (f : string) (_ : nat) => allocating_target f = true in
  let H_acc := fun (f : string) (_ : nat) => consuming_target f = true in
  entry_accepts nat H_acc Gen.Override.table
    (mkReq "_ZdaPvmSt11align_val_t" LCxx Free "void" [ptr; sz; al] FNone MustExport) 7.
Proof.
  apply (cross_entry_point_ok nat (fun f _ => allocating_target f = true) (fun f _ => consuming_target f = true)
           (fun fa fc b _ Hc _ => Hc)
           (mkReq "strdup" LC Dup "char*" [("const char*", RStr)] FNull ViaMalloc)
           (mkReq "_ZdaPvmSt11align_val_t" LCxx Free "void" [ptr; sz; al] FNone MustExport)).
  - vm_compute. tauto.
  - vm_compute. tauto.
  - reflexivity.
  - reflexivity.
  - vm_compute. discriminate.
  - exists "mi_strdup". split; vm_compute; reflexivity.
Qed.
