(* Property C09 (model part: the abandonment / adoption state machine) -- statements only, each closed
   by `exact <lemma>`, and Print Assumptions.  Model: Model/Abandon.v (interleaving semantics, one
   transition per atomic access).  This is the property file of C09 (there is no Properties/C09.v). *)
From Coq Require Import NArith ZArith List Bool.
From MiV Require Import Gen.Consts Model.Abandon Proofs.AbandonProofs Proofs.AbandonTrace Proofs.AbandonCount Proofs.AbandonCollect.
Import ListNotations.
Local Open Scope N_scope.

(* the invariant is inductive: every transition of every thread preserves it, so it holds in every
   reachable state, for any number of threads, segments and steps *)
Theorem C09_inv_step : forall st t st', Inv st -> step st t = Some st' -> Inv st'.
Proof. exact step_Inv. Qed.
Print Assumptions C09_inv_step.

Theorem C09_inv_reachable : forall st0 st, Inv st0 -> reachable st0 st -> Inv st.
Proof. exact reachable_Inv. Qed.
Print Assumptions C09_inv_reachable.

Theorem C09_inv_b_sound : forall st, inv_b st = true -> Inv st.
Proof. exact inv_b_sound. Qed.
Print Assumptions C09_inv_b_sound.

Theorem C09_schedules_reachable : forall st0 sched st, reachable st0 st -> reachable st0 (run_schedule st sched).
Proof. exact run_schedule_reachable. Qed.
Print Assumptions C09_schedules_reachable.

(* adopted by at most one thread at a time: a segment is owned (thread_id <> 0), or marked abandoned,
   or in exactly one visitor's hand -- exactly one of the three *)
Theorem C09_unique_adopter : forall st0 st i g,
  Inv st0 -> reachable st0 st -> seg_at st i g -> g_freed g = false ->
  (forall t1 t2, in_hand st i t1 -> in_hand st i t2 -> t1 = t2) /\
  ((g_tid g <> 0 /\ marked st i = false /\ (forall t, in_hand st i t -> tid_of t = g_tid g)) \/
   (g_tid g = 0 /\ marked st i = true /\ (forall t, ~ in_hand st i t)) \/
   (g_tid g = 0 /\ marked st i = false /\ exists t, in_hand st i t)).
Proof. exact unique_adopter_reachable. Qed.
Print Assumptions C09_unique_adopter.

(* the same over traces (the events are what the schedule-lockstep replay matches against the real accesses): the
   events on the abandoned mark of a segment (its bit of blocks_abandoned / its membership in the abandoned OS list)
   report the value of the mark before and after the access, so along every trace from a reachable state they form a chain *)
Theorem C09_trace_marks_chain : forall sched st s,
  Inv st -> chain (marked st s) (mark_pairs s (run_trace st sched)) = Some (marked (run_schedule st sched) s).
Proof. exact trace_marks_chain. Qed.
Print Assumptions C09_trace_marks_chain.

(* adopted once: between two adoptions of the same segment (mark set -> clear: the atomic-and that reports `was set`,
   the removal from the OS list) every trace contains an abandonment (mark clear -> set) of that segment *)
Theorem C09_adopted_once_between_abandonments : forall st0 st sched s tr1 e1 tr2 e2 tr3,
  Inv st0 -> reachable st0 st ->
  run_trace st sched = tr1 ++ e1 :: tr2 ++ e2 :: tr3 ->
  is_adoption s e1 = true -> is_adoption s e2 = true ->
  exists e, In e tr2 /\ is_abandonment s e = true.
Proof. exact adopted_once_between_abandonments. Qed.
Print Assumptions C09_adopted_once_between_abandonments.

(* and the adopter is the thread that made the access: after the transition the segment is in its hand
   (C09_unique_adopter: in nobody else's) *)
Theorem C09_adoption_takes_in_hand : forall st t st' ev s e,
  stepx st t = Some (st', ev) -> In e ev -> is_adoption s e = true ->
  fst (fst (fst e)) = t /\ exists th', thr_at st' t th' /\ holds (t_pc th') = Some s.
Proof. exact adoption_takes_in_hand. Qed.
Print Assumptions C09_adoption_takes_in_hand.

(* live blocks survive abandonment and adoption: block memory of a segment is written only by the two
   free steps; no transition of abandon / mark / clear / cursor / reclaim has it in its footprint *)
Theorem C09_abandon_keeps_live : forall st t st' ev,
  stepx st t = Some (st', ev) ->
  (forall s, (forall o n, ~ In (t, LBlock s, o, n) ev) -> live_of st' s = live_of st s) /\
  (forall s o n, In (t, LBlock s, o, n) ev ->
     exists th, thr_at st t th /\ (t_pc th = FrL s \/ t_pc th = FrP s)).
Proof. exact footprint_live. Qed.
Print Assumptions C09_abandon_keeps_live.

(* only within the same sub-process *)
Theorem C09_reclaim_same_subproc : forall st0 st,
  Inv st0 -> reachable st0 st ->
  (forall s g t th, seg_at st s g -> g_freed g = false -> thr_at st t th -> g_tid g = tid_of t -> t_subproc th = g_subproc g) /\
  (forall s g t th, seg_at st s g -> thr_at st t th -> needs_subproc (t_pc th) = true -> pc_seg (t_pc th) = Some s ->
     g_subproc g = t_subproc th).
Proof. exact reclaim_same_subproc_lemma. Qed.
Print Assumptions C09_reclaim_same_subproc.

(* remote frees into abandoned memory go to the page list *)
Theorem C09_never_delayed_goes_to_page_list : forall st0 st,
  Inv st0 -> reachable st0 st ->
  (forall s g, seg_at st s g -> g_tid g = 0 -> g_flag g = NEVER) /\
  (forall t th s g st' ev, thr_at st t th -> t_pc th = FrP s -> seg_at st s g -> g_flag g = NEVER ->
     stepx st t = Some (st', ev) ->
     exists g', seg_at st' s g' /\ g_tfree g' = g_tfree g + 1 /\ g_delayed g' = g_delayed g /\ g_live g' = g_live g - 1).
Proof. exact never_delayed_lemma. Qed.
Print Assumptions C09_never_delayed_goes_to_page_list.

(* the accounting of subproc->abandoned_count: in every reachable state, for every sub-process, the count is the number of
   marked segments of the sub-process plus the corrections of the threads that stand between the change of a mark and the
   change of the count (+1 after a clear, -1 after a mark: Proofs/AbandonCount.v, pend_seg) ... *)
Theorem C09_abandoned_count_inv : forall st0 st sp,
  Inv st0 -> count_inv st0 sp -> reachable st0 st -> count_inv st sp.
Proof. exact reachable_count. Qed.
Print Assumptions C09_abandoned_count_inv.

(* ... hence it is exact whenever every thread is between two calls *)
Theorem C09_abandoned_count_quiescent : forall st0 st sps,
  inv_b st0 = true -> quiescent st0 = true -> count_ok_b st0 sps = true ->
  reachable st0 st -> quiescent st = true -> count_ok_b st sps = true.
Proof. exact abandoned_count_quiescent. Qed.
Print Assumptions C09_abandoned_count_quiescent.

(* never leaked ("once the last block in it has been freed the memory is released instead of leaked"), Proofs/AbandonCollect.v.
   From a quiescent state of the invariant a forced collect (_mi_abandoned_collect(heap, force = true): the cursor over every
   arena segment, then as many visits of the abandoned OS list as the list is long, then _mi_arena_field_cursor_done) run solo
   by a live thread t leaves no abandoned segment of t's sub-process without live blocks; the state is quiescent again and the
   invariant holds.  (This is the statement that was kept open as C09_full_collect_frees_dead_abandoned.) *)
Theorem C09_collect_frees_dead_abandoned :
  forall st t th n_os fuel,
    Inv st -> quiescent st = true -> nth_error (threads st) t = Some th ->
    t_prog th = collect_prog (length (segs st)) n_os -> (length (os_list st) <= n_os)%nat ->
    (16 * (length (segs st) + n_os + 1) <= fuel)%nat ->
    let st' := run_solo fuel st t in
    no_dead_abandoned_b st' (t_subproc th) = true /\ quiescent st' = true /\ Inv st'.
Proof. exact collect_frees_dead_abandoned. Qed.
Print Assumptions C09_collect_frees_dead_abandoned.

(* the same for the cursor as the code runs it: the arena segments in any order that covers them (the cursor starts at a random
   arena and wraps), with or without the acquisition of the visit lock that visits no entry (OVisitLock), and
   os_list_count = subproc->abandoned_os_list_count = the entries of t's own sub-process (os_count) instead of the length of
   the combined list.  collect_post: no dead abandoned segment of the sub-process is left, quiescent, Inv, t is done, every
   segment keeps its live blocks, only segments without live blocks are freed, the others keep their thread_id, and every
   abandoned segment of the sub-process without live blocks IS freed *)
Theorem C09_collect_frees_dead_abandoned_gen : forall st t th order vl n_os fuel,
  Inv st -> quiescent st = true -> thr_at st t th ->
  t_prog th = collect_prog_of order vl n_os ->
  (forall i, (i < length (segs st))%nat -> In i order) ->
  (os_count st (t_subproc th) <= n_os)%nat ->
  (8 * length order + 11 * n_os + 2 <= fuel)%nat ->
  let st' := run_solo fuel st t in
  no_dead_abandoned_b st' (t_subproc th) = true /\ quiescent st' = true /\ Inv st' /\
  thr_at st' t (mkT (t_subproc th) [] Idle false) /\
  (forall i g, seg_at st i g -> exists g', seg_at st' i g' /\
     g_arena g' = g_arena g /\ g_subproc g' = g_subproc g /\ g_live g' = g_live g /\
     (g_freed g' = false -> g_freed g = false /\ g_tid g' = g_tid g) /\
     (g_freed g' = true -> g_freed g = true \/ g_live g = 0)) /\
  (forall i g, seg_at st i g -> g_subproc g = t_subproc th -> g_tid g = 0 -> g_freed g = false -> g_live g = 0 ->
     exists g', seg_at st' i g' /\ g_freed g' = true).
Proof. exact collect_solo_gen. Qed.
Print Assumptions C09_collect_frees_dead_abandoned_gen.

(* not solo: in every reachable quiescent state an abandoned segment (thread_id = 0, not freed) is still marked -- its bit of
   blocks_abandoned is set / it is in the abandoned OS list -- and in nobody's hand: no segment is ever orphaned, the cursor
   of the next collect of its sub-process finds it ... *)
Theorem C09_no_orphan_quiescent : forall st0 st i g,
  Inv st0 -> reachable st0 st -> quiescent st = true -> seg_at st i g -> g_freed g = false -> g_tid g = 0 ->
  marked st i = true /\ (forall t, ~ in_hand st i t).
Proof. exact no_orphan_quiescent. Qed.
Print Assumptions C09_no_orphan_quiescent.

(* ... and when its last block has been freed, the next forced collect of any live thread of its sub-process releases it *)
Theorem C09_dead_abandoned_released : forall st0 st t th order vl n_os fuel i g,
  Inv st0 -> reachable st0 st -> quiescent st = true ->
  thr_at st t th -> t_prog th = collect_prog_of order vl n_os ->
  (forall j, (j < length (segs st))%nat -> In j order) -> (os_count st (t_subproc th) <= n_os)%nat ->
  (8 * length order + 11 * n_os + 2 <= fuel)%nat ->
  seg_at st i g -> g_subproc g = t_subproc th -> g_tid g = 0 -> g_freed g = false -> g_live g = 0 ->
  let st' := run_solo fuel st t in
  reachable st0 st' /\ quiescent st' = true /\ exists g', seg_at st' i g' /\ g_freed g' = true.
Proof. exact dead_abandoned_released. Qed.
Print Assumptions C09_dead_abandoned_released.

(* ---- non-vacuity ---- *)
Example C09_example_init : inv_b ex_st0 = true.
Proof. exact ex_init_inv. Qed.

Example C09_example_round_robin :
  let st := run_schedule ex_st0 ex_sched1 in
  inv_b st = true /\ finished st = true /\ quiescent st = true /\
  map (fun g => (g_tid g, g_bit g, g_freed g, g_live g)) (segs st) = [(2, false, false, 0); (4, false, false, 0); (3, false, true, 0); (0, true, false, 0)] /\
  os_list st = [] /\ count_ok_b st [1; 2] = true.
Proof. exact ex_run1. Qed.

Example C09_example_collect_after_abandon :
  let st := run_schedule ex_st0 ex_sched2 in
  inv_b st = true /\ finished st = true /\
  map (fun g => (g_tid g, g_bit g, g_freed g, g_live g)) (segs st) = [(2, false, false, 0); (4, false, false, 0); (3, false, true, 0); (4, false, true, 0)] /\
  count_ok_b st [1; 2] = true /\ no_dead_abandoned_b st 1 = true /\ no_dead_abandoned_b st 2 = true.
Proof. exact ex_run2. Qed.

Example C09_example_trace :
  firstn 6 (adoption_trace ex_st0 ex_sched2) =
  [(0%nat, LTidPlain 0, 1%Z, 0%Z); (0%nat, LTid 0, 0%Z, 0%Z); (0%nat, LBit 0, 0%Z, 1%Z);
   (0%nat, LTidPlain 3, 1%Z, 0%Z); (0%nat, LTid 3, 0%Z, 0%Z); (0%nat, LBit 3, 0%Z, 1%Z)].
Proof. exact ex_trace_prefix. Qed.

Example C09_example_trace_marks :
  filter (fun e => is_adoption 0 e || is_abandonment 0 e) (run_trace ex_st0 ex_sched1) =
    [(0%nat, LBit 0, 0%Z, 1%Z); (2%nat, LBit 0, 1%Z, 0%Z); (2%nat, LBit 0, 0%Z, 1%Z); (1%nat, LBit 0, 1%Z, 0%Z)] /\
  mark_pairs 0 (run_trace ex_st0 ex_sched1) = [(false, false); (false, true); (true, true); (true, false); (false, true); (true, false)] /\
  mark_pairs 1 (run_trace ex_st0 ex_sched1) = [(false, true); (true, false); (false, true); (true, false)].
Proof. exact ex_trace_marks. Qed.

Example C09_example_forced_collect :
  inv_b ex_quiet = true /\ quiescent ex_quiet = true /\ count_ok_b ex_quiet [1; 2] = true /\
  no_dead_abandoned_b ex_quiet 1 = false /\
  let st := run_solo 200 ex_quiet 0 in
  inv_b st = true /\ quiescent st = true /\ finished st = true /\ no_dead_abandoned_b st 1 = true /\
  map g_freed (segs st) = [true; true; false; false; false] /\ os_list st = [4%nat] /\ count_ok_b st [1; 2] = true.
Proof. exact ex_collect. Qed.

(* two sub-processes whose entries interleave in the abandoned OS list, arena and OS segments, dead / live / owned; the cursor
   of thread 0 starts at segment 3, wraps, takes the visit lock, os_list_count = 2 = its own entries; then thread 1 collects *)
Example C09_example_forced_collect_two_subprocs :
  inv_b ex_quiet2 = true /\ quiescent ex_quiet2 = true /\ count_ok_b ex_quiet2 [1; 2] = true /\
  os_count ex_quiet2 1 = 2%nat /\ os_count ex_quiet2 2 = 1%nat /\
  no_dead_abandoned_b ex_quiet2 1 = false /\ no_dead_abandoned_b ex_quiet2 2 = false /\
  let st := run_solo (8 * 7 + 11 * 2 + 2) ex_quiet2 0 in
  inv_b st = true /\ quiescent st = true /\ no_dead_abandoned_b st 1 = true /\ no_dead_abandoned_b st 2 = false /\
  map g_freed (segs st) = [true; true; false; false; false; false; false] /\ os_list st = [5; 4]%nat /\
  map g_live (segs st) = map g_live (segs ex_quiet2) /\ count_ok_b st [1; 2] = true /\
  let st2 := run_solo (16 * (7 + 1 + 1)) st 1 in
  inv_b st2 = true /\ quiescent st2 = true /\ finished st2 = true /\ no_dead_abandoned_b st2 1 = true /\ no_dead_abandoned_b st2 2 = true /\
  map g_freed (segs st2) = [true; true; false; true; false; true; false] /\ os_list st2 = [4]%nat /\
  map (fun g => (g_tid g, g_bit g)) (segs st2) = [(1, false); (1, false); (0, true); (2, false); (0, false); (2, false); (1, false)] /\
  count_ok_b st2 [1; 2] = true.
Proof. exact ex_collect2. Qed.

(* the hypotheses of C09_collect_frees_dead_abandoned_gen are satisfiable: thread 0 of that state *)
Example C09_example_forced_collect_hyps :
  Inv ex_quiet2 /\ quiescent ex_quiet2 = true /\
  thr_at ex_quiet2 0 (mkT 1 (collect_prog_of [3; 4; 5; 6; 0; 1; 2]%nat true 2) Idle false) /\
  (forall j, (j < length (segs ex_quiet2))%nat -> In j [3; 4; 5; 6; 0; 1; 2]%nat) /\
  (os_count ex_quiet2 1 <= 2)%nat.
Proof. exact ex_collect2_hyps. Qed.
