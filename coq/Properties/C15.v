(* Property C15 -- arena-bound heaps stay inside their arena; exclusive arenas stay private.
   Only statements, each closed by `exact <lemma>`, and Print Assumptions.  Model: Model/Bind.v.

   Known finding (known_findings.txt, key impl:reclaim-by-tag-exclusive): mi_segment_reclaim gives the
   pages of an adopted segment to _mi_heap_by_tag(heap, page->heap_tag) without testing that heap's
   arena.  The faithful model reproduces it (`C15_reclaim_tag_unsuitable_refuted`); the preservation
   theorems are therefore `..._partial`: they hold for histories whose heaps all carry tag 0 (thread
   init, mi_heap_new, mi_heap_new_in_arena), the full statement is `C15_full_bound_inv_preserved`. *)
From Coq Require Import NArith ZArith List Bool.
From MiV Require Import Gen.Consts Gen.OsConsts Model.Arith Model.Bind Proofs.Base Proofs.BindProofs.
Import ListNotations.
Local Open Scope N_scope.

(* ---- the suitability predicate (what every hand-out path tests) ---- *)

Theorem C15_suitable_exclusive : forall id req, memid_is_suitable (MemArena id true) req = true -> req = id.
Proof. exact suitable_exclusive. Qed.
Print Assumptions C15_suitable_exclusive.

Theorem C15_suitable_bound : forall m req, req <> 0%Z -> memid_is_suitable m req = true -> exists ex, m = MemArena req ex.
Proof. exact suitable_bound. Qed.
Print Assumptions C15_suitable_bound.

(* ---- bound_Inv is preserved by every operation (span reuse, fresh segment, page free, page /
   segment abandon, coalescing, block free / alloc, thread exit, heap delete, reclaim-on-free,
   try_reclaim, reclaim_all, collect, manage) and hence holds in every history ---- *)

Theorem C15_bound_inv_preserved_partial : forall st o,
  tags_uniform st -> Inv st -> Inv (step st o).
Proof. exact step_Inv_partial. Qed.
Print Assumptions C15_bound_inv_preserved_partial.

(* Strengthened forms (every heap tag allowed).  The hypothesis is reduced to `tag_safe` of the one heap that
   adopts in this step; the 13 operations that are not adoptions (span reuse, fresh segment, page free /
   abandon, coalescing, block free / alloc, thread exit, heap new / delete, collect, manage) preserve Inv
   unconditionally, with tagged heaps present. *)
Theorem C15_bound_inv_preserved_adopter_partial : forall st o,
  (forall hid h, op_adopter o = Some hid -> find_heap st hid = Some h -> tag_safe (st_heaps st) h) ->
  Inv st -> Inv (step st o).
Proof. exact step_Inv_adopter. Qed.
Print Assumptions C15_bound_inv_preserved_adopter_partial.

Theorem C15_bound_inv_preserved_non_adopting : forall st o, op_adopter o = None -> Inv st -> Inv (step st o).
Proof. exact step_Inv_non_adopting. Qed.
Print Assumptions C15_bound_inv_preserved_non_adopting.

Theorem C15_bound_inv_preserved_tag_safe_partial : forall st o, heaps_tag_safe st -> Inv st -> Inv (step st o).
Proof. exact step_Inv_tag_safe. Qed.
Print Assumptions C15_bound_inv_preserved_tag_safe_partial.

(* ... and `tag_safe` cannot be weakened: whenever _mi_heap_by_tag can return, for the adopting heap h, a
   heap t of another arena, reclaim-on-free by h of one abandoned segment that is suitable for h breaks
   bound_Inv.  The gap between the `_partial` theorems and `C15_full_bound_inv_preserved` is exactly the
   known finding impl:reclaim-by-tag-exclusive. *)
Theorem C15_tag_safe_is_necessary : forall heaps h tag t,
  heap_by_tag heaps h tag = Some t -> h_arena t <> h_arena h ->
  heap_memid_is_suitable h (unsafe_memid h) = true /\
  bound_Inv (unsafe_state heaps h tag) /\
  ~ bound_Inv (attempt_reclaim (unsafe_state heaps h tag) h 1 true true).
Proof. exact tag_unsafe_breaks. Qed.
Print Assumptions C15_tag_safe_is_necessary.

Theorem C15_tag_safe_b_sound : forall heaps h, tag_safe_b heaps h = true -> tag_safe heaps h.
Proof. exact tag_safe_b_sound. Qed.
Print Assumptions C15_tag_safe_b_sound.

(* histories with arbitrary heap tags in which every adoption is made by a heap that is tag_safe at that moment (the
   untagged histories of the `_partial` theorems below are a special case: `C15_untagged_histories_are_adopter_safe`) *)
Theorem C15_bound_inv_history_adopter_partial : forall ops, adopters_safe init_state ops ->
  arenas_wf (st_arenas (run init_state ops)) /\ bound_Inv (run init_state ops) /\ placed_Inv (run init_state ops).
Proof. exact reachable_Inv_adopter. Qed.
Print Assumptions C15_bound_inv_history_adopter_partial.

Theorem C15_exclusive_stays_private_history_adopter_partial : forall ops A,
  adopters_safe init_state ops -> exclusive_leak_b (run init_state ops) A = false.
Proof. exact exclusive_stays_private_history_adopter. Qed.
Print Assumptions C15_exclusive_stays_private_history_adopter_partial.

Theorem C15_untagged_histories_are_adopter_safe : forall ops st,
  forallb op_untagged ops = true -> tags_uniform st -> adopters_safe st ops.
Proof. exact untagged_adopters_safe. Qed.
Print Assumptions C15_untagged_histories_are_adopter_safe.

Theorem C15_tags_uniform_preserved : forall st o, op_untagged o = true -> tags_uniform st -> tags_uniform (step st o).
Proof. exact step_tags. Qed.
Print Assumptions C15_tags_uniform_preserved.

Theorem C15_inv_components : forall st, Inv st <-> arenas_wf (st_arenas st) /\ bound_Inv st /\ placed_Inv st.
Proof. exact Inv_split. Qed.
Print Assumptions C15_inv_components.

Theorem C15_bound_inv_reachable_partial : forall ops,
  forallb op_untagged ops = true ->
  arenas_wf (st_arenas (run init_state ops)) /\ bound_Inv (run init_state ops) /\ placed_Inv (run init_state ops).
Proof. exact reachable_Inv_partial. Qed.
Print Assumptions C15_bound_inv_reachable_partial.

(* the individual adoption paths need only `tag_safe` of the adopting heap; collect needs nothing *)
Theorem C15_attempt_reclaim_preserved_partial : forall st h sid heur won,
  tag_safe (st_heaps st) h -> Inv st -> Inv (attempt_reclaim st h sid heur won).
Proof. exact attempt_reclaim_Inv. Qed.
Print Assumptions C15_attempt_reclaim_preserved_partial.

Theorem C15_try_reclaim_preserved_partial : forall h visits st,
  tag_safe (st_heaps st) h -> Inv st -> Inv (try_reclaim st h visits).
Proof. exact try_reclaim_Inv. Qed.
Print Assumptions C15_try_reclaim_preserved_partial.

Theorem C15_reclaim_all_preserved_partial : forall st h,
  tag_safe (st_heaps st) h -> Inv st -> Inv (reclaim_all st h).
Proof. exact reclaim_all_Inv. Qed.
Print Assumptions C15_reclaim_all_preserved_partial.

Theorem C15_abandoned_collect_preserved : forall h visits st, Inv st -> Inv (abandoned_collect st h visits).
Proof. exact abandoned_collect_Inv. Qed.
Print Assumptions C15_abandoned_collect_preserved.

Theorem C15_span_reuse_preserved : forall st h need sid k, Inv st -> Inv (span_reuse st h need sid k).
Proof. exact span_reuse_Inv. Qed.
Print Assumptions C15_span_reuse_preserved.

Theorem C15_segment_alloc_preserved : forall st opts h huge size alignment offs slices al o,
  Inv st -> Inv (fst (segment_alloc st opts h huge size alignment offs slices al o)).
Proof. exact segment_alloc_Inv. Qed.
Print Assumptions C15_segment_alloc_preserved.

Theorem C15_thread_done_preserved : forall st tid, Inv st -> Inv (thread_done st tid).
Proof. exact thread_done_Inv. Qed.
Print Assumptions C15_thread_done_preserved.

Theorem C15_heap_delete_preserved : forall st h, Inv st -> Inv (heap_delete st h).
Proof. exact heap_delete_Inv. Qed.
Print Assumptions C15_heap_delete_preserved.

(* the full statement (every heap tag), kept unproved ... *)
Definition C15_full_bound_inv_preserved : Prop := forall st o, Inv st -> Inv (step st o).

(* ... because the unchanged code refutes it: known finding impl:reclaim-by-tag-exclusive *)
Theorem C15_full_bound_inv_preserved_refuted : ~ C15_full_bound_inv_preserved.
Proof. exact bound_inv_preserved_full_refuted. Qed.
Print Assumptions C15_full_bound_inv_preserved_refuted.

Theorem C15_reclaim_tag_unsuitable_refuted :
  exists ops o,
    bound_inv_b (run init_state ops) = true /\ placed_inv_b (run init_state ops) = true /\
    bound_inv_b (step (run init_state ops) o) = false /\
    exclusive_leak_b (step (run init_state ops) o) 1%Z = true.
Proof. exact reclaim_tag_unsuitable_refuted_lemma. Qed.
Print Assumptions C15_reclaim_tag_unsuitable_refuted.

(* ---- corollaries ---- *)

(* a heap bound to arena A only holds memory taken from A, inside mi_arena_area(A) *)
Theorem C15_bound_heap_inside_arena : forall st s p h,
  Inv st -> In s (st_segs st) -> In p (s_pages s) -> p_heap p = Some h -> h_arena h <> 0%Z ->
  exists a ex,
    s_memid s = MemArena (h_arena h) ex /\
    nthN (st_arenas st) (arena_id_index (h_arena h)) = Some a /\ a_id a = h_arena h /\ a_excl a = ex /\
    a_start a <= s_addr s /\
    s_addr s + block_count_of_size (s_size s) * MI_ARENA_BLOCK_SIZE <= a_start a + a_blocks a * MI_ARENA_BLOCK_SIZE /\
    (arena_id_index (h_arena h) < MI_MAX_ARENAS ->
       arena_area (st_arenas st) (h_arena h) = (a_start a, a_blocks a * MI_ARENA_BLOCK_SIZE)).
Proof. exact bound_heap_inside_arena_lemma. Qed.
Print Assumptions C15_bound_heap_inside_arena.

(* the bytes of a segment are inside the blocks claimed for it *)
Theorem C15_segment_bytes_in_blocks : forall size, size + MI_ARENA_BLOCK_SIZE < W64 ->
  size <= block_count_of_size size * MI_ARENA_BLOCK_SIZE.
Proof. exact size_le_blocks. Qed.
Print Assumptions C15_segment_bytes_in_blocks.

(* a specific-arena request: that arena or NULL; never the OS, never another arena, no reserve *)
Theorem C15_no_os_fallback_for_bound_heap : forall arenas opts size alignment offs al req o,
  arenas_wf arenas -> req <> 0%Z ->
  let '(ars, r) := arena_alloc arenas opts size alignment offs al req o in
  ars = arenas /\
  (forall p, r <> ROs p) /\
  (forall a bi, r = RArena a bi ->
     a_id a = req /\ nthN arenas (arena_id_index req) = Some a /\
     result_memid r = MemArena req (a_excl a) /\
     inside_arena a (result_addr r) (result_addr r + block_count_of_size size * MI_ARENA_BLOCK_SIZE) = true) /\
  (o_room o (arena_id_index req) = None -> r = RNull).
Proof. exact no_os_fallback_lemma. Qed.
Print Assumptions C15_no_os_fallback_for_bound_heap.

(* memory of an exclusive arena is only held by heaps bound to it ... *)
Theorem C15_exclusive_stays_private : forall st s p h A,
  bound_Inv st -> In s (st_segs st) -> s_memid s = MemArena A true -> In p (s_pages s) ->
  p_heap p = Some h -> h_arena h = A.
Proof. exact exclusive_stays_private_lemma. Qed.
Print Assumptions C15_exclusive_stays_private.

(* ... in every history: span reuse, reclaim-on-free, try_reclaim, reclaim_all, collect, thread exit *)
Theorem C15_exclusive_stays_private_history_partial : forall ops A,
  forallb op_untagged ops = true -> exclusive_leak_b (run init_state ops) A = false.
Proof. exact exclusive_stays_private_history. Qed.
Print Assumptions C15_exclusive_stays_private_history_partial.

Theorem C15_span_reuse_checks_suitable : forall st h need sid k,
  (forall s, find_seg st sid = Some s -> memid_is_suitable (s_memid s) (h_arena h) = false ->
     span_reuse st h need sid k = st) /\
  (span_reuse st h need sid k <> st ->
     exists s, find_seg st sid = Some s /\ s_owner s = h_thread h /\
               memid_is_suitable (s_memid s) (h_arena h) = true).
Proof. exact span_reuse_checks_suitable_lemma. Qed.
Print Assumptions C15_span_reuse_checks_suitable.

(* after an adoption path run by heap h, a segment owned by h's thread is an unchanged old one or is
   suitable for h; reclaim-on-free leaves an unsuitable segment alone *)
Theorem C15_reclaim_checks_suitable : forall st h, h_thread h <> 0 ->
  (forall visits, Forall (framed h (st_segs st)) (st_segs (try_reclaim st h visits))) /\
  Forall (framed h (st_segs st)) (st_segs (reclaim_all st h)) /\
  (forall visits, Forall (framed h (st_segs st)) (st_segs (abandoned_collect st h visits))) /\
  (forall sid s heur won, find_seg st sid = Some s -> heap_memid_is_suitable h (s_memid s) = false ->
     attempt_reclaim st h sid heur won = st).
Proof. exact reclaim_checks_suitable_lemma. Qed.
Print Assumptions C15_reclaim_checks_suitable.

(* mi_manage_os_memory(_ex): for every start and size *)
Theorem C15_managed_region_bounds : forall start size m,
  start + size <= W64 -> manage_os_memory start size = Some m ->
  start <= m_start m /\ m_start m mod MI_SEGMENT_ALIGN = 0 /\
  1 <= m_bcount m /\ m_start m + m_bcount m * MI_ARENA_BLOCK_SIZE <= start + size /\
  (forall i, i < m_bcount m ->
     start <= m_start m + i * MI_ARENA_BLOCK_SIZE /\
     m_start m + (i + 1) * MI_ARENA_BLOCK_SIZE <= start + size) /\
  (forall bit, m_bcount m <= bit < m_fields m * MI_BITMAP_FIELD_BITS -> inuse_init m bit = true) /\
  (forall bi n, n <> O -> claimable_from m bi n = true ->
     bi + N.of_nat n <= m_bcount m /\
     start <= m_start m + bi * MI_ARENA_BLOCK_SIZE /\
     m_start m + (bi + N.of_nat n) * MI_ARENA_BLOCK_SIZE <= start + size).
Proof. exact managed_region_bounds_lemma. Qed.
Print Assumptions C15_managed_region_bounds.

Theorem C15_manage_inside_region : forall arenas start size ex lg numa ars a,
  start + size <= W64 -> manage arenas start size ex lg numa = Some (ars, a) ->
  start <= a_start a /\ a_start a + a_blocks a * MI_ARENA_BLOCK_SIZE <= start + size /\
  a_excl a = ex /\ a_id a = arena_id_create (lengthN arenas) /\ ars = arenas ++ [a].
Proof. exact manage_inside_region. Qed.
Print Assumptions C15_manage_inside_region.

(* boolean forms, to run the invariants on concrete states *)
Theorem C15_bound_inv_b_spec : forall st, bound_inv_b st = true <-> bound_Inv st.
Proof. exact bound_inv_b_spec. Qed.
Print Assumptions C15_bound_inv_b_spec.

(* ---- non-vacuity and the repaired defect ---- *)

Example C15_example_state :
  lengthN (st_arenas ex_state) = 2 /\ lengthN (st_segs ex_state) = 2 /\
  map s_owner (st_segs ex_state) = [0; 0] /\
  map s_memid (st_segs ex_state) = [MemArena 2 false; MemArena 1 true] /\
  map (fun s => lengthN (s_pages s)) (st_segs ex_state) = [1; 1] /\
  bound_inv_b ex_state = true /\ placed_inv_b ex_state = true /\ tags_uniform_b ex_state = true /\
  forallb op_untagged ex_setup = true.
Proof. exact ex_state_nontrivial. Qed.

Example C15_example_managed :
  manage_os_memory (MiB32 * 100 + 4096) (MiB32 * 5 + 12288) = Some (mkManaged (MiB32 * 101) 4 1 60 4) /\
  manage_os_memory (MiB32 * 100 + 4096) (MiB32 * 2 - 4097) = None /\
  manage_os_memory 4096 (MiB32 - 1) = None.
Proof. exact ex_managed_misaligned. Qed.

Example C15_example_bound_full_null :
  snd (arena_alloc (st_arenas ex_state) default_opts MiB32 MiB32 0 false 1%Z (no_oracle (fun _ => None))) = RNull /\
  snd (arena_alloc (st_arenas ex_state) default_opts MiB32 MiB32 0 false 0%Z (no_oracle (fun _ => None))) = ROs 1099511627776 /\
  snd (arena_alloc (st_arenas ex_state) default_opts MiB32 MiB32 0 false 0%Z (no_oracle (fun _ => Some 0))) =
    RArena (mkArena 2 false (MiB32 * 200) 2 false (-1)%Z) 0.
Proof. exact ex_bound_full_null. Qed.

Example C15_example_reclaim_all_repaired :
  let st := step ex_state (OReclaimAll 1) in
  map s_owner (st_segs st) = [1; 0] /\ exclusive_leak_b st 1%Z = false /\ bound_inv_b st = true.
Proof. exact ex_reclaim_all_repaired. Qed.

(* a history with a tagged heap that satisfies the hypothesis of the adopter-based theorems: heap 6 =
   mi_heap_new_ex(7, false, none) adopts the abandoned segment of the shared arena *)
Example C15_example_tagged_adopter_safe :
  let st := run init_state ex_safe_ops in
  let h6 := mkHeap 6 1 0%Z 7 false in
  find_heap st 6 = Some h6 /\ tag_safe_b (st_heaps st) h6 = true /\ tags_uniform_b st = false /\
  map s_owner (st_segs (step st ex_safe_step)) = [1; 0] /\
  map (fun s => map (fun p => match p_heap p with Some h => h_id h | None => 0 end) (s_pages s)) (st_segs (step st ex_safe_step)) = [[1]; [0]] /\
  bound_inv_b (step st ex_safe_step) = true /\ exclusive_leak_b (step st ex_safe_step) 1%Z = false.
Proof. exact ex_tagged_adopter_safe. Qed.

Example C15_example_adopters_safe_history : adopters_safe init_state (ex_safe_ops ++ [ex_safe_step]).
Proof. exact ex_safe_adopters. Qed.

(* documentation of the repaired defect (fix 027d323): the old _mi_abandoned_reclaim_all, without
   the suitability test, breaks exclusive_stays_private on the same state *)
Example C15_reclaim_all_old_breaks_exclusive :
  let h1 := mkHeap 1 1 0%Z 0 true in
  find_heap ex_state 1 = Some h1 /\ bound_inv_b ex_state = true /\
  let st := reclaim_all_old ex_state h1 in
  map s_owner (st_segs st) = [1; 1] /\ exclusive_leak_b st 1%Z = true /\ bound_inv_b st = false.
Proof. exact reclaim_all_old_breaks_exclusive. Qed.
