(* Property C12 -- heap walking reports exactly the live blocks (heap layer: the walk with a visitor,
   "returning false from the visitor stops the walk").  Model/Walk.v over Model/Page.v.
   This file contains only statements, each closed by `exact <lemma>`, and Print Assumptions. *)
From Coq Require Import NArith List Bool.
From MiV Require Import Gen.Consts Model.Arith Model.Page Model.Walk Model.Heap Proofs.Base Proofs.PageProofs Proofs.WalkProofs Proofs.HeapBase Proofs.WalkHeap.
Import ListNotations.
Local Open Scope N_scope.

(* the nested loops of mi_heap_visit_blocks / mi_heap_visit_pages / mi_heap_area_visitor /
   _mi_heap_area_visit_blocks are, for EVERY visitor (any state type, any answers), the flat call sequence
   "area record, then the visited indices, page after page in queue order" cut at the first refusal *)
Theorem C12_walk_is_flat_sequence : forall (S : Type) (visitor : S -> vcall -> S * bool) vb pages s,
  pages <> [] ->
  heap_visit_blocks S visitor vb pages s = run_calls S visitor s (all_calls vb pages).
Proof. exact heap_visit_blocks_run. Qed.
Print Assumptions C12_walk_is_flat_sequence.

(* every page satisfying the page invariant (and the 32-bit bounds the fast division needs), an accepting
   visitor: the calls are, per page, its area record followed by exactly its live blocks, each once, in
   address order; the result is true *)
Theorem C12_walk_reports_exactly_live : forall (S : Type) (visitor : S -> vcall -> S * bool) pages s,
  pages <> [] -> Forall (fun x => walkable (snd x)) pages -> (forall s0 c, snd (visitor s0 c) = true) ->
  exists s', heap_visit_blocks S visitor true pages s = (s', live_calls pages, true).
Proof. exact walk_reports_exactly_live. Qed.
Print Assumptions C12_walk_reports_exactly_live.

(* visit_blocks = false: one area call per page and nothing else *)
Theorem C12_walk_areas_only : forall (S : Type) (visitor : S -> vcall -> S * bool) pages s,
  pages <> [] -> (forall s0 c, snd (visitor s0 c) = true) ->
  exists s', heap_visit_blocks S visitor false pages s = (s', map (fun x => area_call (fst x) (snd x)) pages, true).
Proof. exact walk_areas_only. Qed.
Print Assumptions C12_walk_areas_only.

(* returning false stops the walk: when the result is false (and the heap has pages) the calls made are the
   full sequence up to AND INCLUDING the first refused call -- every earlier call was accepted, no later
   call is made, and the visitor's state is the one it left at the refusal *)
Theorem C12_visitor_false_stops_walk : forall (S : Type) (visitor : S -> vcall -> S * bool) vb pages s s' tr,
  heap_visit_blocks S visitor vb pages s = (s', tr, false) ->
  pages = [] /\ tr = [] \/
  exists pre c post s0, all_calls vb pages = pre ++ c :: post /\ tr = pre ++ [c] /\
    run_calls S visitor s pre = (s0, pre, true) /\ visitor s0 c = (s', false).
Proof. exact walk_false_stops. Qed.
Print Assumptions C12_visitor_false_stops_walk.

(* result true: nothing was skipped *)
Theorem C12_walk_true_complete : forall (S : Type) (visitor : S -> vcall -> S * bool) vb pages s s' tr,
  heap_visit_blocks S visitor vb pages s = (s', tr, true) -> pages <> [] /\ tr = all_calls vb pages.
Proof. exact walk_true_complete. Qed.
Print Assumptions C12_walk_true_complete.

(* as the code is written, a heap without pages answers false without calling the visitor (mi_heap_visit_pages:
   `page_count == 0` returns 0) *)
Theorem C12_walk_empty_heap : forall (S : Type) (visitor : S -> vcall -> S * bool) vb s,
  heap_visit_blocks S visitor vb [] s = (s, [], false).
Proof. exact heap_visit_blocks_empty. Qed.
Print Assumptions C12_walk_empty_heap.

(* "per area a used count equal to the number of its live blocks", in a state without pending cross-thread frees *)
Theorem C12_area_used_is_live_count : forall p,
  page_Inv p -> thread_free p = [] -> used p = N.of_nat (length (page_live p)).
Proof. exact area_used_is_live_count. Qed.
Print Assumptions C12_area_used_is_live_count.

(* the visitor of harness/t_walk.c (refuse the k-th call): the walk is the first k calls, for every k and heap *)
Theorem C12_walk_stop_at_spec : forall vb k pages, pages <> [] ->
  walk_stop_at vb k pages =
  if (0 <? k) && (k <=? N.of_nat (length (all_calls vb pages)))
  then (firstn (N.to_nat k) (all_calls vb pages), false)
  else (all_calls vb pages, true).
Proof. exact walk_stop_at_spec. Qed.
Print Assumptions C12_walk_stop_at_spec.

(* the walk itself (it force-collects the pages it enters) changes no page's set of live blocks and keeps the page
   invariant, whatever the visitor answers and wherever it stops; a completed walk leaves the remote/local lists empty *)
Theorem C12_walk_keeps_live_sets : forall (S : Type) (visitor : S -> vcall -> S * bool) vb pages,
  Forall (fun x => page_Inv (snd x)) pages -> forall s,
  map (fun x => (fst x, page_live (snd x))) (walk_pages_after S visitor vb pages s) =
  map (fun x => (fst x, page_live (snd x))) pages.
Proof. exact walk_pages_after_live. Qed.
Print Assumptions C12_walk_keeps_live_sets.

Theorem C12_walk_keeps_page_inv : forall (S : Type) (visitor : S -> vcall -> S * bool) vb pages,
  Forall (fun x => page_Inv (snd x)) pages -> forall s,
  Forall (fun x => page_Inv (snd x)) (walk_pages_after S visitor vb pages s).
Proof. exact walk_pages_after_inv. Qed.
Print Assumptions C12_walk_keeps_page_inv.

Theorem C12_completed_walk_collects : forall (S : Type) (visitor : S -> vcall -> S * bool) pages,
  Forall (fun x => page_Inv (snd x)) pages -> (forall s0 c, snd (visitor s0 c) = true) -> forall s,
  Forall (fun x => local_free (snd x) = [] /\ thread_free (snd x) = []) (walk_pages_after S visitor true pages s).
Proof. exact walk_pages_after_complete. Qed.
Print Assumptions C12_completed_walk_collects.

(* composition with the queue traversal of the heap model (Model/Heap.v, C10_visit_all_queues_once): in every state
   satisfying the heap invariant, whatever the pages contain (content), an accepting visitor is called with the area record and
   exactly the live blocks of every page, and the pages so reported are exactly the pages the heap owns, each once *)
Theorem C12_heap_walk_every_page_once : forall (s : Heap.state) (h : hid) hp (content : pid -> Page.page)
  (S : Type) (visitor : S -> vcall -> S * bool) (st : S),
  heap_Inv s -> get_heap s h = Some hp -> heap_visit_pages s h <> [] ->
  (forall p, In p (heap_visit_pages s h) -> walkable (content p)) ->
  (forall s0 c, snd (visitor s0 c) = true) ->
  (exists st', heap_visit_blocks S visitor true (walk_input s h content) st = (st', live_calls (walk_input s h content), true)) /\
  NoDup (map fst (walk_input s h content)) /\
  (forall p, In p (map fst (walk_input s h content)) <-> exists pi, get_page s p = Some pi /\ pheap pi = Some h).
Proof. exact heap_walk_every_page_once. Qed.
Print Assumptions C12_heap_walk_every_page_once.

(* non-vacuity: two pages (48-byte blocks with holes on all three lists; a full 2-block page), stop at the 4th call *)
Definition ex_p1 : page := mkPage 48 85 10 6 [9; 8] [1; 3] [5] false false false 0.
Definition ex_p2 : page := mkPage 1024 2 2 2 [] [] [] false false false 0.
Example C12_ex_walkable : page_inv_b ex_p1 = true /\ page_inv_b ex_p2 = true.
Proof. vm_compute. split; reflexivity. Qed.
Example C12_ex_walk_all :
  walk_stop_at true 0 [(1, ex_p1); (2, ex_p2)] =
  ([VArea 1 6 4080 480 48; VBlock 1 0; VBlock 1 2; VBlock 1 4; VBlock 1 6; VBlock 1 7;
    VArea 2 2 2048 2048 1024; VBlock 2 0; VBlock 2 1], true).
Proof. vm_compute. reflexivity. Qed.
Example C12_ex_walk_stop4 :
  walk_stop_at true 4 [(1, ex_p1); (2, ex_p2)] = ([VArea 1 6 4080 480 48; VBlock 1 0; VBlock 1 2; VBlock 1 4], false).
Proof. vm_compute. reflexivity. Qed.
Example C12_ex_walk_stop_area2 :
  walk_stop_at false 2 [(1, ex_p1); (2, ex_p2)] = ([VArea 1 6 4080 480 48; VArea 2 2 2048 2048 1024], false).
Proof. vm_compute. reflexivity. Qed.
Example C12_ex_pages_after_stop4 :
  map (fun x => (local_free (snd x), thread_free (snd x), used (snd x))) (pages_after_stop_at true 4 [(1, ex_p1); (2, ex_p2)]) =
  [([], [], 5); ([], [], 2)].
Proof. vm_compute. reflexivity. Qed.
