(* Property C12 -- heap walking reports exactly the live blocks (page layer).
   This file contains only statements, each closed by `exact <lemma>`, and Print Assumptions. *)
From Coq Require Import NArith List Bool.
From MiV Require Import Gen.Consts Model.Arith Model.Page Proofs.Base Proofs.ArithProofs Proofs.PageProofs.
Import ListNotations.
Local Open Scope N_scope.

(* after the forced collect, the visited index list is the sorted list of live indices, each once:
   single-block shortcut, full-page shortcut and the free-bitmap path with fast division *)
Theorem C12_page_visit_exactly_live : forall p,
  page_Inv p -> bsize p < 2^32 -> capacity p * bsize p < 2^32 ->
  page_visit_blocks p = page_live p.
Proof. exact page_visit_exactly_live. Qed.
Print Assumptions C12_page_visit_exactly_live.

(* the number of visited blocks is the `used` count reported for the area *)
Theorem C12_page_visit_count : forall p,
  page_Inv p -> bsize p < 2^32 -> capacity p * bsize p < 2^32 ->
  N.of_nat (length (page_visit_blocks p)) = used (fst (page_free_collect p true)).
Proof. exact page_visit_count. Qed.
Print Assumptions C12_page_visit_count.

(* the forced collect that precedes the walk leaves nothing on local_free / thread_free *)
Theorem C12_page_collect_force_complete : forall p, page_Inv p ->
  local_free (fst (page_free_collect p true)) = [] /\ thread_free (fst (page_free_collect p true)) = [] /\
  used (fst (page_free_collect p true)) = N.of_nat (length (page_live p)).
Proof. exact page_collect_force_complete. Qed.
Print Assumptions C12_page_collect_force_complete.

(* |live| = used - |thread_free|  (types.h:302) *)
Theorem C12_page_live_count : forall p, page_Inv p ->
  N.of_nat (length (page_live p)) + N.of_nat (length (thread_free p)) = used p.
Proof. exact page_live_count. Qed.
Print Assumptions C12_page_live_count.

(* the visited list is in address order without repetition, and is the live set *)
Theorem C12_page_live_sorted : forall p, Sorted.StronglySorted N.lt (page_live p).
Proof. exact page_live_sorted. Qed.
Print Assumptions C12_page_live_sorted.

Theorem C12_page_live_spec : forall p i, In i (page_live p) <-> is_live p i.
Proof. exact page_live_spec. Qed.
Print Assumptions C12_page_live_spec.

(* the fast division used to index the free bitmap is exact on its whole domain *)
Theorem C12_fast_divide_correct : forall d n, 0 < d -> d < 2^32 -> n < 2^32 ->
  fast_divide n (fst (fast_divisor d)) (snd (fast_divisor d)) = n / d.
Proof. exact fast_divide_correct. Qed.
Print Assumptions C12_fast_divide_correct.

(* non-vacuity.  A 64 KiB page of 48-byte blocks (reserved 1365, first extend 85 blocks): ten blocks
   are allocated, 3 and 7 are freed by the owner, 5 and 1 by another thread; the page satisfies the
   invariant, has blocks on all three lists, and the walk (bitmap path) visits the six live blocks. *)
Example C12_ex_holes :
  option_map (fun p => (page_inv_b p, (capacity p, used p), (local_free p, thread_free p), page_visit_blocks p))
    (page_run (page_init 48 65536 false)
       (repeat OpMalloc 10 ++ [OpFree 3; OpFree 7; OpRemoteFree 5; OpRemoteFree 1]))
  = Some (true, (85, 8), ([7; 3], [1; 5]), [0; 2; 4; 6; 8; 9]).
Proof. vm_compute. reflexivity. Qed.

(* a full page (used = capacity): the shortcut path visits every block *)
Example C12_ex_full :
  option_map (fun p => (page_inv_b p, (capacity p, used p), page_visit_blocks p))
    (page_run (page_init 48 65536 false) (repeat OpMalloc 85))
  = Some (true, (85, 85), nseq 0 85).
Proof. vm_compute. reflexivity. Qed.

(* a single-block page (capacity = 1) *)
Example C12_ex_single :
  option_map (fun p => (page_inv_b p, (capacity p, used p), page_visit_blocks p))
    (page_run (page_init 65536 65536 false) [OpMalloc])
  = Some (true, (1, 1), [0]).
Proof. vm_compute. reflexivity. Qed.
