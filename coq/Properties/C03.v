(* Property C03 -- size and alignment contract, including interior (aligned) pointers: the API-level
   part (aligned decision procedure, over-allocation arithmetic, interior pointers in the abstract
   map).  Only statements, each closed by `exact <lemma>`, Print Assumptions, and examples.
   Model: Model/Api.v (aligned paths of alloc-aligned.c) over Model/Arith.v (ptr_unalign,
   page_start_from_slice, good_size, mi_bin).
   Not in this file: the placement of blocks with an alignment above MI_BLOCK_ALIGNMENT_MAX by the
   segment layer (`huge_aligned`; here it is the hypothesis huge_answer_ok inside oracles_ok) and the
   has_aligned flag of the page model. *)
From Coq Require Import NArith List Bool.
From MiV Require Import Gen.Consts Gen.Bins Model.Arith Model.Api Proofs.Base Proofs.BitsProofs
                        Proofs.ApiSweeps Proofs.ApiProofs.
Import ListNotations.
Local Open Scope N_scope.

(* over-allocation: for every size, alignment 2^k <= MI_BLOCK_ALIGNMENT_MAX, offset and block start p
   with usable >= the over-allocation size: the adjusted pointer is aligned at the offset, the
   adjustment is below the alignment, `size` bytes fit behind it, and _mi_page_ptr_unalign maps the
   interior pointer back to the block start *)
Theorem C03_overalloc_aligned : forall size k offset p usable page_start bs i,
  k < 64 -> 2 ^ k <= MI_BLOCK_ALIGNMENT_MAX -> size <= MI_MAX_ALLOC_SIZE -> offset < W64 ->
  p + usable < W64 -> overalloc_size size (2 ^ k) <= usable ->
  let adjust := aligned_adjust p (2 ^ k) offset in
  (p + adjust + offset) mod 2 ^ k = 0 /\ adjust < 2 ^ k /\ adjust + size <= usable /\
  (0 < bs -> bs < W64 -> usable <= bs -> p = page_start + i * bs ->
   ptr_unalign page_start bs (p + adjust) = p).
Proof. exact overalloc_aligned. Qed.
Print Assumptions C03_overalloc_aligned.

Theorem C03_overalloc_size : forall size alignment,
  size <= MI_MAX_ALLOC_SIZE -> 0 < alignment -> alignment <= MI_BLOCK_ALIGNMENT_MAX ->
  overalloc_size size alignment = N.max size MI_MAX_ALIGN_SIZE + alignment - 1.
Proof. exact overalloc_size_small. Qed.
Print Assumptions C03_overalloc_size.

(* the natural-alignment shortcut is sound: when mi_malloc_is_naturally_aligned accepts, a block that
   satisfies the general alignment guarantee (8; 16 for sizes >= 16: C03_min_alignment) and starts at
   a multiple of its block size mi_good_size(size) (page_start_block_aligned for block sizes up to
   MI_MAX_ALIGN_GUARANTEE) is aligned -- so the "cannot happen" fallback is indeed never taken *)
Theorem C03_naturally_aligned_sound : forall size k p,
  k < 64 -> malloc_is_naturally_aligned size (2 ^ k) = true ->
  p mod 8 = 0 -> (16 <= size -> p mod 16 = 0) ->
  (good_size size <= MI_MAX_ALIGN_GUARANTEE -> p mod good_size size = 0) ->
  p mod 2 ^ k = 0.
Proof. exact naturally_aligned_sound. Qed.
Print Assumptions C03_naturally_aligned_sound.

(* composed with the page geometry: block i of a page laid out by _mi_segment_page_start_from_slice
   (block size mi_good_size(size) for small/medium requests; larger requests own their page) is
   aligned whenever mi_malloc_is_naturally_aligned accepts the request ... *)
Theorem C03_natural_block_aligned : forall seg idx cnt size k bs i,
  seg mod MI_SEGMENT_SIZE = 0 -> seg + MI_SEGMENT_SIZE < W64 -> 0 < cnt -> idx + cnt <= MI_SLICES_PER_SEGMENT ->
  k < 64 -> size <= MI_MAX_ALLOC_SIZE -> bs < W64 ->
  malloc_is_naturally_aligned size (2 ^ k) = true ->
  (size <= MI_MEDIUM_OBJ_SIZE_MAX -> bs = good_size size /\ 2 * bs <= cnt * MI_SEGMENT_SLICE_SIZE) ->
  (MI_MEDIUM_OBJ_SIZE_MAX < size -> i = 0) ->
  (fst (page_start_from_slice seg idx cnt bs) + i * bs) mod 2 ^ k = 0.
Proof. exact natural_block_aligned. Qed.
Print Assumptions C03_natural_block_aligned.

(* ... so the natural path runs to its end: the plain block is returned, the second oracle (the
   "cannot happen" fallback to over-allocation) is never consulted *)
Theorem C03_natural_path_no_fallback : forall st heap size k zero o p u bytes,
  k < 64 -> size <= MI_MAX_ALLOC_SIZE -> malloc_is_naturally_aligned size (2 ^ k) = true ->
  o_ans o = Some (p, u, bytes) -> p mod 2 ^ k = 0 ->
  malloc_zero_aligned_at_generic st heap size (2 ^ k) 0 zero o =
    (add st p (mkBlock u (if zero then zero_all bytes else bytes) heap size zero 0), Some p, PathNatural).
Proof. exact natural_path_no_fallback. Qed.
Print Assumptions C03_natural_path_no_fallback.

(* the page start is a multiple of the block size for every size class mi_bin can return (8 or a
   multiple of 16) *)
Theorem C03_page_start_block_aligned : forall seg idx cnt bs,
  seg mod MI_SEGMENT_SIZE = 0 -> seg + MI_SEGMENT_SIZE < W64 -> 0 < cnt ->
  idx + cnt <= MI_SLICES_PER_SEGMENT ->
  0 < bs -> bs <= MI_MAX_ALIGN_GUARANTEE -> bs mod 16 = 0 \/ bs = 8 ->
  2 * bs <= cnt * MI_SEGMENT_SLICE_SIZE ->
  fst (page_start_from_slice seg idx cnt bs) mod bs = 0.
Proof. exact page_start_block_aligned. Qed.
Print Assumptions C03_page_start_block_aligned.

(* minimal alignment: every size class that mi_bin returns for a small or medium request is 8 bytes
   (requests up to 8 bytes) or a multiple of 16 bytes ... *)
Theorem C03_bin_align : forall s, s <= MI_MEDIUM_OBJ_SIZE_MAX ->
  (s <= 8 /\ bin_size (mi_bin s) = 8) \/ (8 < s /\ bin_size (mi_bin s) mod 16 = 0 /\ 0 < bin_size (mi_bin s)).
Proof. exact bin_align. Qed.
Print Assumptions C03_bin_align.

Theorem C03_reachable_bin_sizes : forall b, In b reachable_bins -> bin_size b = 8 \/ bin_size b mod 16 = 0.
Proof. exact reachable_bin_sizes. Qed.
Print Assumptions C03_reachable_bin_sizes.

(* ... hence, with a 16-aligned page start (page_start_aligned16), block i of the page is 8-aligned
   and 16-aligned for requests of at least 16 (indeed more than 8) bytes; larger requests get a
   page of their own (i = 0) *)
Theorem C03_min_alignment : forall size page_start bs i,
  page_start mod 16 = 0 ->
  (size <= MI_MEDIUM_OBJ_SIZE_MAX -> bs = bin_size (mi_bin size)) ->
  (MI_MEDIUM_OBJ_SIZE_MAX < size -> i = 0) ->
  let p := page_start + i * bs in
  p mod 8 = 0 /\ (16 <= size -> p mod 16 = 0) /\ (8 < size -> p mod 16 = 0).
Proof. exact min_alignment. Qed.
Print Assumptions C03_min_alignment.

(* the aligned allocation as a whole (every path: free small block that happens to be aligned,
   natural alignment, over-allocation, huge alignment): the returned pointer q is aligned at the
   offset, is a live entry of the map whose block start / block usable size are those of the
   answer, mi_usable_size(q) = usable - adjust >= size, mi_expand accepts it up to that size, and
   mi_free(q) releases exactly that block *)
Theorem C03_usable_of_interior : forall st heap size k offset zero o st' q path,
  wf st -> k < 64 -> size < W64 -> offset < W64 -> oracles_ok st size (2 ^ k) offset o ->
  heap_malloc_zero_aligned_at st heap size (2 ^ k) offset zero o = (st', Some q, path) ->
  exists b p u bytes0,
    (o_ans o = Some (p, u, bytes0) \/ o_ans2 o = Some (p, u, bytes0)) /\
    lookup st' q = Some b /\ q = p + b_adjust b /\ block_start q b = p /\ block_usable b = u /\
    usable_size st' q = u - b_adjust b /\ size <= usable_size st' q /\
    (q + offset) mod 2 ^ k = 0 /\ expand st' q size = Some q /\
    (forall x, x <> q -> lookup (free st' q) x = lookup st x) /\ lookup (free st' q) q = None.
Proof. exact usable_of_interior. Qed.
Print Assumptions C03_usable_of_interior.

(* re-allocating with the same alignment keeps the alignment (in place and moved), the contents and
   the bookkeeping; interior pointers are accepted like ordinary ones *)
Theorem C03_realloc_aligned_keeps : forall st heap p newsize k offset zero o st' q b,
  wf st -> 3 < k -> k < 64 -> newsize < W64 -> offset < W64 ->
  oracles_ok st newsize (2 ^ k) offset o -> lookup st p = Some b ->
  realloc_zero_aligned_at st heap p newsize (2 ^ k) offset zero o = (st', Some q) ->
  (q + offset) mod 2 ^ k = 0 /\
  exists b', lookup st' q = Some b' /\ newsize <= b_usable b' /\
    (forall i, i < N.min (b_usable b) newsize -> byte_at (b_bytes b') i = byte_at (b_bytes b) i) /\
    (lookup st' p = None <-> q <> p) /\
    (forall x, x <> p -> x <> q -> lookup st' x = lookup st x).
Proof. exact realloc_aligned_keeps. Qed.
Print Assumptions C03_realloc_aligned_keeps.

Theorem C03_aligned_inplace_rule : forall st heap p newsize k offset zero o b,
  wf st -> 3 < k -> k < 64 -> newsize < W64 -> offset < W64 ->
  oracles_ok st newsize (2 ^ k) offset o -> lookup st p = Some b ->
  (snd (realloc_zero_aligned_at st heap p newsize (2 ^ k) offset zero o) = Some p <->
   newsize <= b_usable b /\ b_usable b - b_usable b / 2 <= newsize /\ (p + offset) mod 2 ^ k = 0).
Proof. exact aligned_inplace_rule. Qed.
Print Assumptions C03_aligned_inplace_rule.

(* ---- non-vacuity ---- *)
Definition ex3_o (pf : option N) (a : answer) : oracles := mkOracles pf a None.

(* the four paths on concrete inputs: fast (a free 64-byte block that is 64-aligned), natural
   (64 bytes / alignment 64), over-allocation (100 bytes / alignment 4096 at offset 8, block at
   0x10010), huge alignment (2^25) *)
Example C03_ex_paths :
  (let '(_, r, path) := heap_malloc_zero_aligned_at [] 0 64 64 0 false (ex3_o (Some 8192) (Some (8192, 64, dirty 64))) in
   r = Some 8192 /\ path = PathFastSmall) /\
  (let '(_, r, path) := heap_malloc_zero_aligned_at [] 0 64 64 0 false (ex3_o None (Some (8192, 64, dirty 64))) in
   r = Some 8192 /\ path = PathNatural) /\
  (let '(st', r, path) := heap_malloc_zero_aligned_at [] 0 100 4096 8 false (ex3_o None (Some (65552, 5120, dirty 5120))) in
   r = Some 69624 /\ path = PathOveralloc /\ (69624 + 8) mod 4096 = 0 /\ usable_size st' 69624 = 1048 /\
   ptr_unalign 65552 5120 69624 = 65552) /\
  (let '(st', r, path) := heap_malloc_zero_aligned_at [] 0 100 (2 ^ 25) 0 false (ex3_o None (Some (33554432 + 65536, 33554432, []))) in
   r = Some 67108864 /\ path = PathHuge) /\
  malloc_is_naturally_aligned 64 64 = true /\ malloc_is_naturally_aligned 100 64 = false /\
  malloc_is_naturally_aligned 65536 65536 = true /\ malloc_is_naturally_aligned 131072 131072 = false /\
  overalloc_size 100 4096 = 4195 /\ overalloc_size 4 64 = 79 /\ aligned_adjust 65552 4096 8 = 4072.
Proof. vm_compute. repeat split; reflexivity. Qed.
