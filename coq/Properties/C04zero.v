(* Property C04, zero-KNOWLEDGE layer -- the allocator's beliefs about zero memory are true.
   Only statements, each closed by `exact <lemma>`, Print Assumptions, and examples.

   Properties/C04.v proves the API contract over a model that clears unconditionally.  This file is about what that
   model abstracts: page->free_is_zero, page->is_zero_init, segment->memid.initially_zero, the arena's blocks_dirty
   bitmap and the `is_zero` answers of the OS layer (Model/Zero.v: the flags as the code maintains them, plus a GHOST
   memory that records what really is zero; every decision of the OS, of the bitmap search and of the program is an
   oracle argument of the operations).

     know_inv st  :=  in every arena that was zero initially, a block whose blocks_dirty bit is clear is zero;
                      memory handed out with memid.initially_zero is zero until its holder stores into it;
                      in a segment with memid.initially_zero every slice that was never part of a page is zero, the
                      header that mi_segment_alloc did not clear was zero, no slice entry has is_zero_init set;
                      in a page with free_is_zero every block of the free list is zero behind its link word, and
                      (is_zero_init) the part of the page area never handed to the free list is zero.
     span_sound v :=  what mi_segment_span_allocate puts into page->is_zero_init is confirmed by the ghost
                      (Pinned: the tree as it is; FreshSpan: initially_zero && the span was never used).

   In the pinned tree both page flags are constant false (C04_page_flags_constant_false): the page clauses of the
   composed invariant are then vacuous, which is why the page-level statements below (page_know) are about ARBITRARY
   flag values -- the function-level harness runs the real functions on pages whose flags are set -- and why the
   FreshSpan variant, where the flags do get set, is proved too. *)
From Coq Require Import NArith List Bool.
From MiV Require Import Gen.Consts Model.Arith Model.Page Model.Zero Proofs.PageProofs Proofs.ZeroProofs.
Import ListNotations.
Local Open Scope N_scope.

(* ---- the invariant holds initially and is preserved by EVERY operation under ALL oracle answers ---- *)
Theorem C04_know_implies_zero_init : know_inv init.
Proof. exact know_init. Qed.
Print Assumptions C04_know_implies_zero_init.

Theorem C04_know_implies_zero_step : forall v st o st' r,
  span_sound v -> know_inv st -> step v st o = Some (st', r) -> know_inv st'.
Proof. exact know_step. Qed.
Print Assumptions C04_know_implies_zero_step.

(* every reachable state of the pinned tree: all operation sequences, all oracles *)
Theorem C04_know_implies_zero : forall ops st, run Pinned init ops = Some st -> know_inv st.
Proof. exact know_reachable_pinned. Qed.
Print Assumptions C04_know_implies_zero.

(* ... and of the variant in which never-used spans of initially zero segments DO get is_zero_init *)
Theorem C04_know_implies_zero_fresh_span : forall ops st, run FreshSpan init ops = Some st -> know_inv st.
Proof. exact know_reachable_fresh. Qed.
Print Assumptions C04_know_implies_zero_fresh_span.

(* ---- a zeroing allocation returns a block whose ghost is zero over the WHOLE block ---- *)
Theorem C04_zalloc_really_zero : forall v st pid st' b,
  know_inv st -> step v st (OMalloc pid true) = Some (st', OutBlock b) ->
  exists z', aget pid (st_pages st') = Some z' /\ zp_ghost z' b = bg_zero /\ bg_all (zp_ghost z' b) = true.
Proof. exact zalloc_really_zero. Qed.
Print Assumptions C04_zalloc_really_zero.

(* page level, for arbitrary flag values: whatever page satisfies the page clauses *)
Theorem C04_page_zalloc_zero : forall z b z', page_know z -> zp_malloc z true = Some (b, z') -> zp_ghost z' b = bg_zero.
Proof. exact zp_zalloc_zero. Qed.
Print Assumptions C04_page_zalloc_zero.

(* branch 1 (alloc.c:68, free_is_zero set): only the link word is stored; the rest is zero BECAUSE of the invariant *)
Theorem C04_zalloc_flag_branch : forall z b z',
  zp_malloc z true = Some (b, z') -> zp_huge z = false -> free_is_zero (zp_page z) = true ->
  In b (free (zp_page z)) /\ zp_ghost z' b = mkBg true (g_rest (zp_ghost z b)).
Proof. exact zp_malloc_flag_branch. Qed.
Print Assumptions C04_zalloc_flag_branch.

(* branch 2 (alloc.c:72 memzero; page.c:1032 for huge pages): zero whatever was there *)
Theorem C04_zalloc_memzero_branch : forall z b z',
  zp_malloc z true = Some (b, z') -> zp_huge z = true \/ free_is_zero (zp_page z) = false -> zp_ghost z' b = bg_zero.
Proof. exact zp_malloc_memzero_branch. Qed.
Print Assumptions C04_zalloc_memzero_branch.

(* every page operation preserves the page clauses (flags set or not) *)
Theorem C04_page_ops_preserve : forall z,
  page_know z ->
  page_know (zp_extend z) /\ (forall f, page_know (zp_collect z f)) /\
  (forall zero b z', zp_malloc z zero = Some (b, z') -> page_know z') /\
  (forall b z', zp_free_local z b = Some z' -> page_know z') /\
  (forall b z', zp_remote_free z b = Some z' -> page_know z') /\
  (forall b w0 rest z', zp_write z b w0 rest = Some z' -> page_know z').
Proof. exact page_ops_preserve. Qed.
Print Assumptions C04_page_ops_preserve.

(* ---- a freed block is dirty and is not trusted again ---- *)
Theorem C04_dirty_after_free : forall z b z', zp_free_local z b = Some z' ->
  g_w0 (zp_ghost z' b) = false /\ g_rest (zp_ghost z' b) = g_rest (zp_ghost z b) /\ In b (local_free (zp_page z')).
Proof. exact free_marks_dirty. Qed.
Print Assumptions C04_dirty_after_free.

Theorem C04_dirty_after_write : forall z b w0 rest z', zp_write z b w0 rest = Some z' ->
  (w0 = true -> g_w0 (zp_ghost z' b) = false) /\ (rest = true -> g_rest (zp_ghost z' b) = false).
Proof. exact write_marks_dirty. Qed.
Print Assumptions C04_dirty_after_write.

(* whenever _mi_page_free_collect moves freed blocks to the free list the page stops claiming free_is_zero *)
Theorem C04_collect_drops_knowledge : forall p f, page_Inv p ->
  local_free p ++ thread_free p <> [] -> (free p = [] \/ f = true) ->
  free_is_zero (fst (page_free_collect p f)) = false.
Proof. exact collect_moved_clears. Qed.
Print Assumptions C04_collect_drops_knowledge.

Theorem C04_dirty_block_not_trusted : forall st pid z b,
  know_inv st -> aget pid (st_pages st) = Some z -> In b (free (zp_page z)) -> g_rest (zp_ghost z b) = false ->
  free_is_zero (zp_page z) = false.
Proof. exact dirty_block_not_trusted. Qed.
Print Assumptions C04_dirty_block_not_trusted.

(* the operations inside a page never SET a flag *)
Theorem C04_flags_only_cleared : forall v st pid o st' r z z',
  (match o with OMalloc p _ | OExtend p | OCollect p _ | OFree p _ | ORemoteFree p _ | OWrite p _ _ _ => p = pid | _ => False end) ->
  step v st o = Some (st', r) -> aget pid (st_pages st) = Some z -> aget pid (st_pages st') = Some z' ->
  is_zero_init (zp_page z') = is_zero_init (zp_page z) /\ (free_is_zero (zp_page z') = true -> free_is_zero (zp_page z) = true).
Proof. exact flags_only_cleared. Qed.
Print Assumptions C04_flags_only_cleared.

(* ---- the arena: memid.initially_zero of a claim is true of the memory that is returned ---- *)
Theorem C04_arena_claim_zero : forall ai a b0 n commit cok cz m gz a',
  arena_know a -> arena_try_alloc_at ai a b0 n commit cok cz = Some (m, gz, a') ->
  arena_know a' /\ (m_zero m = true -> gz = true).
Proof. exact arena_alloc_know. Qed.
Print Assumptions C04_arena_claim_zero.

(* ---- consumers of memid.initially_zero ---- *)
(* segment.c:919 skips the memzero of the segment header only over memory that is zero *)
Theorem C04_segment_header_really_zero : forall ops st sid s,
  run Pinned init ops = Some st -> aget sid (st_segs st) = Some s -> sg_hdr_zero s = true.
Proof. exact segment_header_really_zero_pinned. Qed.
Print Assumptions C04_segment_header_really_zero.

Theorem C04_raw_zero_until_written : forall ops st rid r,
  run Pinned init ops = Some st -> aget rid (st_raws st) = Some r ->
  m_zero (rw_memid r) = true -> rw_fresh r = true -> rw_ghost r = true.
Proof. exact raw_zero_until_written_pinned. Qed.
Print Assumptions C04_raw_zero_until_written.

(* ---- the pinned tree never sets a page flag (what the replay of harness/f_zero.c checks on every dumped page) ---- *)
Theorem C04_page_flags_constant_false : forall ops st pid z,
  run Pinned init ops = Some st -> aget pid (st_pages st) = Some z ->
  is_zero_init (zp_page z) = false /\ free_is_zero (zp_page z) = false.
Proof. exact page_flags_constant_false. Qed.
Print Assumptions C04_page_flags_constant_false.

(* ---- the boolean form evaluated by the replay driver is complete: know_b = false refutes the invariant ---- *)
Theorem C04_know_b_complete : forall st, know_inv st -> know_b st = true.
Proof. exact know_b_complete. Qed.
Print Assumptions C04_know_b_complete.

(* ---- the seeded change C04c (mi_segment_span_allocate: page->is_zero_init = segment->memid.initially_zero):
   a span that is re-used inside a live, initially zero segment breaks the invariant, and the next zeroing
   allocation returns a block whose ghost is NOT zero (witness ZeroProofs.c04c_ops = seeded/C04c/README) ---- *)
Theorem C04_seedC04c_refuted : exists ops st, run SeedC04c init ops = Some st /\ ~ know_inv st.
Proof. exact c04c_breaks_invariant. Qed.
Print Assumptions C04_seedC04c_refuted.

Theorem C04_seedC04c_zalloc_refuted : exists ops st st' pid b,
  run SeedC04c init ops = Some st /\ step SeedC04c st (OMalloc pid true) = Some (st', OutBlock b) /\
  zalloc_ghost_zero st' pid b = false.
Proof. exact c04c_zalloc_not_zero. Qed.
Print Assumptions C04_seedC04c_zalloc_refuted.

(* ---- examples (vm_compute) ---- *)
(* the witness sequence: (invariant before the zeroing allocation, returned block zero) per variant *)
Example C04_ex_c04c_seed : outcome SeedC04c c04c_ops 103 = Some (false, false).
Proof. exact c04c_outcome_seed. Qed.
Example C04_ex_c04c_pinned : outcome Pinned c04c_ops 103 = Some (true, true).
Proof. exact c04c_outcome_pinned. Qed.
Example C04_ex_c04c_fresh_span : outcome FreshSpan c04c_ops 103 = Some (true, true).
Proof. exact c04c_outcome_fresh. Qed.
(* non-vacuity: under FreshSpan the first page of an initially zero segment HAS is_zero_init = free_is_zero = true,
   the invariant holds and the zalloc through `block->next = 0` returns a zero block *)
Example C04_ex_flags_set : fresh_outcome = Some (true, true, true, true).
Proof. exact fresh_outcome_val. Qed.
(* arena: a re-claimed block is not initially zero (also after a purge the kernel answered with zero pages),
   never-used blocks are; the invariant holds *)
Example C04_ex_arena_dirty : arena_outcome = Some (false, true, true).
Proof. exact arena_outcome_val. Qed.
