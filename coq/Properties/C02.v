(* Property C02 -- no double hand-out or corruption under concurrent alloc and cross-thread free.
   Model: Model/TFree.v (interleaving semantics of mi_free_block_delayed_mt, _mi_page_try_use_delayed_free,
   _mi_page_thread_free_collect, _mi_heap_delayed_free_partial, malloc/free, heap collect/delete; one transition
   per atomic access, spurious weak-CAS failure is a choice, any number of threads, any number of steps).
   This file contains only statements, each closed by `exact <lemma>`, Print Assumptions, and Examples
   (concrete reachable states, by vm_compute) showing that the interesting protocol states do occur. *)
From Coq Require Import NArith List Bool Permutation.
From MiV Require Import Model.TFree Proofs.TFreeBase Proofs.TFreeInv Proofs.TFreeStep5 Proofs.TFreeProofs Proofs.TFreeCheck Proofs.TFreeComplete.
Import ListNotations.
Local Open Scope N_scope.

(* every block is in exactly one place: the list of all places (held by a program, free, local_free, page
   thread list, heap delayed list, owner's pending list, in the hand of a thread inside a free) has no
   duplicates, and restricted to one page it is a permutation of [0, capacity) *)
Theorem tfree_places_unique : forall s, reachable s -> exists c, s = Ok c /\
  NoDup (all_blocks c)
  /\ forall p, Permutation (filter (onp p) (all_blocks c)) (mkblocks p 0 (N.to_nat (pg_cap (getp c p)))).
Proof. exact tfree_places_unique_P. Qed.
Print Assumptions tfree_places_unique.

(* Error is unreachable: ownership-level data-race freedom (every non-atomic access is by the holder of the
   block / the owner of the page), no access to a freed page or heap, no block or delayed list is dropped *)
Theorem tfree_no_error : forall s, reachable s -> forall e, s <> Err e.
Proof. exact tfree_no_error_P. Qed.
Print Assumptions tfree_no_error.
Theorem tfree_no_error_next : forall s, reachable s -> forall t ch e, tstep s t ch <> Some (Err e).
Proof. exact tfree_no_error_step. Qed.
Print Assumptions tfree_no_error_next.

(* used = |live| + |thread list| + |delayed| + |pending| + |in flight|, per page *)
Theorem tfree_used_count : forall s, reachable s -> exists c, s = Ok c /\ forall p,
  pg_used (getp c p) = N.of_nat (live_count c p + tf_count c p + del_count c p + pend_count c p + hand_count c p).
Proof. exact tfree_used_count_P. Qed.
Print Assumptions tfree_used_count.

(* flag DELAYED_FREEING <-> exactly one thread is between its first successful CAS on the page and its last *)
Theorem tfree_freeing_exclusive : forall s, reachable s -> exists c, s = Ok c /\ forall p,
  (pg_flag (getp c p) = Freeing ->
     exists t, in_window c t p = true /\ sum_fr (win_fr p) (th_stk (gett c t)) = 1%nat
               /\ forall t', in_window c t' p = true -> t' = t)
  /\ (forall t, in_window c t p = true -> pg_flag (getp c p) = Freeing).
Proof. exact tfree_freeing_exclusive_P. Qed.
Print Assumptions tfree_freeing_exclusive.

(* an owner malloc returns a block that nobody holds (it was on the free list of a page the thread owns and in
   no other place); afterwards its only place is the allocating program, so it cannot be handed out again
   before it is freed again; a block is held by at most one thread; and no transition writes into a block
   held by a program (except mi_free(b) itself, whose first step is the program giving b up) *)
Theorem C02_no_double_handout : forall s, reachable s -> exists c, s = Ok c /\
  (forall t p c' ev, cstep c t (COp (OpPop p)) = ROk c' ev ->
     exists b, hdo (pg_free (getp c p)) = Some b /\ own (getp c p) t = true
               /\ th_held (gett c' t) = b :: th_held (gett c t)
               /\ mW c (bid_eqb b) = 0%nat /\ (forall u, ~ In b (th_held (gett c u)))
               /\ mW c' (bid_eqb b) = 1%nat /\ mF c' (bid_eqb b) = 0%nat)
  /\ (forall b t u, In b (th_held (gett c t)) -> In b (th_held (gett c u)) -> u = t)
  /\ (forall t ch c' ev, cstep c t ch = ROk c' ev -> forall b, In b (step_writes c t ch) ->
        forall u, In b (th_held (gett c u)) -> exists k, ch = COp (OpFree b k) /\ u = t).
Proof. exact C02_no_double_handout_P. Qed.
Print Assumptions C02_no_double_handout.

(* the boolean checker that the correspondence checks evaluate on states of the real allocator (schedule-
   lockstep replay) is sound: a state that passes inv_b satisfies the whole inductive invariant, from which
   all the statements above follow for that state *)
Theorem tfree_inv_b_sound : forall c, inv_b c = true -> Inv c /\ InvT c.
Proof. exact inv_b_sound. Qed.
Print Assumptions tfree_inv_b_sound.

(* ... and complete: every configuration that satisfies the invariant passes it, so the checker accepts every reachable
   state (it cannot raise a false alarm on a state of the protocol) and rejects exactly the states outside the invariant *)
Theorem tfree_inv_b_complete : forall c, Inv c -> InvT c -> inv_b c = true.
Proof. exact inv_b_complete. Qed.
Print Assumptions tfree_inv_b_complete.

(* ---- the theorems are not vacuous: concrete schedules reach the interesting states ---- *)
Definition b00 : bid := (0, 0).
Definition b01 : bid := (0, 1).
(* owner 0: heap 0, page 0 with two blocks, both allocated, page moved to the full queue, blocks handed to thread 1 *)
Definition sched_setup : list (N * choice) :=
  [ (0, COp (OpHeapNew 0)); (0, COp (OpFresh 0 0 2 2)); (0, COp (OpPop 0)); (0, COp (OpPop 0));
    (0, COp (OpToFull 0)); (0, CGo); (0, CGo);
    (0, COp (OpGive b00 1)); (0, COp (OpGive b01 1)) ].
(* thread 1 frees block 0: load, one spurious weak-CAS failure, then the CAS to DELAYED_FREEING *)
Definition sched_freeing : list (N * choice) :=
  sched_setup ++ [ (1, COp (OpFree b00 false)); (1, CGo); (1, CAlt); (1, CGo) ].
(* ... reads the heap, pushes on the heap's delayed list, and resets the flag to NO_DELAYED_FREE *)
Definition sched_nodelayed : list (N * choice) :=
  sched_freeing ++ [ (1, CGo); (1, CGo); (1, CGo); (1, CGo); (1, CGo) ].
(* thread 1 then frees block 1 directly onto the page's thread list *)
Definition sched_second : list (N * choice) :=
  sched_nodelayed ++ [ (1, COp (OpFree b01 false)); (1, CGo); (1, CGo) ].

(* Examples are closed boolean computations (nothing is computed under a binder) *)
Definition after (sched : list (N * choice)) (f : cfg -> bool) : bool :=
  match run init sched with Some (Ok c) => f c | _ => false end.
Definition beq_bl (a b : list bid) : bool := Nat.eqb (length a) (length b) && forallb (fun x => mem_bid x b) a.

(* flag DELAYED_FREEING occurs, on a page that is in the full queue (its first remote free), thread 1 is in the window *)
Example ex_freeing_full_page :
  after sched_freeing (fun c => flag_eqb (pg_flag (getp c 0)) Freeing && pg_full (getp c 0) && in_window c 1 0 && inv_b c) = true.
Proof. vm_compute. reflexivity. Qed.

(* the third step of thread 1 in that schedule is a spurious failure of the weak CAS (the word had not changed) *)
Example ex_spurious_cas_failure :
  after (sched_setup ++ [(1, COp (OpFree b00 false)); (1, CGo)])
        (fun c => match tlog (Ok c) 1 CAlt, tlog (Ok c) 1 CGo with
                  | Some (mkEv EvCasFail (LTF 0) (AvTF UseD []) (AvTF UseD [])),
                    Some (mkEv EvCasOk (LTF 0) (AvTF UseD []) (AvTF Freeing [])) => true
                  | _, _ => false end) = true.
Proof. vm_compute. reflexivity. Qed.

Example ex_no_delayed :
  after sched_nodelayed (fun c => flag_eqb (pg_flag (getp c 0)) NoD && beq_bl (hp_del (geth c 0)) [b00]
                                  && isnil (th_stk (gett c 1)) && inv_b c) = true.
Proof. vm_compute. reflexivity. Qed.

Example ex_direct_push :
  after sched_second (fun c => flag_eqb (pg_flag (getp c 0)) NoD && beq_bl (pg_tf (getp c 0)) [b01]
                               && (pg_used (getp c 0) =? 2) && inv_b c) = true.
Proof. vm_compute. reflexivity. Qed.

Example ex_reachable : forall c, run init sched_second = Some (Ok c) -> reachable (Ok c).
Proof. intros c H. exact (run_reachable init sched_second (Ok c) reach_init H). Qed.
