(* Property C14 -- concurrent arena claims are disjoint and leave nothing reserved behind.
   Only statements, each closed by `exact <lemma>`, and Print Assumptions; Examples by vm_compute.

   Model: coq/Model/Bitmap.v (src/bitmap.c, bitmap.h as used for `blocks_inuse` in src/arena.c).
   `reachable pre progs s`: s is reachable from the bitmap `pre` by ANY schedule of ANY number of
   threads running ANY programs of OpClaim / OpFree / OpPurge, one transition per atomic access.
   Ownership of the flat bit p:  pre-claimed (bm_bit pre p), a completed claim in the ghost pool
   (pool_cnt), or the partial claim of a thread inside an operation (thr_cnt, from `held (t_pc th)`). *)
From Coq Require Import NArith PeanoNat List Bool.
From MiV Require Import Gen.Consts Model.Arith Model.Bitmap Proofs.Base Proofs.BitmapProofs Proofs.BitmapSeq Proofs.BitmapSweeps.
Import ListNotations.
Local Open Scope N_scope.

(* ------------------------------ interleaving theorems ------------------------------------------ *)

(* the invariant (DESIGN.md Appendix A.5) holds in every reachable state *)
Theorem C14_reachable_inv : forall pre progs s, bm_ok pre -> reachable pre progs s -> Inv pre s.
Proof. exact reachable_inv. Qed.
Print Assumptions C14_reachable_inv.

(* bitmap_is_union: every bit is set iff it has an owner, and it never has two: the bitmap is the
   DISJOINT union of the pre-claimed bits, the completed claims and the partial claims in progress *)
Theorem C14_bitmap_is_union : forall pre progs s, bm_ok pre -> reachable pre progs s ->
  length (s_bm s) = length pre /\ bm_ok (s_bm s) /\
  forall p, p < 64 * nfields pre ->
    Nat.b2n (bm_bit (s_bm s) p) =
    (Nat.b2n (bm_bit pre p) + pool_cnt (s_pool s) p + thr_cnt (s_thr s) p)%nat.
Proof. exact bitmap_is_union. Qed.
Print Assumptions C14_bitmap_is_union.

Theorem C14_bit_set_iff_owned : forall pre progs s p, bm_ok pre -> reachable pre progs s -> p < 64 * nfields pre ->
  (bm_bit (s_bm s) p = true <->
   bm_bit pre p = true \/
   (exists k c, nth_error (s_pool s) k = Some c /\ in_rng (claim_rng (snd c)) p = true) \/
   (exists t th, nth_error (s_thr s) t = Some th /\ in_rng (held (t_pc th)) p = true)).
Proof. exact bit_set_iff_owned. Qed.
Print Assumptions C14_bit_set_iff_owned.

(* claims_disjoint_in_range: a completed claim is non-empty, inside the bitmap, all its bits are set,
   none is pre-claimed, none belongs to another completed claim (of any thread) or to a partial claim *)
Theorem C14_claims_disjoint_in_range : forall pre progs s k1 c1, bm_ok pre -> reachable pre progs s ->
  nth_error (s_pool s) k1 = Some c1 ->
  let '(start, count) := snd c1 in
  1 <= count /\ start + count <= 64 * nfields pre /\
  (forall p, start <= p < start + count ->
     bm_bit (s_bm s) p = true /\ bm_bit pre p = false /\
     (forall k2 c2, k2 <> k1 -> nth_error (s_pool s) k2 = Some c2 -> in_rng (claim_rng (snd c2)) p = false) /\
     (forall t th, nth_error (s_thr s) t = Some th -> in_rng (held (t_pc th)) p = false)).
Proof. exact claims_disjoint_in_range. Qed.
Print Assumptions C14_claims_disjoint_in_range.

(* rollback_leaves_nothing: in the step in which a find-and-claim of thread t returns false the thread
   becomes idle, no claim is recorded, the thread holds no bit, and every set bit belongs to the
   pre-claimed bits, a completed claim or the partial claim of ANOTHER thread *)
Theorem C14_rollback_leaves_nothing : forall pre progs s t s' a th th',
  bm_ok pre -> reachable pre progs s -> stepx s t = Some (s', a) ->
  nth_error (s_thr s) t = Some th -> nth_error (s_thr s') t = Some th' ->
  t_res th' = GClaimFailed :: t_res th ->
  t_pc th' = Idle /\ s_pool s' = s_pool s /\
  forall p, p < 64 * nfields pre ->
    in_rng (held (t_pc th')) p = false /\
    (bm_bit (s_bm s') p = true ->
       bm_bit pre p = true \/
       (exists k c, nth_error (s_pool s) k = Some c /\ in_rng (claim_rng (snd c)) p = true) \/
       (exists t2 th2, t2 <> t /\ nth_error (s_thr s') t2 = Some th2 /\ in_rng (held (t_pc th2)) p = true)).
Proof. exact rollback_leaves_nothing. Qed.
Print Assumptions C14_rollback_leaves_nothing.

(* purge_claim_exclusive: the bits the purger holds between its _mi_bitmap_try_claim and its
   _mi_bitmap_unclaim are set, not pre-claimed, in no completed claim and held by no other thread *)
Theorem C14_purge_claim_exclusive : forall pre progs s t th bi len, bm_ok pre -> reachable pre progs s ->
  nth_error (s_thr s) t = Some th -> t_pc th = PUnclaim bi len ->
  bi + len <= 64 * nfields pre /\
  forall p, bi <= p < bi + len ->
    bm_bit (s_bm s) p = true /\ bm_bit pre p = false /\ pool_cnt (s_pool s) p = 0%nat /\
    (forall t' th', t' <> t -> nth_error (s_thr s) t' = Some th' -> in_rng (held (t_pc th')) p = false).
Proof. exact purge_claim_exclusive. Qed.
Print Assumptions C14_purge_claim_exclusive.

(* quiescence: when all threads are between operations the bitmap consists of the pre-claimed bits
   and the completed claims; when moreover every claim has been freed it is the initial bitmap *)
Theorem C14_quiescent_bitmap : forall pre progs s, bm_ok pre -> reachable pre progs s ->
  (forall th, In th (s_thr s) -> t_pc th = Idle) ->
  forall p, p < 64 * nfields pre ->
    Nat.b2n (bm_bit (s_bm s) p) = (Nat.b2n (bm_bit pre p) + pool_cnt (s_pool s) p)%nat.
Proof. exact quiescent_bitmap. Qed.
Print Assumptions C14_quiescent_bitmap.

Theorem C14_all_freed_restores : forall pre progs s, bm_ok pre -> reachable pre progs s ->
  (forall th, In th (s_thr s) -> t_pc th = Idle) -> s_pool s = [] -> s_bm s = pre.
Proof. exact all_freed_restores. Qed.
Print Assumptions C14_all_freed_restores.

(* the boolean invariant evaluated by the replay driver is the invariant *)
Theorem C14_inv_b_sound : forall pre s, inv_b pre s = true -> Inv pre s.
Proof. exact inv_b_sound. Qed.
Print Assumptions C14_inv_b_sound.
Theorem C14_inv_b_complete : forall pre s, Inv pre s -> inv_b pre s = true.
Proof. exact inv_b_complete. Qed.
Print Assumptions C14_inv_b_complete.

(* ------------------------------ sequential specifications -------------------------------------- *)

(* a successful _mi_bitmap_try_find_from_claim_across: exactly the `count` bits from the returned
   index were 0 and are 1 now, nothing else changed, the range lies inside fields*64 *)
Theorem C14_claim_success : forall bm fields start count x bm',
  bm_ok bm -> nfields bm = fields -> 1 <= count -> count + 64 < W64 ->
  try_find_from_claim_across bm fields start count = (Some x, bm') ->
  x + count <= 64 * fields /\ length bm' = length bm /\ bm_ok bm' /\
  forall p, p < 64 * fields ->
    bm_bit bm' p = bm_bit bm p || in_rng (x, x + count) p /\
    (in_rng (x, x + count) p = true -> bm_bit bm p = false).
Proof. exact claim_across_success. Qed.
Print Assumptions C14_claim_success.

(* a failing call leaves the bitmap unchanged *)
Theorem C14_claim_failure : forall bm fields start count bm',
  bm_ok bm -> nfields bm = fields -> 1 <= count -> count + 64 < W64 ->
  try_find_from_claim_across bm fields start count = (None, bm') -> bm' = bm.
Proof. exact claim_across_failure. Qed.
Print Assumptions C14_claim_failure.

(* free_all_restores: unclaiming a successful claim gives back exactly the previous bitmap and reports
   that all bits were set *)
Theorem C14_free_all_restores : forall bm fields start count x bm',
  bm_ok bm -> nfields bm = fields -> 1 <= count -> count + 64 < W64 ->
  try_find_from_claim_across bm fields start count = (Some x, bm') ->
  unclaim_across bm' fields count x = (true, bm).
Proof. exact free_all_restores. Qed.
Print Assumptions C14_free_all_restores.

(* unit_claims_fill: on any bitmap exactly (number of zero bits) successive one-bit claims succeed,
   then every field is full and the next claim fails: every free bit can be claimed *)
Theorem C14_unit_claims_fill : forall n bm fields start,
  bm_ok bm -> nfields bm = fields -> zero_bits bm = N.of_nat n ->
  exists bm', claim_times n bm fields start 1 = Some bm' /\ bm_ok bm' /\ nfields bm' = fields /\
              (forall i, i < fields -> getf bm' i = FULL) /\
              try_find_from_claim_across bm' fields start 1 = (None, bm').
Proof. exact unit_claims_fill. Qed.
Print Assumptions C14_unit_claims_fill.

(* the in-use bitmap made by mi_manage_os_memory_ex2 for `bcount` blocks: bit p is set iff p >= bcount *)
Theorem C14_arena_init : forall bcount, 1 <= bcount -> bcount + 64 < W64 ->
  let fields := arena_fields bcount in
  fields = (bcount + 63) / 64 /\ nfields (arena_init bcount) = fields /\ bm_ok (arena_init bcount) /\
  forall i b, i < fields -> b < 64 -> N.testbit (getf (arena_init bcount) i) b = (bcount <=? 64 * i + b).
Proof. exact arena_init_spec. Qed.
Print Assumptions C14_arena_init.

(* unit_claims_fill_arena: a completely free arena of bcount blocks is handed out completely by exactly
   bcount one-block claims *)
Theorem C14_unit_claims_fill_arena : forall bcount start, 1 <= bcount -> bcount + 64 < W64 ->
  exists bm', claim_times (N.to_nat bcount) (arena_init bcount) (arena_fields bcount) start 1 = Some bm' /\
              (forall i, i < arena_fields bcount -> getf bm' i = FULL) /\
              try_find_from_claim_across bm' (arena_fields bcount) start 1 = (None, bm').
Proof. exact unit_claims_fill_arena. Qed.
Print Assumptions C14_unit_claims_fill_arena.

(* count <= 2: the claim never crosses a field boundary and succeeds EXACTLY when some field contains
   `count` contiguous zero bits (free_at map count b: bits b..b+count-1 of the field are 0) *)
Theorem C14_small_claim_complete : forall bm fields start count,
  bm_ok bm -> nfields bm = fields -> 1 <= count -> count <= 2 ->
  (exists x bm', try_find_from_claim_across bm fields start count = (Some x, bm')) <->
  (exists i b, i < fields /\ free_at (getf bm i) count b).
Proof. exact small_claim_complete. Qed.
Print Assumptions C14_small_claim_complete.

(* count > 2: no claim starts in, or is satisfied inside, a field whose top bit is set; if every field
   has its top bit set the call fails whatever else is free *)
Theorem C14_multiblock_top_bit : forall bm fields start count,
  bm_ok bm -> 2 < count -> (forall i, i < fields -> N.testbit (getf bm i) 63 = true) ->
  try_find_from_claim_across bm fields start count = (None, bm).
Proof. exact multiblock_top_bit. Qed.
Print Assumptions C14_multiblock_top_bit.

(* ---- "After everything has been freed the arena can again be allocated completely" ----
   After everything has been freed the bitmap is the initial one (C14_all_freed_restores), i.e.
   arena_init bcount.  Full strength: every request that fits into the arena then succeeds. *)
Definition C14_full_realloc_after_free : Prop :=
  forall bcount start count, 1 <= count -> count <= bcount -> bcount + 64 < W64 ->
    exists x bm', try_find_from_claim_across (arena_init bcount) (arena_fields bcount) start count = (Some x, bm').

(* proved for requests of at most 2 blocks (segment-sized and 2-block requests) ... *)
Theorem C14_realloc_after_free_partial :
  forall bcount start count, 1 <= count -> count <= 2 -> count <= bcount -> bcount + 64 < W64 ->
    exists x bm', try_find_from_claim_across (arena_init bcount) (arena_fields bcount) start count = (Some x, bm').
Proof. exact small_claim_free_arena. Qed.
Print Assumptions C14_realloc_after_free_partial.

(* ... and refuted for multi-block requests by the unchanged code: a default-shaped arena of 32 blocks
   (one field, bits 32..63 pre-claimed), all 32 blocks free, cannot serve a request of 3 blocks
   (known finding `multiblock-top-bit`; the witness is replayed on the real library by the check) *)
Theorem C14_multiblock_top_bit_refuted :
  exists bm fields count,
    bm = arena_init 32 /\ fields = arena_fields 32 /\ count = 3 /\ bm = [18446744069414584320] /\
    zero_run_at bm 0 count = true /\ zero_bits bm = 32 /\
    try_find_from_claim_across bm fields 0 count = (None, bm).
Proof.
  exists (arena_init 32), (arena_fields 32), 3.
  destruct multiblock_witness as (H1 & H2 & H3 & H4 & H5 & _).
  repeat split; try assumption.
Qed.
Print Assumptions C14_multiblock_top_bit_refuted.

(* ------------------------------ non-vacuity ---------------------------------------------------- *)

(* a reachable state in the middle of a rollback (thread 0 at `store_release(field, 0)`), with a
   completed claim of thread 1 in the pool; the invariant holds there *)
Example C14_ex_rollback_state :
  reachable ex_pre ex_progs ex_state /\
  (inv_b ex_pre ex_state = true /\
   s_pool ex_state = [(1%nat, (128, 3))] /\
   s_bm ex_state = [FULL; FULL; 7; 0] /\
   match map t_pc (s_thr ex_state) with
   | [ARollStore l 1; Idle] => held (ARollStore l 1) = (62, 128)
   | _ => False
   end).
Proof. split; [apply run_schedule_reachable, reach_init|exact ex_rollback_state]. Qed.

Example C14_ex_after_rollback :
  let s := run_schedule (init_state ex_pre ex_progs) ex_sched2 in
  finished s = true /\ inv_b ex_pre s = true /\
  map t_res (s_thr s) = [[GClaimFailed]; [GClaimed 128 3]] /\ s_bm s = [N.ones 62; 0; 7; 0].
Proof. exact ex_after_rollback. Qed.

Example C14_ex_sequential :
  try_find_from_claim_across [N.ones 62; 0] 2 0 5 = (Some 62, [FULL; 7]) /\
  unclaim_across [FULL; 7] 2 5 62 = (true, [N.ones 62; 0]) /\
  arena_init 70 = [0; 18446744073709551552] /\ zero_bits (arena_init 70) = 70.
Proof. vm_compute. repeat split. Qed.

Example C14_ex_multiblock_70 :
  match claim_times 22 (arena_init 70) 2 0 3 with
  | Some bm => zero_run_at bm 66 4 = true /\ try_find_from_claim_across bm 2 0 3 = (None, bm)
  | None => False
  end.
Proof. exact multiblock_witness_70. Qed.
