(* Property C10, concurrent clause -- deleting / collecting a heap is safe while other threads free into it.
   Model: Model/TFree.v extended with mi_heap_delete = mi_heap_absorb (xheap store of _mi_page_queue_append,
   the _mi_page_use_delayed_free spin, _mi_heap_delayed_free_all(from)) + mi_heap_free.
   (The sequential clauses of C10 are in Properties/C10.v, owned by the coordinator.) *)
From Coq Require Import NArith List Bool.
From MiV Require Import Model.TFree Proofs.TFreeBase Proofs.TFreeInv Proofs.TFreeStep5 Proofs.TFreeProofs.
Import ListNotations.
Local Open Scope N_scope.

(* no thread ever pushes on / reads the keys of a heap that has been freed: the step never yields the error
   E_DEAD_HEAP, and in every reachable state every frame that is about to access a heap (RF4/RF5 of a remote
   free, the drain frames, collect and delete frames) refers to a heap that is alive.  (Also no delayed block
   is left behind when the heap structure is freed: E_LOST_DELAYED is covered by C02.tfree_no_error.) *)
Theorem absorb_no_dangling_heap : forall s, reachable s ->
  (forall t ch, tstep s t ch <> Some (Err E_DEAD_HEAP))
  /\ exists c, s = Ok c /\ forall t f h, In f (th_stk (gett c t)) -> In h (fr_heap f) -> hp_alive (geth c h) = true.
Proof. exact absorb_no_dangling_heap_P. Qed.
Print Assumptions absorb_no_dangling_heap.

(* ---- Example: a remote free is inside the DELAYED_FREEING window and has already read the old heap when
   mi_heap_delete stores the new xheap; the delete spins until the push on the old heap's list is done, then
   drains that list, and only then frees the heap ---- *)
Definition b10 : bid := (0, 0).
Definition sched_del : list (N * choice) :=
  [ (0, COp (OpHeapNew 0)); (0, COp (OpHeapNew 1)); (0, COp (OpFresh 0 1 2 2)); (0, COp (OpPop 0));
    (0, COp (OpGive b10 1));
    (1, COp (OpFree b10 false)); (1, CGo); (1, CGo); (1, CGo);          (* window open, xheap = heap 1 read *)
    (0, COp (OpHeapDelete 1)); (0, CGo); (0, CGo); (0, CGo);            (* partial (empty), snapshot, xheap := heap 0 *)
    (0, CGo); (0, CGo) ].                                               (* spinning on DELAYED_FREEING *)

Definition after (sched : list (N * choice)) (f : cfg -> bool) : bool :=
  match run init sched with Some (Ok c) => f c | _ => false end.

Example ex_delete_waits :
  after sched_del (fun c => oN_eqb (pg_heap (getp c 0)) (Some 0) && flag_eqb (pg_flag (getp c 0)) Freeing
                            && match th_stk (gett c 1) with [RF4 b 1] => bid_eqb b b10 | _ => false end
                            && hp_alive (geth c 1) && absorbing (th_stk (gett c 0)) 0 1 && inv_b c) = true.
Proof. vm_compute. reflexivity. Qed.

Example ex_delete_completes :
  after (sched_del ++ [ (1, CGo); (1, CGo); (1, CGo); (1, CGo) ]        (* push on heap 1, flag := NO_DELAYED *)
                   ++ [ (0, CGo); (0, CGo); (0, CGo) ]                   (* spin ends: flag := USE; loop done *)
                   ++ repeat (0, CGo) 12)                                (* drain heap 1, free it *)
        (fun c => negb (hp_alive (geth c 1)) && isnil (hp_del (geth c 1)) && isnil (th_stk (gett c 0))
                  && negb (pg_alive (getp c 0)) && inv_b c) = true.
Proof. vm_compute. reflexivity. Qed.
