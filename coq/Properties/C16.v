(* Property C16 -- size-class and address arithmetic is sound for every size and address.
   This file contains only statements, each closed by `exact <lemma>`, and Print Assumptions. *)
From Coq Require Import NArith List.
From MiV Require Import Gen.Consts Gen.Bins Model.Arith Proofs.Base Proofs.ArithSweeps Proofs.ArithProofs Proofs.BitsProofs Model.Direct Proofs.DirectProofs.
Local Open Scope N_scope.

(* the chosen block size is at least the request; small/medium requests get a proper bin *)
Theorem C16_bin_size_ge : forall s, s <= MI_MEDIUM_OBJ_SIZE_MAX ->
  s <= bin_size (mi_bin s) /\ 1 <= mi_bin s < MI_BIN_HUGE.
Proof. exact bin_size_ge. Qed.
Print Assumptions C16_bin_size_ge.

(* every request size below 2^64-7: either served by a bin that fits, or sent to the huge bin *)
Theorem C16_bin_size_ge_all : forall s, s + 7 < W64 ->
  (s <= MI_MEDIUM_OBJ_SIZE_MAX /\ s <= bin_size (mi_bin s)) \/
  (MI_MEDIUM_OBJ_SIZE_MAX < s /\ mi_bin s = MI_BIN_HUGE).
Proof. exact bin_size_ge_all. Qed.
Print Assumptions C16_bin_size_ge_all.

(* size classes are monotone in the request, for all 64-bit sizes *)
Theorem C16_bin_monotone : forall s1 s2, s1 <= s2 -> s2 + 7 < W64 -> mi_bin s1 <= mi_bin s2.
Proof. exact bin_monotone. Qed.
Print Assumptions C16_bin_monotone.

(* the class chosen is the smallest that fits (above 64 bytes); up to 64 bytes the block size is
   the request rounded up to a multiple of 16 (8 for requests of at most 8 bytes) *)
Theorem C16_bin_tight : forall s, 64 < s -> s <= MI_MEDIUM_OBJ_SIZE_MAX -> bin_size (mi_bin s - 1) < s.
Proof. exact bin_tight. Qed.
Print Assumptions C16_bin_tight.

Theorem C16_bin_small_exact : forall s, s <= 64 ->
  bin_size (mi_bin s) = if s <=? 8 then 8 else ((s + 15) / 16) * 16.
Proof. exact bin_small_exact. Qed.
Print Assumptions C16_bin_small_exact.

(* internal fragmentation at most 25% above 64 bytes *)
Theorem C16_fragmentation_le_25 : forall s, 64 < s -> s <= MI_MEDIUM_OBJ_SIZE_MAX ->
  4 * (bin_size (mi_bin s) - s) <= s.
Proof. exact fragmentation_le_25. Qed.
Print Assumptions C16_fragmentation_le_25.

(* mi_good_size(n) >= n, idempotent, equal to the block (= usable) size for small and medium n *)
Theorem C16_good_size : forall s, s <= 2 * MI_MEDIUM_OBJ_SIZE_MAX ->
  s <= good_size s /\ good_size (good_size s) = good_size s /\
  (s <= MI_MEDIUM_OBJ_SIZE_MAX -> good_size s = bin_size (mi_bin s)).
Proof. exact good_size_small. Qed.
Print Assumptions C16_good_size.

(* span bins: all slice counts 0..MI_SLICES_PER_SEGMENT *)
Theorem C16_slice_bin : forall c, c <= MI_SLICES_PER_SEGMENT ->
  slice_bin8 c <= MI_SEGMENT_BIN_MAX /\ slice_bin8 c <= slice_bin8 (c + 1) /\
  (1 <= c -> c <= span_bin_count (slice_bin8 c)) /\
  (1 < c -> span_bin_count (slice_bin8 c - 1) < c).
Proof. exact slice_bin_spec. Qed.
Print Assumptions C16_slice_bin.

Theorem C16_slice_bin_monotone : forall c1 c2, c1 <= c2 -> c2 <= MI_SLICES_PER_SEGMENT ->
  slice_bin8 c1 <= slice_bin8 c2.
Proof. exact slice_bin_monotone. Qed.
Print Assumptions C16_slice_bin_monotone.

(* the fast division used by the heap walk is exact on its whole domain *)
Theorem C16_fast_divide : forall d n, 0 < d -> d < 2^32 -> n < 2^32 ->
  fast_divide n (fst (fast_divisor d)) (snd (fast_divisor d)) = n / d.
Proof. exact fast_divide_correct. Qed.
Print Assumptions C16_fast_divide.

(* ---- address arithmetic, for every 64-bit address ---- *)

(* interior pointer -> block start, for EVERY block size (shift path or modulo path), every block
   index and every interior offset *)
Theorem C16_unalign_correct : forall page_start bs i off,
  0 < bs -> bs < W64 -> off < bs -> page_start + i * bs + off < W64 ->
  ptr_unalign page_start bs (page_start + i * bs + off) = page_start + i * bs.
Proof. exact unalign_correct. Qed.
Print Assumptions C16_unalign_correct.

Theorem C16_block_size_shift : forall bs, 0 < bs -> bs < W64 ->
  block_size_shift bs <> 0 -> bs = 2 ^ block_size_shift bs.
Proof. exact block_size_shift_spec. Qed.
Print Assumptions C16_block_size_shift.

(* pointer -> segment: every p with seg < p <= seg + MI_SEGMENT_SIZE maps to seg *)
Theorem C16_ptr_segment : forall seg p,
  seg mod MI_SEGMENT_SIZE = 0 -> 0 < seg -> seg + MI_SEGMENT_SIZE < 2^63 ->
  seg < p -> p <= seg + MI_SEGMENT_SIZE -> ptr_segment p = seg.
Proof. exact ptr_segment_spec. Qed.
Print Assumptions C16_ptr_segment.

(* pointer -> slice index (the page is then found through the slice's back-offset, Model/Span.v) *)
Theorem C16_slice_index_of : forall seg idx off,
  seg + idx * MI_SEGMENT_SLICE_SIZE + off < W64 -> off < MI_SEGMENT_SLICE_SIZE ->
  slice_index_of seg (seg + idx * MI_SEGMENT_SLICE_SIZE + off) = idx.
Proof. exact slice_index_of_spec. Qed.
Print Assumptions C16_slice_index_of.

Theorem C16_align_up : forall sz a, 0 < a -> sz + a - 1 < W64 -> a < W64 ->
  sz <= align_up sz a /\ align_up sz a < sz + a /\ align_up sz a mod a = 0.
Proof. exact align_up_props. Qed.
Print Assumptions C16_align_up.

Theorem C16_align_down : forall sz a, 0 < a -> sz < W64 -> a < W64 ->
  align_down sz a <= sz /\ sz < align_down sz a + a /\ align_down sz a mod a = 0.
Proof. exact align_down_props. Qed.
Print Assumptions C16_align_down.

Theorem C16_divide_up : forall s d, 0 < d -> s + d - 1 < W64 ->
  s <= divide_up s d * d /\ divide_up s d * d < s + d.
Proof. exact divide_up_spec. Qed.
Print Assumptions C16_divide_up.

(* the page area lies inside its span: start >= span start, start + page_size = span end *)
Theorem C16_page_start_span : forall seg idx cnt bs,
  seg mod MI_SEGMENT_SIZE = 0 -> seg + MI_SEGMENT_SIZE < W64 -> 0 < cnt ->
  idx + cnt <= MI_SLICES_PER_SEGMENT ->
  fst (page_start_from_slice seg idx cnt bs) + snd (page_start_from_slice seg idx cnt bs)
    = seg + (idx + cnt) * MI_SEGMENT_SLICE_SIZE /\
  fst (page_start_from_slice seg idx cnt bs) <= seg + idx * MI_SEGMENT_SLICE_SIZE + MI_SEGMENT_SLICE_SIZE.
Proof. exact page_start_span_end. Qed.
Print Assumptions C16_page_start_span.

Example C16_ex_unalign : ptr_unalign 4096 48 (4096 + 7 * 48 + 47) = 4096 + 7 * 48
  /\ ptr_unalign 4096 64 (4096 + 7 * 64 + 63) = 4096 + 7 * 64
  /\ ptr_segment (5 * MI_SEGMENT_SIZE + 1) = 5 * MI_SEGMENT_SIZE
  /\ ptr_segment (6 * MI_SEGMENT_SIZE) = 5 * MI_SEGMENT_SIZE.
Proof. vm_compute. repeat split. Qed.

(* ---- the small-size direct table (fast path of mi_malloc) ---- *)

(* mi_heap_queue_first_update re-establishes the direct table law after the first page of a queue changed:
   entry w of pages_free_direct is the first page of queue mi_bin(8*w), for every small word size *)
Theorem C16_direct_table_law : forall direct qf b first,
  used_small_bin b = true -> direct_ok direct qf -> direct_ok (first_update direct b first) (upd qf b first).
Proof. exact first_update_ok. Qed.
Print Assumptions C16_direct_table_law.

(* hence the page the fast path pops from belongs to the queue of the request's class, so that the
   block size -- and mi_usable_size -- is bin_size (mi_bin n) = mi_good_size n *)
Theorem C16_small_fast_path_class : forall direct qf size,
  direct_ok direct qf -> size <= MI_SMALL_SIZE_MAX -> small_page direct size = qf (mi_bin size).
Proof. exact small_fast_path_class. Qed.
Print Assumptions C16_small_fast_path_class.

Example C16_ex_direct : direct_ok_b (first_update direct_empty 4 77) (upd (fun _ => 0) 4 77) = true
  /\ nth 3 (first_update direct_empty 4 77) 0 = 77 /\ nth 4 (first_update direct_empty 4 77) 0 = 77
  /\ nth 5 (first_update direct_empty 4 77) 0 = 0.
Proof. vm_compute. repeat split. Qed.

(* non-vacuity: concrete instances *)
Example C16_ex_bin : mi_bin 1000 = 24 /\ mi_bin 17 = 4 /\ bin_size 24 = 1024 /\ good_size 1000 = 1024 /\ slice_bin8 9 = 8.
Proof. vm_compute. repeat split. Qed.
Example C16_ex_fast_divide : fast_divide 65535 (fst (fast_divisor 48)) (snd (fast_divisor 48)) = 1365.
Proof. vm_compute. reflexivity. Qed.
