(* Property C16 -- size-class and address arithmetic is sound for every size and address.
   This file contains only statements, each closed by `exact <lemma>`, and Print Assumptions. *)
From Coq Require Import NArith List.
From MiV Require Import Gen.Consts Gen.Bins Model.Arith Proofs.Base Proofs.ArithSweeps Proofs.ArithProofs.
Local Open Scope N_scope.

(* the chosen block size is at least the request; small/medium requests get a proper bin *)
Theorem C16_bin_size_ge : forall s, s <= MI_MEDIUM_OBJ_SIZE_MAX ->
  s <= bin_size (mi_bin s) /\ 1 <= mi_bin s < MI_BIN_HUGE.
Proof. exact bin_size_ge. Qed.
Print Assumptions C16_bin_size_ge.

(* every request size below 2^64-7: either served by a bin that fits, or sent to the huge bin *)
Theorem C16_bin_size_ge_all : forall s, s + 7 < W64 ->
  (s <= MI_MEDIUM_OBJ_SIZE_MAX /\ s <= bin_size (mi_bin s)) \/
  (MI_MEDIUM_OBJ_SIZE_MAX < s /\ mi_bin s = MI_BIN_HUGE).
Proof. exact bin_size_ge_all. Qed.
Print Assumptions C16_bin_size_ge_all.

(* size classes are monotone in the request, for all 64-bit sizes *)
Theorem C16_bin_monotone : forall s1 s2, s1 <= s2 -> s2 + 7 < W64 -> mi_bin s1 <= mi_bin s2.
Proof. exact bin_monotone. Qed.
Print Assumptions C16_bin_monotone.

(* the class chosen is the smallest that fits (above 64 bytes); up to 64 bytes the block size is
   the request rounded up to a multiple of 16 (8 for requests of at most 8 bytes) *)
Theorem C16_bin_tight : forall s, 64 < s -> s <= MI_MEDIUM_OBJ_SIZE_MAX -> bin_size (mi_bin s - 1) < s.
Proof. exact bin_tight. Qed.
Print Assumptions C16_bin_tight.

Theorem C16_bin_small_exact : forall s, s <= 64 ->
  bin_size (mi_bin s) = if s <=? 8 then 8 else ((s + 15) / 16) * 16.
Proof. exact bin_small_exact. Qed.
Print Assumptions C16_bin_small_exact.

(* internal fragmentation at most 25% above 64 bytes *)
Theorem C16_fragmentation_le_25 : forall s, 64 < s -> s <= MI_MEDIUM_OBJ_SIZE_MAX ->
  4 * (bin_size (mi_bin s) - s) <= s.
Proof. exact fragmentation_le_25. Qed.
Print Assumptions C16_fragmentation_le_25.

(* mi_good_size(n) >= n, idempotent, equal to the block (= usable) size for small and medium n *)
Theorem C16_good_size : forall s, s <= 2 * MI_MEDIUM_OBJ_SIZE_MAX ->
  s <= good_size s /\ good_size (good_size s) = good_size s /\
  (s <= MI_MEDIUM_OBJ_SIZE_MAX -> good_size s = bin_size (mi_bin s)).
Proof. exact good_size_small. Qed.
Print Assumptions C16_good_size.

(* span bins: all slice counts 0..MI_SLICES_PER_SEGMENT *)
Theorem C16_slice_bin : forall c, c <= MI_SLICES_PER_SEGMENT ->
  slice_bin8 c <= MI_SEGMENT_BIN_MAX /\ slice_bin8 c <= slice_bin8 (c + 1) /\
  (1 <= c -> c <= span_bin_count (slice_bin8 c)) /\
  (1 < c -> span_bin_count (slice_bin8 c - 1) < c).
Proof. exact slice_bin_spec. Qed.
Print Assumptions C16_slice_bin.

Theorem C16_slice_bin_monotone : forall c1 c2, c1 <= c2 -> c2 <= MI_SLICES_PER_SEGMENT ->
  slice_bin8 c1 <= slice_bin8 c2.
Proof. exact slice_bin_monotone. Qed.
Print Assumptions C16_slice_bin_monotone.

(* the fast division used by the heap walk is exact on its whole domain *)
Theorem C16_fast_divide : forall d n, 0 < d -> d < 2^32 -> n < 2^32 ->
  fast_divide n (fst (fast_divisor d)) (snd (fast_divisor d)) = n / d.
Proof. exact fast_divide_correct. Qed.
Print Assumptions C16_fast_divide.

(* non-vacuity: concrete instances *)
Example C16_ex_bin : mi_bin 1000 = 24 /\ mi_bin 17 = 4 /\ bin_size 24 = 1024 /\ good_size 1000 = 1024 /\ slice_bin8 9 = 8.
Proof. vm_compute. repeat split. Qed.
Example C16_ex_fast_divide : fast_divide 65535 (fst (fast_divisor 48)) (snd (fast_divisor 48)) = 1365.
Proof. vm_compute. reflexivity. Qed.
