(* Property C05 -- re-allocation preserves contents and releases the old block exactly once.
   Only statements, each closed by `exact <lemma>`, Print Assumptions, and examples.
   Model: Model/Api.v (realloc_zero = _mi_heap_realloc_zero, expand = mi_expand, heap_reallocf,
   realloc_zero_aligned_at = mi_heap_realloc_zero_aligned_at), release configuration (MI_PADDING = 0;
   with padding mi_expand always returns NULL by design).
   `wf` is the representation invariant of the abstract map (preserved by every operation,
   C05_wf_preserved); `answer_ok st n ans` is the contract of the lower layers for a request of n
   bytes: a fresh block, disjoint from every live block, with usable size >= n (C01/C03). *)
From Coq Require Import NArith List Bool.
From MiV Require Import Gen.Consts Gen.Bins Model.Arith Model.Api Proofs.Base Proofs.ApiProofs.
Import ListNotations.
Local Open Scope N_scope.

(* the first min(old USABLE size, new size) bytes are preserved -- which includes the first
   min(old requested size, new size) bytes since requested <= usable (wf) *)
Theorem C05_realloc_prefix : forall st heap p newsize zero ans st' q b,
  wf st -> newsize < W64 -> answer_ok st newsize ans -> lookup st p = Some b ->
  realloc_zero st heap p newsize zero ans = (st', Some q) ->
  exists b', lookup st' q = Some b' /\
    forall i, i < N.min (b_usable b) newsize -> byte_at (b_bytes b') i = byte_at (b_bytes b) i.
Proof. exact realloc_prefix. Qed.
Print Assumptions C05_realloc_prefix.

Theorem C05_realloc_ge_size : forall st heap p newsize zero ans st' q,
  wf st -> newsize < W64 -> answer_ok st newsize ans -> (p = NULL \/ lookup st p <> None) ->
  realloc_zero st heap p newsize zero ans = (st', Some q) ->
  exists b', lookup st' q = Some b' /\ newsize <= b_usable b' /\ b_req b' = newsize /\
             blen (b_bytes b') = b_usable b' /\ q <> NULL.
Proof. exact realloc_ge_size. Qed.
Print Assumptions C05_realloc_ge_size.

(* the old block is released exactly when a different pointer is returned; no other entry changes;
   when the same pointer is returned the block keeps its bytes, usable size, heap and block start *)
Theorem C05_realloc_frees_old_iff_moved : forall st heap p newsize zero ans st' q b,
  wf st -> newsize < W64 -> answer_ok st newsize ans -> lookup st p = Some b ->
  realloc_zero st heap p newsize zero ans = (st', Some q) ->
  (lookup st' p = None <-> q <> p) /\
  (forall x, x <> p -> x <> q -> lookup st' x = lookup st x) /\
  (q = p -> exists b', lookup st' p = Some b' /\ b_bytes b' = b_bytes b /\ b_usable b' = b_usable b /\
                       b_heap b' = b_heap b /\ b_adjust b' = b_adjust b).
Proof. exact realloc_frees_old_iff_moved. Qed.
Print Assumptions C05_realloc_frees_old_iff_moved.

(* a NULL input behaves as an allocation: same result, same state, except that realloc(NULL,0)
   additionally clears the first byte of the new block (the workaround of issue #725) *)
Theorem C05_realloc_null_is_malloc : forall st heap n zero ans,
  let r := realloc_zero st heap NULL n zero ans in
  let m := heap_malloc_zero st heap n zero ans in
  snd r = snd m /\
  forall x, match lookup (fst r) x, lookup (fst m) x with
            | Some b1, Some b2 =>
                b_usable b1 = b_usable b2 /\ b_heap b1 = b_heap b2 /\ b_req b1 = b_req b2 /\
                b_zero b1 = b_zero b2 /\ b_adjust b1 = b_adjust b2 /\ blen (b_bytes b1) = blen (b_bytes b2) /\
                forall i, byte_at (b_bytes b1) i = byte_at (b_bytes b2) i \/
                          (n = 0 /\ i = 0 /\ byte_at (b_bytes b1) i = 0)
            | None, None => True
            | _, _ => False
            end.
Proof. exact realloc_null_is_malloc. Qed.
Print Assumptions C05_realloc_null_is_malloc.

(* a zero size yields a valid minimal block, never NULL (and never the old pointer: the old block
   is released) whenever the lower layers grant memory *)
Theorem C05_realloc_zero_size_valid : forall st heap p zero a u bytes,
  wf st -> answer_ok st 0 (Some (a, u, bytes)) -> (p = NULL \/ lookup st p <> None) ->
  exists st' q b', realloc_zero st heap p 0 zero (Some (a, u, bytes)) = (st', Some q) /\
    q <> NULL /\ q <> p /\ lookup st' q = Some b' /\ block_ok q b' /\ b_req b' = 0 /\
    (p <> NULL -> lookup st' p = None).
Proof. exact realloc_zero_size_valid. Qed.
Print Assumptions C05_realloc_zero_size_valid.

(* failure: NULL is returned and the state -- in particular the original block -- is untouched;
   a refusal of the lower layers is a failure unless the block is re-used in place *)
Theorem C05_realloc_fail_untouched : forall st heap p newsize zero ans,
  (snd (realloc_zero st heap p newsize zero ans) = None -> fst (realloc_zero st heap p newsize zero ans) = st) /\
  (ans = None -> realloc_inplace_b (usable_size st p) newsize = false ->
   realloc_zero st heap p newsize zero ans = (st, None)).
Proof. exact realloc_fail_untouched. Qed.
Print Assumptions C05_realloc_fail_untouched.

Theorem C05_reallocf_frees_on_fail : forall st heap p newsize ans st',
  (heap_reallocf st heap p newsize ans = (st', None) -> st' = free st p) /\
  (forall q, heap_reallocf st heap p newsize ans = (st', Some q) ->
             heap_realloc st heap p newsize ans = (st', Some q)).
Proof. exact reallocf_frees_on_fail. Qed.
Print Assumptions C05_reallocf_frees_on_fail.

(* mi_expand never moves a block (it does not touch the state at all: it is a pure function of it)
   and succeeds exactly up to mi_usable_size *)
Theorem C05_expand_never_moves : forall st p n,
  (expand st p n = Some p <-> p <> NULL /\ n <= usable_size st p) /\
  (forall q, expand st p n = Some q -> q = p).
Proof. exact expand_never_moves. Qed.
Print Assumptions C05_expand_never_moves.

(* exact characterisation of the in-place decision *)
Theorem C05_inplace_rule : forall st heap p newsize zero ans b,
  wf st -> newsize < W64 -> answer_ok st newsize ans -> lookup st p = Some b ->
  (snd (realloc_zero st heap p newsize zero ans) = Some p <->
   newsize <= b_usable b /\ b_usable b / 2 <= newsize /\ 0 < newsize).
Proof. exact inplace_rule. Qed.
Print Assumptions C05_inplace_rule.

(* the aligned variant (alignment 2^k > sizeof(void* )): alignment kept, size, prefix, release of the
   old block, frame *)
Theorem C05_realloc_aligned : forall st heap p newsize k offset zero o st' q b,
  wf st -> 3 < k -> k < 64 -> newsize < W64 -> offset < W64 ->
  oracles_ok st newsize (2 ^ k) offset o -> lookup st p = Some b ->
  realloc_zero_aligned_at st heap p newsize (2 ^ k) offset zero o = (st', Some q) ->
  (q + offset) mod 2 ^ k = 0 /\
  exists b', lookup st' q = Some b' /\ newsize <= b_usable b' /\
    (forall i, i < N.min (b_usable b) newsize -> byte_at (b_bytes b') i = byte_at (b_bytes b) i) /\
    (lookup st' p = None <-> q <> p) /\
    (forall x, x <> p -> x <> q -> lookup st' x = lookup st x).
Proof. exact realloc_aligned_keeps. Qed.
Print Assumptions C05_realloc_aligned.

(* alignments up to sizeof(void* ) and NULL inputs are delegated *)
Theorem C05_realloc_aligned_small : forall st heap p newsize alignment offset zero o,
  alignment <= MI_INTPTR_SIZE ->
  realloc_zero_aligned_at st heap p newsize alignment offset zero o = realloc_zero st heap p newsize zero (o_ans o).
Proof. exact realloc_aligned_small. Qed.
Print Assumptions C05_realloc_aligned_small.

Theorem C05_realloc_aligned_null : forall st heap newsize alignment offset zero o,
  MI_INTPTR_SIZE < alignment ->
  realloc_zero_aligned_at st heap NULL newsize alignment offset zero o =
  fst (heap_malloc_zero_aligned_at st heap newsize alignment offset zero o).
Proof. exact realloc_aligned_null. Qed.
Print Assumptions C05_realloc_aligned_null.

(* the representation invariant is preserved by every entry point (so the theorems above apply
   along any history) *)
Theorem C05_wf_preserved : forall st c o st' r,
  wf st -> args_ok c -> call_ptr_ok st c -> call_ok st c o -> exec st c o = (st', r) -> wf st'.
Proof. exact exec_wf. Qed.
Print Assumptions C05_wf_preserved.

Theorem C05_wf_init : wf [].
Proof. exact wf_nil. Qed.
Print Assumptions C05_wf_init.

(* ---- non-vacuity: a concrete state with two live blocks, a moving and an in-place re-allocation ---- *)
Definition ex_bytes (n : N) : list N := N.recursion [] (fun i acc => (200 - i) :: acc) n.
Definition ex_st : state :=
  [ (4096, mkBlock 32 (ex_bytes 32) 0 20 false 0); (8192, mkBlock 48 (ex_bytes 48) 1 48 false 0) ].
Definition ex_ans : answer := Some (12288, 112, dirty 112).

Example C05_ex_hyps : wf_b ex_st = true /\ answer_ok_b ex_st 100 ex_ans = true.
Proof. vm_compute. split; reflexivity. Qed.

Example C05_ex_wf : wf ex_st /\ answer_ok ex_st 100 ex_ans.
Proof. split; [apply wf_b_sound|apply answer_ok_b_sound]; vm_compute; reflexivity. Qed.

(* growing 32 -> 100 moves: new pointer, old released, other block untouched, 32 bytes copied *)
Example C05_ex_moved :
  let '(st', r) := realloc_zero ex_st 0 4096 100 false ex_ans in
  r = Some 12288 /\ lookup st' 4096 = None /\ lookup st' 8192 = lookup ex_st 8192 /\
  usable_size st' 12288 = 112 /\
  byte_at (bytes_of st' 12288) 0 = byte_at (bytes_of ex_st 4096) 0 /\
  byte_at (bytes_of st' 12288) 31 = byte_at (bytes_of ex_st 4096) 31 /\
  byte_at (bytes_of st' 12288) 32 = 7.
Proof. vm_compute. repeat split; reflexivity. Qed.

(* 32 -> 16 and 32 -> 32 stay in place; 32 -> 15 and 32 -> 0 move; failure leaves the state alone *)
Example C05_ex_inplace :
  snd (realloc_zero ex_st 0 4096 16 false ex_ans) = Some 4096 /\
  snd (realloc_zero ex_st 0 4096 32 false None) = Some 4096 /\
  snd (realloc_zero ex_st 0 4096 15 false ex_ans) = Some 12288 /\
  snd (realloc_zero ex_st 0 4096 0 false ex_ans) = Some 12288 /\
  realloc_zero ex_st 0 4096 100 false None = (ex_st, None) /\
  heap_reallocf ex_st 0 4096 100 None = ([ (8192, mkBlock 48 (ex_bytes 48) 1 48 false 0) ], None) /\
  expand ex_st 4096 32 = Some 4096 /\ expand ex_st 4096 33 = None.
Proof. vm_compute. repeat split; reflexivity. Qed.
