(* Property C04 -- zero-initialising allocation really returns zeros, also when growing.
   Only statements, each closed by `exact <lemma>`, Print Assumptions, and examples.
   Model: Model/Api.v; every entry point is a constructor of `call`, executed by `exec` with the
   answers of the lower layers as oracle arguments.  `call_zero c` holds for the zero-initialising
   entry points (zalloc, calloc, rezalloc, recalloc and their aligned / per-heap variants).
   `call_ok st c o` is the layer contract for the answers consulted by the call (fresh block,
   disjoint from all live blocks, usable >= the size asked for), `args_ok c`: arguments < 2^64.

   What the model says a zeroing allocation does follows the C code: _mi_page_malloc_zero clears the
   FULL block (huge blocks: _mi_malloc_generic clears mi_page_usable_block_size afterwards; huge
   aligned blocks: cleared from the aligned pointer over mi_usable_size), and -- since the repair
   "zero the whole new block when a zero-initialised block is re-allocated" -- so does the allocation
   inside a zeroing re-allocation.  That the pages' free_is_zero knowledge is correct is the
   page-level theorem (Properties/C01page.v / Page model), not this file. *)
From Coq Require Import NArith List Bool.
From MiV Require Import Gen.Consts Gen.Bins Model.Arith Model.Api Proofs.Base Proofs.ApiProofs.
Import ListNotations.
Local Open Scope N_scope.

(* a zeroing allocation returns a block whose whole usable size -- in particular the requested
   size -- is zero, whatever bytes the lower layers handed out *)
Theorem C04_zalloc_zero : forall st c o st' r q,
  wf st -> args_ok c -> call_ok st c o -> call_zero c = true -> call_ptr c = NULL ->
  exec st c o = (st', r) -> r_ptr r = Some q ->
  exists b, lookup st' q = Some b /\ b_req b = call_size c /\ call_size c <= b_usable b /\
            b_zero b = true /\ blen (b_bytes b) = b_usable b /\ forall i, byte_at (b_bytes b) i = 0.
Proof. exact zalloc_zero. Qed.
Print Assumptions C04_zalloc_zero.

(* the invariant: for every zero-family block the bytes [requested, usable) are zero.  It holds
   initially and is preserved by EVERY operation: all allocation / re-allocation / free entry
   points and program stores (a program stores only inside the requested size of a zero-family
   block: Api.write) *)
Theorem C04_zero_family_inv_init : zinv [].
Proof. exact zinv_nil. Qed.
Print Assumptions C04_zero_family_inv_init.

Theorem C04_zero_family_inv : forall st c o st' r,
  wf st -> zinv st -> args_ok c -> call_ptr_ok st c -> call_ok st c o -> exec st c o = (st', r) -> zinv st'.
Proof. exact exec_zinv. Qed.
Print Assumptions C04_zero_family_inv.

(* growth chains.  `zchain st p n`: p is a block obtained by a zeroing allocation (zc_start) and then
   grown monotonically any number of times by zeroing re-allocations (zc_grow: any of rezalloc,
   recalloc, rezalloc_aligned(_at), recalloc_aligned_at; new size >= current requested size n), with
   arbitrary program stores to the block in between (zc_write: stores outside [0,n) are not issued)
   and arbitrary other calls on other pointers in between (zc_other), under arbitrary oracle answers
   satisfying the layer contract.
   After every further growth step -- whether it stays in place or moves -- every byte from the
   previous requested size on is zero: in particular all of [previous requested, new requested). *)
Theorem C04_rezalloc_chain_zero : forall st p n c o st' r p',
  zchain st p n -> args_ok c -> call_ok st c o -> call_zero c = true -> call_ptr c = p ->
  n <= call_size c -> exec st c o = (st', r) -> r_ptr r = Some p' ->
  exists b', lookup st' p' = Some b' /\ b_req b' = call_size c /\ call_size c <= b_usable b' /\
             forall i, n <= i -> byte_at (b_bytes b') i = 0.
Proof. exact rezalloc_chain_zero. Qed.
Print Assumptions C04_rezalloc_chain_zero.

(* along a chain the block stays live, in the zero family, with the tracked requested size *)
Theorem C04_chain_live : forall st p n, zchain st p n ->
  wf st /\ zinv st /\ exists b, lookup st p = Some b /\ b_zero b = true /\ b_req b = n.
Proof. exact zchain_live. Qed.
Print Assumptions C04_chain_live.

(* ---- the repaired defect, for the record: with the behaviour before the repair (new block not
   zeroed, cleared only up to newsize: ApiProofs.realloc_zero_old) the two-step chain
   zalloc(8) -> rezalloc(20) [moves into a dirty 32-byte block] -> rezalloc(28) [in place]
   exposes a non-zero byte at offset 24; with the repaired code it is zero ---- *)
Example C04_ex_old_code_nonzero : chain_example realloc_zero_old = 7.
Proof. exact chain_example_old_code_nonzero. Qed.
Example C04_ex_repaired_zero : chain_example realloc_zero = 0.
Proof. exact chain_example_repaired_zero. Qed.

(* ---- non-vacuity: a concrete chain on dirty memory through exec ---- *)
Definition ex_o (a : answer) : oracles := mkOracles None a None.
Definition ex_chain : state * N :=
  let '(s0, r0) := exec [] (CCalloc 0 3 4) (ex_o (Some (4096, 16, dirty 16))) in      (* calloc(3,4): 12 bytes *)
  let s1 := write s0 4096 11 9 in                                                       (* store inside [0,12) *)
  let s1' := write s1 4096 13 9 in                                                      (* outside: not issued *)
  let '(s2, r2) := exec s1' (CRezalloc 0 4096 16) (ex_o None) in                        (* in place (16 <= 16) *)
  let '(s3, r3) := exec s2 (CMalloc 0 40) (ex_o (Some (20480, 48, dirty 48))) in        (* another block *)
  let '(s4, r4) := exec s3 (CRecalloc 0 4096 5 8) (ex_o (Some (8192, 48, dirty 48))) in (* moves: 40 bytes *)
  let '(s5, r5) := exec s4 (CRezallocAlignedAt 0 8192 44 32 0) (ex_o None) in           (* aligned, in place *)
  (s5, match r_ptr r5 with Some q => q | None => 0 end).

Example C04_ex_chain :
  let '(s, q) := ex_chain in
  q = 8192 /\ wf_b s = true /\ zinv_b s = true /\
  byte_at (bytes_of s q) 11 = 9 /\ all_zero_from (bytes_of s q) 12 = true /\ usable_size s q = 48 /\
  byte_at (bytes_of s 20480) 0 = 7.
Proof. vm_compute. repeat split; reflexivity. Qed.

Example C04_ex_zchain :
  zchain (fst (exec [] (CCalloc 0 3 4) (mkOracles None (Some (4096, 16, dirty 16)) None))) 4096 12.
Proof. exact zchain_example. Qed.
