(* Property C08 -- remotely freed memory is never lost (the protocol part).
   Model: Model/TFree.v.  Only statements closed by `exact <lemma>`, Print Assumptions, and Examples.
   Not in this file: the every-100th-generic-allocation counter that starts the drain (the drain is an operation the owner may
   start at any time in the model) and the numeric "bounded memory" clause (observed by the `unbounded` oracle of the scheduler
   harness, tools/props/C08.py: a test).
   `tflist_nonempty_flag` is proved in the corrected form explained at the theorem. *)
From Coq Require Import NArith List Bool.
From MiV Require Import Model.TFree Proofs.TFreeBase Proofs.TFreeInv Proofs.TFreeStep5 Proofs.TFreeProofs Proofs.TFreeSolo
  Proofs.TFreeT Proofs.TFreeFull.
Import ListNotations.
Local Open Scope N_scope.

(* the invariant documented in types.h:313-319: flag NO_DELAYED_FREE (or a thread that is past its push on the
   heap list but has not yet reset the flag) => some block of that page is on the delayed list of a live heap
   or in the owner's pending list, i.e. the owner will look at the page again *)
Theorem no_delayed_flag_inv : forall s, reachable s -> exists c, s = Ok c /\ forall p,
  (pg_flag (getp c p) = NoD -> delayed_or_pending c p)
  /\ (forall t, (1 <= sum_fr (pw_fr p) (th_stk (gett c t)))%nat -> delayed_or_pending c p).
Proof. exact no_delayed_flag_inv_P. Qed.
Print Assumptions no_delayed_flag_inv.

(* tflist_nonempty_flag.  DESIGN.md states it as "a non-empty page thread list => flag in {NO, NEVER}"; in that
   form it is false for the code and the model: a thread that arrives while another one is inside the
   DELAYED_FREEING window pushes on the page list, so the flag can also be DELAYED_FREEING.  What makes the
   mechanism work is the statement below: a non-empty thread list under MI_USE_DELAYED_FREE only exists while a
   block of the page is still on a delayed / pending list (mD) or the page's owner is between the flag reset of
   _mi_free_delayed_block and the collect that follows it (mPh); in particular, whenever the owner is idle,
   some block of the page is on a live heap's delayed list, so the owner will come back to the page. *)
Theorem tflist_nonempty_flag : forall s, reachable s -> exists c, s = Ok c /\ forall p,
  pg_tf (getp c p) <> [] -> pg_flag (getp c p) = UseD ->
  (1 <= mD c (onp p) + mPh c p)%nat
  /\ (th_stk (gett c (pg_tid (getp c p))) = [] -> delayed_or_pending c p).
Proof. exact tflist_nonempty_flag_P. Qed.
Print Assumptions tflist_nonempty_flag.

(* from any reachable state in which all threads are idle, the owner's forced collect of heap h, run alone
   (`solo` = the deterministic run with the default choice), terminates, never errs, and yields: delayed list
   empty; every page of h with no live block has been freed; every other page of h has an empty thread list
   and used = |live blocks| *)
Theorem quiescent_collect_complete : forall s, reachable s -> exists c, s = Ok c /\
  (quiescent c = true -> forall t h, hown (geth c h) t = true ->
   exists c1 n c', cstep c t (COp (OpHeapCollect h true)) = ROk c1 None /\ solo n c1 t = Some c'
                   /\ reachable (Ok c') /\ quiescent c' = true /\ collectedP c c' h).
Proof. exact quiescent_collect_complete_P. Qed.
Print Assumptions quiescent_collect_complete.

(* hence: once all blocks have been freed (by whichever threads) and the owner collects, the heap holds no pages *)
Theorem all_freed_no_pages : forall s, reachable s -> exists c, s = Ok c /\
  (quiescent c = true -> (forall u, th_held (gett c u) = []) -> forall t h, hown (geth c h) t = true ->
   exists c1 n c', cstep c t (COp (OpHeapCollect h true)) = ROk c1 None /\ solo n c1 t = Some c'
                   /\ reachable (Ok c') /\ pages_of c' t h = [] /\ hp_del (geth c' h) = []).
Proof. exact all_freed_no_pages_P. Qed.
Print Assumptions all_freed_no_pages.

(* processing a delayed block of a page that is in the full queue returns it to its size queue
   (or the page becomes empty and is being freed) *)
Theorem unfull_on_delayed : forall s, reachable s -> exists c, s = Ok c /\
  forall t h b r af rest ch c' ev, th_stk (gett c t) = DP6 h b r af :: rest -> cstep c t ch = ROk c' ev ->
  pg_full (getp c' (fst b)) = false \/ (exists rest', th_stk (gett c' t) = PF (fst b) :: rest').
Proof. exact unfull_on_delayed_R. Qed.
Print Assumptions unfull_on_delayed.

(* the full-queue protocol cannot strand a page (what keeps a producer/consumer workload bounded):
   (1) whenever all threads are between calls, a page with a non-empty thread-free list (not being abandoned) has one of
       its blocks on the delayed-free list of its own, live heap, i.e. the owner's next drain of that heap meets the page;
   (2) the owner's next _mi_heap_delayed_free_all of that heap, run alone, terminates and leaves every page that had a
       remotely freed block (on its thread-free list or on the heap's delayed list) out of the full queue - back in its
       size queue, or freed because it became empty - with its thread-free list collected and the delayed list empty.
   (`pg_full` is not a hypothesis of (2): the conclusion holds for such a page whether or not it was in the full queue.) *)
Theorem remote_free_noticed : forall s, reachable s -> exists c, s = Ok c /\
  (quiescent c = true -> forall p h, pg_heap (getp c p) = Some h -> pg_tf (getp c p) <> [] -> pg_flag (getp c p) <> NeverD ->
   exists b, fst b = p /\ In b (hp_del (geth c h)) /\ hp_alive (geth c h) = true).
Proof. exact remote_free_noticed_P. Qed.
Print Assumptions remote_free_noticed.

Theorem full_page_unfulled_by_drain : forall s, reachable s -> exists c, s = Ok c /\
  (quiescent c = true -> forall t h p, hown (geth c h) t = true ->
   pg_heap (getp c p) = Some h -> pg_flag (getp c p) <> NeverD ->
   (pg_tf (getp c p) <> [] \/ exists b, fst b = p /\ In b (hp_del (geth c h))) ->
   exists c1 n c', cstep c t (COp (OpDelayedAll h)) = ROk c1 None /\ solo n c1 t = Some c'
                   /\ reachable (Ok c') /\ quiescent c' = true
                   /\ pg_full (getp c' p) = false /\ pg_tf (getp c' p) = [] /\ hp_del (geth c' h) = []).
Proof. exact full_page_unfulled_by_drain_P. Qed.
Print Assumptions full_page_unfulled_by_drain.

(* ---- Examples ---- *)
Definition b00 : bid := (0, 0).
Definition b01 : bid := (0, 1).
Definition b02 : bid := (0, 2).
(* page 0 (3 blocks) is full and in the full queue; thread 1 holds two blocks, thread 0 one; thread 1 frees
   both remotely (first one through the heap's delayed list, second one on the page's thread list) *)
Definition sched_c08 : list (N * choice) :=
  [ (0, COp (OpHeapNew 0)); (0, COp (OpFresh 0 0 3 3)); (0, COp (OpPop 0)); (0, COp (OpPop 0)); (0, COp (OpPop 0));
    (0, COp (OpToFull 0)); (0, CGo); (0, CGo);
    (0, COp (OpGive b00 1)); (0, COp (OpGive b01 1));
    (1, COp (OpFree b00 false)); (1, CGo); (1, CGo); (1, CGo); (1, CGo); (1, CGo); (1, CGo); (1, CGo);
    (1, COp (OpFree b01 false)); (1, CGo); (1, CGo) ].

(* Examples are closed boolean computations (nothing is computed under a binder) *)
Definition after (sched : list (N * choice)) (f : cfg -> bool) : bool :=
  match run init sched with Some (Ok c) => f c | _ => false end.
Definition after_collect (sched : list (N * choice)) (t h : N) (f : cfg -> cfg -> bool) : bool :=
  after sched (fun c => match cstep c t (COp (OpHeapCollect h true)) with
                        | ROk c1 None => match solo 200 c1 t with Some c' => f c c' | None => false end
                        | _ => false end).
Definition beq_bl (a b : list bid) : bool := Nat.eqb (length a) (length b) && forallb (fun x => mem_bid x b) a.

Example ex_quiescent_before :
  after sched_c08 (fun c => quiescent c && pg_full (getp c 0) && flag_eqb (pg_flag (getp c 0)) NoD
                            && beq_bl (pg_tf (getp c 0)) [b01] && beq_bl (hp_del (geth c 0)) [b00]
                            && (pg_used (getp c 0) =? 3) && Nat.eqb (live_count c 0) 1 && inv_b c) = true.
Proof. vm_compute. reflexivity. Qed.

(* the owner's forced collect: nothing is lost, the page is back in its size queue with used = 1 *)
Example ex_collect_complete :
  after_collect sched_c08 0 0 (fun c c' =>
    isnil (hp_del (geth c' 0)) && isnil (pg_tf (getp c' 0)) && (pg_used (getp c' 0) =? 1) && negb (pg_full (getp c' 0))
    && flag_eqb (pg_flag (getp c' 0)) UseD && collected_b c c' 0 && quiescent c' && inv_b c') = true.
Proof. vm_compute. reflexivity. Qed.

(* ... and after the last block has been freed as well, the heap holds no pages *)
Example ex_all_freed :
  after_collect (sched_c08 ++ [(0, COp (OpFree b02 false))]) 0 0 (fun c c' =>
    isnil (pages_of c' 0 0) && negb (pg_alive (getp c' 0)) && inv_b c') = true.
Proof. vm_compute. reflexivity. Qed.

(* the owner's next drain alone (no forced collect): the full page with a remotely freed block on its thread list and one
   on the heap's delayed list is back in its size queue, both blocks are available to the owner again *)
Definition after_drain (sched : list (N * choice)) (t h : N) (f : cfg -> cfg -> bool) : bool :=
  after sched (fun c => match cstep c t (COp (OpDelayedAll h)) with
                        | ROk c1 None => match solo 200 c1 t with Some c' => f c c' | None => false end
                        | _ => false end).
Example ex_unfulled_by_drain :
  after_drain sched_c08 0 0 (fun c c' =>
    quiescent c && pg_full (getp c 0) && negb (isnil (pg_tf (getp c 0))) && negb (flag_eqb (pg_flag (getp c 0)) NeverD)
    && oN_eqb (pg_heap (getp c 0)) (Some 0) && hown (geth c 0) 0
    && negb (pg_full (getp c' 0)) && isnil (pg_tf (getp c' 0)) && isnil (hp_del (geth c' 0)) && pg_alive (getp c' 0)
    && (pg_used (getp c' 0) =? 1) && beq_bl (pg_lfree (getp c' 0) ++ pg_free (getp c' 0)) [b00; b01]
    && quiescent c' && inv_b c') = true.
Proof. vm_compute. reflexivity. Qed.
