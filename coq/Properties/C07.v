(* Property C07 -- operating-system refusals are survived without crash or corruption: the COMMIT BOOKKEEPING.
   Model: Model/Commit.v (arena blocks_committed / segment commit_mask / purge_mask over a ghost kernel `acc`, every
   mprotect answered by a failure oracle `list bool`, every search / clock / kernel-address decision an argument).
   The theorems hold for EVERY oracle, every choice argument and every operation sequence.
   This file contains only statements, each closed by `exact <lemma>`, and Print Assumptions.

   commit_Inv st (Proofs/CommitInv.v) :=
     (A) I_A   : an arena committed bit => every slice of the block is accessible, except slices inside a live NORMAL
                 segment (their accessibility is what that segment's commit_mask records);
     (S) I_S   : a commit_mask bit (below segment_slices) => the slice is accessible; a huge segment is accessible over
                 all its slices;
     (L,P) I_LP: header slices and slices of live pages are committed and carry no purge bit; purge_mask inside commit_mask;
     (D) I_D1/I_D2: live pages lie inside their segment after the header and are pairwise disjoint;
     ownership I_wf/I_raw/I_own: the blocks of every segment (and of every other arena user) are marked in use, the
                 memory of distinct owners is disjoint, OS-backed segments lie outside the arena.
   Clause (L) of the property ("every slice of every live page is accessible") is the theorem C07_live_accessible. *)
From Coq Require Import NArith List Bool.
From MiV Require Import Gen.Consts Model.Commit Proofs.CommitBase Proofs.CommitInv Proofs.CommitStep Proofs.CommitProofs.
Import ListNotations.
Local Open Scope N_scope.
Local Open Scope bool_scope.

(* the invariant can be run: on model states and on states dumped from the implementation *)
Theorem C07_commit_inv_b_iff : forall st, commit_inv_b st = true <-> commit_Inv st.
Proof. exact commit_inv_b_iff. Qed.
Print Assumptions C07_commit_inv_b_iff.

(* the model is stated at slice granularity; this is what the build must provide *)
Theorem C07_granularity : MI_COMMIT_SIZE = MI_SEGMENT_SLICE_SIZE /\ MI_MINIMAL_COMMIT_SIZE = MI_SEGMENT_SLICE_SIZE /\
  MI_COMMIT_MASK_BITS = MI_SLICES_PER_SEGMENT /\ MI_ARENA_BLOCK_SIZE = MI_SEGMENT_SIZE /\ MI_SECURE = 0.
Proof. exact granularity_ok. Qed.
Print Assumptions C07_granularity.

(* (A) is kept by mi_arena_try_alloc_at whatever the OS answers; memid.initially_committed = true implies that the whole
   range is accessible; accessibility is never taken away; the committed bits of the range say what the memid says *)
Theorem C07_arena_commit_sound : forall a acc segs b0 n commit o mc z a' acc' o',
  arena_A a segs acc ->
  (forall b x, b0 <= b < b0 + n -> in_block a b x -> governed segs x = false) ->
  arena_try_alloc_at a acc b0 n commit o = Some (mc, z, a', acc', o') ->
  arena_A a' segs acc' /\
  (mc = true -> forall x, block_slice a b0 <= x < block_slice a b0 + n * BLOCK_SLICES -> acc' x = true) /\
  (forall x, acc x = true -> acc' x = true) /\
  (forall b, b0 <= b < b0 + n -> a_committed a' b = mc).
Proof. exact arena_commit_sound. Qed.
Print Assumptions C07_arena_commit_sound.

(* repair c78a4f5: the pre-repair code (bits left set when the commit is refused) breaks (A) on one refused commit *)
Example C07_arena_commit_old_code_unsound :
  (match arena_try_alloc_at_old ex_arena no_bits 1 2 true [false] with
   | Some (mc, _, a', acc', _) => (mc, arena_acc_b a' [] acc')
   | None => (true, true) end) = (false, false) /\
  (match arena_try_alloc_at ex_arena no_bits 1 2 true [false] with
   | Some (mc, _, a', acc', _) => (mc, arena_acc_b a' [] acc')
   | None => (true, false) end) = (false, true).
Proof. exact arena_commit_old_code_unsound. Qed.

(* repair 68720bb: the pre-repair mi_segment_os_alloc committed only the header of a huge segment *)
Example C07_segment_os_alloc_old_huge_unsound :
  (match os_alloc_commit_old no_bits 1000 321 true false [true] with
   | (Some (m, acc'), _) => seg_mask_b acc' (new_segment 1000 321 true m (MemArena 0 1))
   | _ => true end) = false /\
  (match os_alloc_commit no_bits 1000 321 true false [true] with
   | (Some (m, acc'), _) => seg_mask_b acc' (new_segment 1000 321 true m (MemArena 0 1))
   | _ => false end) = true.
Proof. exact segment_os_alloc_old_huge_unsound. Qed.

(* (S) is kept by mi_segment_commit / ensure_committed / purge / try_purge / span_free for every oracle; a commit_mask bit
   is set only when the commit of that slice was granted; a refused commit leaves segment and kernel unchanged *)
Theorem C07_mask_sound : forall c s acc lo n o,
  seg_S acc s ->
  (forall s' acc' ok o', segment_commit s acc lo n o = (s', acc', ok, o') \/ segment_ensure_committed s acc lo n o = (s', acc', ok, o') ->
     seg_S acc' s' /\
     (forall i, sg_commit s' i = true -> sg_commit s i = true \/
                (ok = true /\ lo <= i < lo + n /\ i < sg_nslices s /\ acc' (sg_base s + i) = true)) /\
     (ok = false -> s' = s /\ acc' = acc /\ o = false :: o')) /\
  (forall s' acc' o', segment_purge c s acc lo n o = (s', acc', o') \/ segment_try_purge c s acc o = (s', acc', o') \/
                      (exists ap, span_free c s acc lo n ap o = (s', acc', o')) ->
     seg_S acc' s' /\ (forall i, sg_commit s' i = true -> sg_commit s i = true)).
Proof. exact mask_sound. Qed.
Print Assumptions C07_mask_sound.

(* mi_segment_span_allocate returning a page: every slice of it is accessible (normal and huge segments) *)
Theorem C07_span_allocate_accessible : forall s acc lo n o s' acc' o',
  seg_S acc s -> (is_huge s = false -> sg_nslices s = MASK_BITS) -> lo + n <= sg_nslices s ->
  span_allocate s acc lo n o = (Some s', acc', o') ->
  seg_S acc' s' /\ forall i, lo <= i < lo + n -> acc' (sg_base s + i) = true.
Proof. exact span_allocate_accessible. Qed.
Print Assumptions C07_span_allocate_accessible.

(* one step, any operation, any oracle *)
Theorem C07_step_inv : forall c st x o st' r o',
  commit_Inv st -> step c st x o = Some (st', r, o') -> commit_Inv st' /\ live_effect st x r st'.
Proof. exact step_inv. Qed.
Print Assumptions C07_step_inv.

(* (L) *)
Theorem C07_live_accessible : forall st p,
  commit_Inv st -> In p (st_live st) -> forall i, pg_lo p <= i < pg_lo p + pg_n p -> st_acc st (pg_seg p + i) = true.
Proof. exact live_accessible. Qed.
Print Assumptions C07_live_accessible.

(* MAIN: for every operation sequence and every pattern of OS refusals the invariant holds throughout; a page reported
   as allocated is accessible in the state right after its allocation; every page handed out and not yet freed is
   accessible in every later state; a page leaves the live list only by the operation that frees it *)
Theorem C07_handed_out_accessible : forall c s ops o s' rs o',
  commit_Inv s -> run c s ops o = Some (s', rs, o') ->
  commit_Inv s' /\
  forall ops1 x ops2, ops = ops1 ++ x :: ops2 ->
    exists s1 rs1 o1 s2 r o2,
      run c s ops1 o = Some (s1, rs1, o1) /\ step c s1 x o1 = Some (s2, r, o2) /\
      commit_Inv s1 /\ commit_Inv s2 /\
      (forall p, r = RPage p -> In p (st_live s2) /\ page_accessible (st_acc s2) p = true) /\
      (forall p, In p (st_live s2) -> page_accessible (st_acc s2) p = true) /\
      (forall p, In p (st_live s1) -> In p (st_live s2) \/ exists clo cn e u, x = OpFree p clo cn e u).
Proof. exact handed_out_accessible. Qed.
Print Assumptions C07_handed_out_accessible.

(* an operation that fails (NULL) keeps the list of live pages and the accessibility of every live slice *)
Theorem C07_failure_keeps_live : forall c s x o s' o',
  commit_Inv s -> step c s x o = Some (s', RNone, o') ->
  commit_Inv s' /\ st_live s' = st_live s /\
  forall p, In p (st_live s) -> forall i, pg_lo p <= i < pg_lo p + pg_n p ->
    st_acc s' (pg_seg p + i) = st_acc s (pg_seg p + i) /\ st_acc s' (pg_seg p + i) = true.
Proof. exact failure_keeps_live. Qed.
Print Assumptions C07_failure_keeps_live.

(* the restore path of mi_segments_page_find_and_allocate: it is taken only on a refused commit, the span is free
   again, nothing but the purge scheduling of the restored span changed, live pages stay accessible *)
Theorem C07_span_restored_on_failure : forall c s base lo n clo cn o s' o',
  commit_Inv s -> page_find_and_allocate c s base lo n clo cn o = Some (s', None, o') ->
  commit_Inv s' /\ st_live s' = st_live s /\ st_arena s' = st_arena s /\ st_raw s' = st_raw s /\
  span_is_free (st_live s') base lo n = true /\ (exists o1, o = false :: o1) /\
  forall p, In p (st_live s) -> page_accessible (st_acc s') p = true.
Proof. exact span_restored_on_failure. Qed.
Print Assumptions C07_span_restored_on_failure.

(* once the OS grants every request again: a free span, free arena blocks (huge), or one free arena block (normal page)
   is enough for the next allocation to succeed, after any history *)
Theorem C07_recovers : forall c s commit order tries2 o,
  commit_Inv s -> granted o ->
  (forall sg lo n, In sg (st_segs s) -> is_huge sg = false -> sg_info sg <= lo -> 0 < n -> lo + n <= sg_nslices sg ->
     span_is_free (st_live s) (sg_base sg) lo n = true ->
     exists s' o', step c s (OpAlloc n false commit [[WSpan (sg_base sg) lo lo n]] order tries2) o =
                     Some (s', RPage {| pg_seg := sg_base sg; pg_lo := lo; pg_n := n |}, o') /\ granted o') /\
  (forall b0 n, 0 < n -> b0 + (INFO_SLICES + n + BLOCK_SLICES - 1) / BLOCK_SLICES <= a_nblocks (st_arena s) ->
     (forall b, b0 <= b < b0 + (INFO_SLICES + n + BLOCK_SLICES - 1) / BLOCK_SLICES -> a_inuse (st_arena s) b = false) ->
     exists s' o', step c s (OpAlloc n true commit [[WNewArena b0]] order tries2) o =
                     Some (s', RPage {| pg_seg := block_slice (st_arena s) b0; pg_lo := INFO_SLICES; pg_n := n |}, o') /\ granted o') /\
  (forall b0 n, 0 < n -> INFO_SLICES + n <= MASK_BITS -> b0 < a_nblocks (st_arena s) -> a_inuse (st_arena s) b0 = false ->
     exists s' o', step c s (OpAlloc n false commit [[WNewArena b0; WSpan (block_slice (st_arena s) b0) INFO_SLICES INFO_SLICES n]] order tries2) o =
                     Some (s', RPage {| pg_seg := block_slice (st_arena s) b0; pg_lo := INFO_SLICES; pg_n := n |}, o') /\ granted o').
Proof. exact recovers. Qed.
Print Assumptions C07_recovers.

(* purge and collect never take accessibility away from a slice of a live page *)
Theorem C07_purge_never_live : forall c s x o s' r o',
  commit_Inv s -> is_purge_op x = true -> step c s x o = Some (s', r, o') ->
  commit_Inv s' /\ st_live s' = st_live s /\
  forall p, In p (st_live s) -> forall i, pg_lo p <= i < pg_lo p + pg_n p ->
    st_acc s' (pg_seg p + i) = st_acc s (pg_seg p + i) /\ st_acc s' (pg_seg p + i) = true.
Proof. exact purge_never_live. Qed.
Print Assumptions C07_purge_never_live.

(* the hypotheses are satisfiable, and the scenario of corpus/C07/arena_commit_bit_after_refusal.trace (refused arena
   commit, then re-use of the same blocks) ends in an accessible page with the repaired model *)
Example C07_commit_Inv_initial : commit_Inv ex_state.
Proof. exact commit_Inv_initial. Qed.

Example C07_arena_commit_bit_after_refusal_run :
  match run ex_cfg ex_state ex_ops ex_oracle with
  | Some (st, [RPage p1; RPage p2; RUnit; RPage p3], o) =>
    commit_inv_b st && page_accessible (st_acc st) p1 && page_accessible (st_acc st) p3 &&
    (pg_seg p3 =? pg_seg p2) && (pg_n p3 =? 496) && (N.of_nat (length o) =? 0) &&
    negb (a_committed (st_arena (match run ex_cfg ex_state (firstn 3 ex_ops) ex_oracle with Some (s3, _, _) => s3 | None => st end)) 1) &&
    a_committed (st_arena st) 1
  | _ => false
  end = true.
Proof. exact arena_commit_bit_after_refusal_run. Qed.

(* a run with a refused span commit (restore path), a failing malloc (attempt, forced collect, retry), decommitting
   purges and recovery: the invariant holds in every intermediate state *)
Example C07_refused_span_commit_run :
  run_all_inv ex_cfg_decommit ex_state ex_ops2 ex_oracle2 = true /\
  match run ex_cfg_decommit ex_state ex_ops2 ex_oracle2 with
  | Some (st, [RPage p1; RPage p2; RNone; RUnit; RUnit; RPage p3], _) =>
    page_accessible (st_acc st) p1 && page_accessible (st_acc st) p3 && (N.of_nat (length (st_live st)) =? 2)
  | _ => false
  end = true.
Proof. exact refused_span_commit_run. Qed.

(* repair of mi_segments_page_alloc (a fresh segment that its retry left without a page is freed again):
   segments never stay owned without pages.  For every operation, oracle and choice argument -- no invariant is needed --
   a segment of the new state without a live page was (by its base) already a segment without a live page before the
   operation (unused_incl); hence when every segment has a live page this remains so (no_unused_segment), and it is so
   after any history from the initial state of an arena.
     seg_bases st := map sg_base (st_segs st)
     unused_incl st st' := forall b, In b (seg_bases st') -> seg_has_live b (st_live st') = false ->
                                     In b (seg_bases st) /\ seg_has_live b (st_live st) = false
     no_unused_segment st := forall s, In s (st_segs st) -> seg_has_live (sg_base s) (st_live st) = true *)
Theorem C07_no_unused_segment : forall c st x o st' r o',
  step c st x o = Some (st', r, o') ->
  unused_incl st st' /\ (no_unused_segment st -> no_unused_segment st').
Proof. exact no_unused_segment_step. Qed.
Print Assumptions C07_no_unused_segment.

Theorem C07_no_unused_segment_run : forall c ops st o st' rs o',
  run c st ops o = Some (st', rs, o') -> no_unused_segment st -> no_unused_segment st'.
Proof. exact no_unused_segment_run. Qed.
Print Assumptions C07_no_unused_segment_run.

Theorem C07_no_unused_segment_from_init : forall c start nblocks is_committed is_zero ops o st' rs o',
  run c (state_init start nblocks is_committed is_zero) ops o = Some (st', rs, o') -> no_unused_segment st'.
Proof. exact no_unused_segment_from_init. Qed.
Print Assumptions C07_no_unused_segment_from_init.

(* the pre-repair mi_segments_page_alloc (segments_page_alloc_old: `return mi_segments_page_alloc(...)` without the
   test of segment->used) keeps a fresh segment without a page, (1) when the first span commit in it is refused and
   (2) when the retry finds the restored span of another segment (the witness found on the real code); the repaired
   function frees it in both runs *)
Example C07_segments_page_alloc_old_keeps_unused_segment :
  (match segments_page_alloc_old ex_cfg ex_state 8 false [WNewArena 2; WSpan ex_seg 1 1 511] [true; false] with
   | Some (st, None, _) => (commit_inv_b st, unused_count st, a_inuse (st_arena st) 2) | _ => (false, 0, false) end) = (true, 1, true) /\
  (match segments_page_alloc ex_cfg ex_state 8 false [WNewArena 2; WSpan ex_seg 1 1 511] [true; false] with
   | Some (st, None, _) => (commit_inv_b st, unused_count st, a_inuse (st_arena st) 2) | _ => (false, 1, true) end) = (true, 0, false) /\
  (match segments_page_alloc_old ex_cfg ex_state_one_page 16 false ex_ws_retry_elsewhere [false; true; true] with
   | Some (st, Some p, _) => (commit_inv_b st && (pg_seg p =? ex_seg), unused_count st, a_inuse (st_arena st) 0)
   | _ => (false, 0, false) end) = (true, 1, true) /\
  (match segments_page_alloc ex_cfg ex_state_one_page 16 false ex_ws_retry_elsewhere [false; true; true] with
   | Some (st, Some p, _) => (commit_inv_b st && (pg_seg p =? ex_seg), unused_count st, a_inuse (st_arena st) 0)
   | _ => (false, 1, true) end) = (true, 0, false).
Proof. exact segments_page_alloc_old_keeps_unused_segment. Qed.

(* the former observation (a fresh segment whose first span commit is refused stays cached without a used page, and a
   forced collect does not release its arena block) no longer holds: the segment is freed before the malloc returns NULL *)
Example C07_unused_segment_freed_after_refusal :
  match run ex_cfg ex_state [OpAlloc 8 false false [[WNewArena 2; WSpan (32768 + 1024) 1 1 511]] [] []; OpCollect []] [true; false] with
  | Some (st, [RNone; RUnit], _) =>
    commit_inv_b st && (N.of_nat (length (st_live st)) =? 0) && (N.of_nat (length (st_segs st)) =? 0) && negb (a_inuse (st_arena st) 2)
  | _ => false
  end = true.
Proof. exact unused_segment_freed_after_refusal. Qed.
