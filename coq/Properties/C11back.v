(* Property C11 -- freed memory is given back; footprint does not creep: the WHOLE-WORKLOAD clause
   ("once all blocks have been freed and the heap force-collected, the regions obtained for segments are released again
   and repeating the workload does not increase mapped memory"), on the model that composes segments, arena blocks and
   the ghost kernel: Model/Commit.v (property C07), with the boolean forms of Model/GiveBack.v.
   Only statements closed by `exact <lemma>`, Print Assumptions, and vm_compute Examples.  Proofs: Proofs/CommitGiveBack.v.

   The theorems quantify over every configuration `c`, every arena geometry (start, nblocks, is_committed, is_zero),
   every operation sequence `ops` (mallocs needing a fresh normal or huge page from a span, an arena block or straight
   from the OS; page frees; purges; forced collects; raw arena allocations; with every search / address / clock decision
   an argument) and every failure oracle `o` (refused mprotect calls); mmap refusals are arguments of the operations.

   Vocabulary
     st_live st = []   no page is live (every block was freed and its page released: what mi_free + mi_collect(true) reach)
     st_raw st = []    no other user of _mi_arena_alloc_aligned holds arena blocks
     ops_unmaps_ok ops every munmap the run asked for was granted (the unmap_ok arguments of OpFree and WNewOs)
     reset_state start nblocks iz st :=
         st_segs st = [] /\ st_live st = [] /\ st_raw st = [] /\
         a_start / a_nblocks / a_zero of the arena = start / nblocks / iz /\
         (forall b, a_inuse (st_arena st) b = false) /\
         (forall x, st_acc st x = true -> start <= x < start + nblocks * BLOCK_SLICES)
       i.e. state_init EXCEPT for a_committed, a_dirty, a_purge and the accessibility of slices INSIDE the arena, which
       depend on the history (Example C11_history shows that they differ) and are only bounded:
       C11_reset_committed_accessible, C11_all_freed_collect_purged.
     reset_class c start nblocks iz st := commit_Inv st /\ purge_cfg_ok c st /\ reset_state start nblocks iz st
       (purge_cfg_ok: a configuration that never schedules arena purges has no purge bit set).
   What the model cannot say: the ghost kernel records accessibility (PROT_READ|WRITE), not the existence of a PROT_NONE
   mapping; "an OS-backed segment is unmapped" is therefore "its range is not accessible and no segment owns it".
   The arena itself is never unmapped (mimalloc keeps arenas for the life of the process). *)
From Coq Require Import NArith List Bool.
From MiV Require Import Gen.Consts Model.Commit Model.GiveBack Proofs.CommitBase Proofs.CommitInv Proofs.CommitStep Proofs.CommitProofs
  Proofs.CommitGiveBack.
Import ListNotations.
Local Open Scope N_scope.
Local Open Scope bool_scope.

(* 1. once every page is freed and no raw arena allocation is held: there is no segment left, no arena block is in use --
      every range of blocks of the arena can be claimed again -- and, when every munmap was granted, no slice outside
      the arena is accessible in the ghost kernel *)
Theorem C11_all_freed_gives_back : forall c start nblocks is_committed is_zero ops o st' rs o',
  run c (state_init start nblocks is_committed is_zero) ops o = Some (st', rs, o') ->
  st_live st' = [] -> st_raw st' = [] ->
  st_segs st' = [] /\
  (forall b, a_inuse (st_arena st') b = false) /\
  (forall b0 n commit o1, 0 < n -> b0 + n <= nblocks ->
     exists r, arena_try_alloc_at (st_arena st') (st_acc st') b0 n commit o1 = Some r) /\
  (ops_unmaps_ok ops = true -> forall x, st_acc st' x = true -> start <= x < start + nblocks * BLOCK_SLICES).
Proof. exact all_freed_gives_back. Qed.
Print Assumptions C11_all_freed_gives_back.

(* in EVERY reachable state (not only all-freed ones): an in-use arena block has an owner that will release it -- a
   segment through its memid, or a raw allocation -- (the converse of the ownership clauses of commit_Inv) ... *)
Theorem C11_inuse_blocks_owned : forall c start nblocks is_committed is_zero ops o st rs o',
  run c (state_init start nblocks is_committed is_zero) ops o = Some (st, rs, o') ->
  forall b, a_inuse (st_arena st) b = true ->
    (exists s b0 nb, In s (st_segs st) /\ sg_mem s = MemArena b0 nb /\ b0 <= b < b0 + nb) \/
    (exists r, In r (st_raw st) /\ fst r <= b < fst r + snd r).
Proof. exact inuse_owned_reachable. Qed.
Print Assumptions C11_inuse_blocks_owned.

(* ... and with every munmap granted, memory outside the arena is accessible only inside a live OS-backed segment *)
Theorem C11_os_memory_accounted : forall c start nblocks is_committed is_zero ops o st rs o',
  run c (state_init start nblocks is_committed is_zero) ops o = Some (st, rs, o') -> ops_unmaps_ok ops = true ->
  forall x, st_acc st x = true -> ~ (start <= x < start + nblocks * BLOCK_SLICES) ->
  exists s, In s (st_segs st) /\ sg_mem s = MemOs /\ sg_base s <= x < sg_base s + sg_nslices s.
Proof. exact os_memory_accounted. Qed.
Print Assumptions C11_os_memory_accounted.

(* 2. the workload fixpoint.  The class of reset states contains the initial state of every arena and is closed under
      every workload that ends all-freed with its munmaps granted -- whatever the workload, its choices and the refusals
      it meets.  Hence running a workload again from the state an all-freed run ended in ends in the same class:
      same (empty) segment list, same arena geometry, same (empty) in-use bitmap, nothing accessible outside the arena;
      only a_committed / a_dirty / a_purge and accessibility inside the arena may differ. *)
Theorem C11_reset_class_init : forall c start nblocks is_committed is_zero,
  reset_class c start nblocks is_zero (state_init start nblocks is_committed is_zero).
Proof. exact reset_class_init. Qed.
Print Assumptions C11_reset_class_init.

Theorem C11_workload_fixpoint : forall c start nblocks is_zero st ops o st' rs o',
  reset_class c start nblocks is_zero st ->
  run c st ops o = Some (st', rs, o') -> st_live st' = [] -> st_raw st' = [] -> ops_unmaps_ok ops = true ->
  reset_class c start nblocks is_zero st'.
Proof. exact workload_fixpoint. Qed.
Print Assumptions C11_workload_fixpoint.

(* any number of repetitions of any workloads (run_reps threads the state and the oracle through the list): when every
   repetition ends all-freed, every repetition ends in the reset class *)
Theorem C11_workload_repeat : forall c start nblocks is_zero ws st o sts o',
  reset_class c start nblocks is_zero st ->
  run_reps c st ws o = Some (sts, o') ->
  Forall (fun w => ops_unmaps_ok w = true) ws ->
  Forall (fun s => st_live s = [] /\ st_raw s = []) sts ->
  Forall (reset_class c start nblocks is_zero) sts.
Proof. exact workload_repeat. Qed.
Print Assumptions C11_workload_repeat.

(* the components that are only bounded: a committed bit of a reset state means that the whole block is accessible *)
Theorem C11_reset_committed_accessible : forall c start nblocks is_zero st,
  reset_class c start nblocks is_zero st ->
  forall b x, b < nblocks -> a_committed (st_arena st) b = true ->
  start + b * BLOCK_SLICES <= x < start + b * BLOCK_SLICES + BLOCK_SLICES -> st_acc st x = true.
Proof. exact reset_committed_accessible. Qed.
Print Assumptions C11_reset_committed_accessible.

(* the purge clause (the Commit.v analogue of C11_forced_collect_purges_arena of Properties/C11.v, which is about
   Model/Purge.v): after mi_collect(true) no block of the arena that can be claimed is still scheduled for a purge.  It
   holds for every configuration: with mi_arena_purge_delay() <= 0 (purging disabled, or immediate) no block is ever
   scheduled (purge_cfg_ok), otherwise the forced mi_arenas_try_purge hands every scheduled free block to mi_arena_purge *)
Theorem C11_forced_collect_purges : forall c start nblocks is_committed is_zero ops o st rs o1 order st' r o',
  run c (state_init start nblocks is_committed is_zero) ops o = Some (st, rs, o1) ->
  step c st (OpCollect order) o1 = Some (st', r, o') ->
  forall b, b < nblocks -> a_inuse (st_arena st') b = false -> a_purge (st_arena st') b = false.
Proof. exact forced_collect_purges. Qed.
Print Assumptions C11_forced_collect_purges.

(* all freed, then the forced collect: nothing is owned, nothing is in use, nothing is scheduled *)
Theorem C11_all_freed_collect_purged : forall c start nblocks is_committed is_zero ops o st rs o1 order st' r o',
  run c (state_init start nblocks is_committed is_zero) ops o = Some (st, rs, o1) ->
  st_live st = [] -> st_raw st = [] ->
  step c st (OpCollect order) o1 = Some (st', r, o') ->
  st_segs st' = [] /\ st_live st' = [] /\ st_raw st' = [] /\
  forall b, b < nblocks -> a_inuse (st_arena st') b = false /\ a_purge (st_arena st') b = false.
Proof. exact all_freed_collect_purged. Qed.
Print Assumptions C11_all_freed_collect_purged.

(* the boolean forms that ocaml/mode_commit.ml evaluates on the model state kept in lockstep with the real allocator
   (harness/f_commit.c) say what the theorems say *)
Theorem C11_gave_back_b_iff : forall st,
  gave_back_b st = true <-> st_segs st = [] /\ forall b, b < a_nblocks (st_arena st) -> a_inuse (st_arena st) b = false.
Proof. exact gave_back_b_iff. Qed.
Print Assumptions C11_gave_back_b_iff.

Theorem C11_reachable_checks : forall c start nblocks is_committed is_zero ops o st rs o',
  run c (state_init start nblocks is_committed is_zero) ops o = Some (st, rs, o') ->
  inuse_owned_b st = true /\ (all_freed_b st = true -> gave_back_b st = true).
Proof. exact reachable_checks. Qed.
Print Assumptions C11_reachable_checks.

Theorem C11_collect_check : forall c start nblocks is_committed is_zero ops o st rs o1 order st' r o',
  run c (state_init start nblocks is_committed is_zero) ops o = Some (st, rs, o1) ->
  step c st (OpCollect order) o1 = Some (st', r, o') -> no_purge_scheduled_b (st_arena st') = true.
Proof. exact collect_check. Qed.
Print Assumptions C11_collect_check.

(* ---------------------------------------------------------------- non-vacuity *)
(* 3. a history on an arena of 4 blocks over inaccessible memory: two normal segments (blocks 2 and 0), a huge page
      (block 1), an OS-backed segment at slice 100000, a fresh segment on block 3 whose first span commit is REFUSED (the
      malloc returns NULL and the segment is freed again), a span commit in segment B refused once (restore path, forced
      collect, retry granted); then every page is freed and the heap force-collected.
      gb_summary = ([all_freed_b; gave_back_b; commit_inv_b; inuse_owned_b; no_purge_scheduled_b; nothing accessible in the
                     former OS-backed segment; ops_unmaps_ok],
                    [answers left; pages handed out; mallocs that returned NULL],
                    [a_dirty 0; a_dirty 3; a_committed 1; block 1 accessible; slice 100000 accessible])
      the last list is what is NOT reset (state_init has false everywhere); with a protecting purge (ex_cfg_decommit) the
      committed bit and the accessibility of block 1 are gone again *)
Example C11_history : gb_summary ex_cfg =
  Some ([true; true; true; true; true; true; true], [0; 5; 1], [true; true; true; true; false]).
Proof. exact gb_history_release. Qed.
Example C11_history_decommit : gb_summary ex_cfg_decommit =
  Some ([true; true; true; true; true; true; true], [0; 5; 1], [true; true; false; false; false]).
Proof. exact gb_history_decommit. Qed.

(* the pre-repair mi_segments_page_alloc (`segments_page_alloc_old`, Proofs/CommitProofs.v; repaired in /repo by 6850786)
   violates C11_all_freed_gives_back: after a malloc whose first span commit in a fresh segment is refused, and a forced
   collect, no page is live and no raw allocation is held, the state satisfies commit_Inv and (U), but the segment and
   its arena block 2 stay:  [all_freed_b; no_segment_b; gave_back_b; commit_inv_b; inuse_owned_b; blocks_inuse bit 2] *)
Example C11_old_code_does_not_give_back :
  gb_after_collect (segments_page_alloc_old ex_cfg ex_state 8 false [WNewArena 2; WSpan gb_segA 1 1 511] [true; false])
    = Some [true; false; false; true; true; true] /\
  gb_after_collect (segments_page_alloc ex_cfg ex_state 8 false [WNewArena 2; WSpan gb_segA 1 1 511] [true; false])
    = Some [true; true; true; true; true; false].
Proof. exact old_code_does_not_give_back. Qed.
