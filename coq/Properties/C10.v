(* Property C10 (sequential part) -- first-class heaps: mi_heap_delete migrates, mi_heap_destroy frees
   exactly its own blocks, ownership queries, default-heap fallback, heap descriptors.
   The clause about deleting / collecting a heap while other threads free into it is stated and proved
   over the interleaving model (Model/TFree.v), not here.
   This file contains only statements, each closed by `exact <lemma>`, Print Assumptions, and Examples. *)
From Coq Require Import NArith List Bool Permutation.
From MiV Require Import Gen.Consts Model.Arith Model.Heap Proofs.HeapBase Proofs.HeapOps Proofs.HeapDel Proofs.HeapProofs.
Import ListNotations.
Local Open Scope N_scope.

(* ---- the invariant (Appendix A.2 for every heap of the thread) ------------------------------------ *)

(* the boolean invariant evaluated on heap dumps of the implementation is the invariant *)
Theorem C10_heap_inv_b_spec : forall s, heap_inv_b s = true <-> heap_Inv s.
Proof. exact heap_inv_b_spec. Qed.
Print Assumptions C10_heap_inv_b_spec.

(* "every page id occurs in exactly one queue of exactly one heap" *)
Theorem C10_page_in_exactly_one_queue : forall s h hp i h' hp' i' p, heap_Inv s ->
  get_heap s h = Some hp -> In p (qget (queues hp) i) ->
  get_heap s h' = Some hp' -> In p (qget (queues hp') i') -> h = h' /\ i = i'.
Proof. exact inv_queue_unique. Qed.
Print Assumptions C10_page_in_exactly_one_queue.

Theorem C10_heap_inv_init : forall k tg ar, heap_Inv (heap_init k tg ar).
Proof. exact heap_inv_init. Qed.
Print Assumptions C10_heap_inv_init.

(* every operation (heap_new, malloc, free, to-full, page free, delete, destroy -- also of an
   incompatible heap or of the backing heap --, set_default), with every oracle choice *)
Theorem C10_heap_inv_preserved : forall s o s', heap_Inv s -> heap_step s o = Some s' -> heap_Inv s'.
Proof. exact heap_inv_preserved. Qed.
Print Assumptions C10_heap_inv_preserved.

(* hence all histories *)
Theorem C10_heap_inv_reachable : forall k tg ar ops s, heap_run (heap_init k tg ar) ops = Some s -> heap_Inv s.
Proof. exact heap_inv_reachable. Qed.
Print Assumptions C10_heap_inv_reachable.

(* ---- mi_heap_visit_pages ------------------------------------------------------------------------- *)
Theorem C10_visit_all_queues_once : forall s h hp, heap_Inv s -> get_heap s h = Some hp ->
  NoDup (heap_visit_pages s h) /\
  (forall p, In p (heap_visit_pages s h) <-> exists pi, get_page s p = Some pi /\ pheap pi = Some h) /\
  (forall i p, In p (qget (queues hp) i) -> In p (heap_visit_pages s h)).
Proof. exact visit_all_queues_once. Qed.
Print Assumptions C10_visit_all_queues_once.

(* ---- mi_heap_delete ------------------------------------------------------------------------------- *)
Theorem C10_delete_preserves_live : forall s h hp bp s',
  heap_Inv s -> get_heap s h = Some hp -> get_heap s (backing s) = Some bp -> h <> backing s ->
  heaps_compatible bp hp = true -> heap_delete s h = Some s' ->
  exists d, find_desc (descs s) h = Some d /\
    Permutation (live_blocks s) (d :: live_blocks s') /\
    (forall b, In b (live_blocks s') ->
       heap_of_block s' b = if opt_eqb (heap_of_block s b) (Some h) then Some (backing s) else heap_of_block s b) /\
    (forall b, In b (live_blocks s') ->
       find_home (home s') b =
       option_map (fun oh => if opt_eqb oh (Some h) then Some (backing s) else oh) (find_home (home s) b)) /\
    (forall b, In b (live_blocks s') -> heap_of_block s' b <> None -> block_freeable s' b) /\
    ~ In h (heap_ids s') /\ (forall k, k <> h -> (In k (heap_ids s') <-> In k (heap_ids s))) /\
    backing s' = backing s /\ descs s' = filter (fun kv => negb (fst kv =? h)) (descs s) /\ heap_Inv s'.
Proof. exact delete_preserves_live. Qed.
Print Assumptions C10_delete_preserves_live.

(* "individually freeable": mi_free of such a block finds its page in the queue mi_page_queue_of computes,
   does not fault and succeeds *)
Theorem C10_freeable_free_ok : forall s b sl, block_freeable s b ->
  free_faults s b sl = false /\ exists s', block_free s b sl = Some s'.
Proof. exact freeable_free_ok. Qed.
Print Assumptions C10_freeable_free_ok.

(* the hypotheses are consistent: under the invariants the delete succeeds *)
Theorem C10_delete_succeeds : forall s h hp bp, heap_Inv s -> descs_Inv s -> get_heap s h = Some hp ->
  get_heap s (backing s) = Some bp -> h <> backing s -> heaps_compatible bp hp = true ->
  exists s', heap_delete s h = Some s'.
Proof. exact delete_succeeds. Qed.
Print Assumptions C10_delete_succeeds.

(* what the code does for a heap that is not compatible with the backing heap (other tag or arena):
   pages with live blocks lose their heap.  No freeability is claimed here -- see C10_delete_incompatible_refuted *)
Theorem C10_delete_incompatible_abandons : forall s h hp bp s',
  heap_Inv s -> get_heap s h = Some hp -> get_heap s (backing s) = Some bp -> h <> backing s ->
  heaps_compatible bp hp = false -> heap_delete s h = Some s' ->
  (forall p pi, get_page s p = Some pi -> pheap pi = Some h -> blocks pi <> [] ->
     (forall d, find_desc (descs s) h = Some d -> ~ In d (blocks pi)) ->
     get_page s' p = Some (set_pheap None (set_in_full false pi)) /\
     (forall k hk i, get_heap s' k = Some hk -> ~ In p (qget (queues hk) i)) /\
     (forall b, In b (blocks pi) -> In b (live_blocks s') /\ heap_of_block s' b = None)) /\
  (forall p pi, get_page s p = Some pi -> pheap pi = Some h -> blocks pi = [] -> get_page s' p = None) /\
  ~ In h (heap_ids s') /\ heap_Inv s'.
Proof. exact delete_incompatible_abandons. Qed.
Print Assumptions C10_delete_incompatible_abandons.

(* known finding impl:heap-delete-incompatible: a history after which a live block's local free faults *)
Theorem C10_delete_incompatible_refuted :
  exists ops s b, heap_run (heap_init 0 0 0) ops = Some s /\ heap_inv_b s = true /\ desc_inv_b s = true /\
                  inb b (live_blocks s) = true /\ heap_of_block s b = None /\
                  free_faults s b true = true /\ heap_step s (OpFree b true) = None.
Proof. exact delete_incompatible_refuted. Qed.
Print Assumptions C10_delete_incompatible_refuted.

(* ---- mi_heap_destroy ------------------------------------------------------------------------------ *)
Theorem C10_destroy_exactly_own : forall s h hp s',
  heap_Inv s -> get_heap s h = Some hp -> no_reclaim hp = true -> h <> backing s -> heap_destroy s h = Some s' ->
  exists d pd pid, find_desc (descs s) h = Some d /\
    get_page s pd = Some pid /\ In d (blocks pid) /\ pheap pid <> Some h /\
    Permutation (live_blocks s) (d :: blocks_of_heap s h ++ live_blocks s') /\
    (forall q qi, get_page s q = Some qi -> pheap qi <> Some h -> q <> pd -> get_page s' q = Some qi) /\
    (forall q qi', get_page s' q = Some qi' ->
       exists qi, get_page s q = Some qi /\ pheap qi <> Some h /\ pheap qi' = pheap qi /\ incl (blocks qi') (blocks qi)) /\
    (forall q qi x, get_page s q = Some qi -> pheap qi <> Some h -> In x (blocks qi) -> x <> d ->
       exists qi', get_page s' q = Some qi' /\ pheap qi' = pheap qi /\ In x (blocks qi')) /\
    (forall k, k <> h -> pheap pid <> Some k -> get_heap s' k = get_heap s k) /\
    (forall k hk hk' i q, k <> h -> get_heap s k = Some hk -> get_heap s' k = Some hk' -> q <> pd ->
       (In q (qget (queues hk') i) <-> In q (qget (queues hk) i))) /\
    ~ In h (heap_ids s') /\ (forall k, k <> h -> (In k (heap_ids s') <-> In k (heap_ids s))) /\
    backing s' = backing s /\ descs s' = filter (fun kv => negb (fst kv =? h)) (descs s) /\ heap_Inv s'.
Proof. exact destroy_exactly_own. Qed.
Print Assumptions C10_destroy_exactly_own.

(* ---- ownership queries ---------------------------------------------------------------------------- *)
Theorem C10_contains_block_spec : forall s h b, heap_Inv s -> In b (live_blocks s) -> In h (heap_ids s) ->
  (heap_contains_block s h b = true <->
     exists p pi, get_page s p = Some pi /\ In b (blocks pi) /\ pheap pi = Some h) /\
  (heap_contains_block s h b = true <-> find_home (home s) b = Some (Some h)).
Proof. exact contains_block_spec. Qed.
Print Assumptions C10_contains_block_spec.

(* the ghost home heap is written by the allocation and rewritten only by delete (C10_delete_preserves_live) *)
Theorem C10_malloc_sets_home : forall s h bin b c s', block_malloc s h bin b c = Some s' ->
  find_home (home s') b = Some (Some h) /\ (forall b', b' <> b -> find_home (home s') b' = find_home (home s) b').
Proof. exact malloc_sets_home. Qed.
Print Assumptions C10_malloc_sets_home.

Theorem C10_check_owned_spec : forall s h b, heap_Inv s -> In b (live_blocks s) ->
  N.land b (MI_INTPTR_SIZE - 1) = 0 -> heap_check_owned s h b = heap_contains_block s h b.
Proof. exact check_owned_spec. Qed.
Print Assumptions C10_check_owned_spec.

(* ---- default heap --------------------------------------------------------------------------------- *)
Theorem C10_default_falls_back : forall s h s', heap_Inv s -> In h (heap_ids s) ->
  (heap_delete s h = Some s' \/ heap_destroy s h = Some s') ->
  default s' = (if default s =? h then backing s else default s) /\ backing s' = backing s.
Proof. exact default_falls_back. Qed.
Print Assumptions C10_default_falls_back.

Theorem C10_default_unchanged : forall s o s', heap_step s o = Some s' ->
  match o with OpDelete _ | OpDestroy _ | OpSetDefault _ => True | _ => default s' = default s /\ backing s' = backing s end.
Proof. exact default_unchanged. Qed.
Print Assumptions C10_default_unchanged.

(* ---- heap descriptors ----------------------------------------------------------------------------- *)
Theorem C10_heap_struct_is_backing_block : forall k tg ar ops s,
  heap_run_safe (heap_init k tg ar) ops = Some s ->
  heap_Inv s /\
  forall h, In h (heap_ids s) -> h <> backing s ->
    exists d p pi, find_desc (descs s) h = Some d /\ get_page s p = Some pi /\ In d (blocks pi) /\
                   pheap pi = Some (backing s) /\ In d (live_blocks s) /\ heap_contains_block s (backing s) d = true.
Proof. exact heap_struct_is_backing_block. Qed.
Print Assumptions C10_heap_struct_is_backing_block.

(* ---- non-vacuity: a concrete history ---------------------------------------------------------------
   heap 0 = backing; heap 1 = mi_heap_new (no_reclaim); heap 2 = mi_heap_new_ex(0,false,none).
   Pages 10 (heap 0, bin 5), 11 (heap 0, descriptor size class, holds both descriptors 5000 and 8080),
   12 (heap 1, bin 5, two blocks), 13 (heap 2, bin 5, moved to the FULL queue), 14 (heap 2, bin 7),
   15 (heap 2, bin 5); heap 2 is the default heap. *)
Definition ex_ops : list heap_op :=
  [ OpMalloc 0 5 1000 (MFresh 10 1000 1000 100);
    OpNew 1 true 0 0 5000 (MFresh 11 5000 10000 4000);
    OpNew 2 false 0 0 8080 (MUse 11 8000);
    OpMalloc 1 5 20000 (MFresh 12 20000 1000 100);
    OpMalloc 1 5 20008 (MUse 12 100);
    OpMalloc 2 5 30000 (MFresh 13 30000 1000 100);
    OpMalloc 2 7 40000 (MFresh 14 40000 1000 100);
    OpToFull 13;
    OpMalloc 2 5 31000 (MFresh 15 31000 1000 100);
    OpSetDefault 2 ].

Definition ex_show (s : state) :=
  (map (fun hp => (h_id hp, page_count hp,
                   filter (fun iq => negb (is_nil (snd iq))) (map (fun i => (i, qget (queues hp) i)) all_bins))) (heaps s),
   map (fun kv => (fst kv, pheap (snd kv), in_full (snd kv), blocks (snd kv))) (pages s), default s, descs s).

Example C10_ex_state :
  option_map (fun s => (ex_show s, heap_inv_b s, desc_inv_b s)) (heap_run_safe (heap_init 0 0 0) ex_ops)
  = Some (([(2, 3, [(5, [15]); (7, [14]); (MI_BIN_FULL, [13])]); (1, 1, [(5, [12])]); (0, 2, [(5, [10]); (desc_bin, [11])])],
           [(15, Some 2, false, [31000]); (14, Some 2, false, [40000]); (13, Some 2, true, [30000]);
            (12, Some 1, false, [20008; 20000]); (11, Some 0, false, [8080; 5000]); (10, Some 0, false, [1000])],
           2, [(2, 8080); (1, 5000)]), true, true).
Proof. vm_compute. reflexivity. Qed.

(* ownership queries before the delete: block 30000 lies in a page of the FULL queue of heap 2 *)
Example C10_ex_owned :
  option_map (fun s => (map (fun h => (heap_contains_block s h 30000, heap_check_owned s h 30000)) [0; 1; 2],
                        heap_check_owned s 2 30001, heap_of_block s 20008, heap_visit_pages s 2))
             (heap_run_safe (heap_init 0 0 0) ex_ops)
  = Some ([(false, false); (false, false); (true, true)], false, Some 1, [15; 14; 13]).
Proof. vm_compute. reflexivity. Qed.

(* mi_heap_delete(2): compatible with the backing heap; its pages are appended behind the backing heap's
   pages queue by queue (bin 5: [10] ++ [15]), the full page stays in the FULL queue and now belongs to
   heap 0, the descriptor 8080 is gone, every other block is still live, the default fell back to 0 *)
Example C10_ex_delete :
  option_map (fun s => (ex_show s, heap_inv_b s, desc_inv_b s,
                        (heap_of_block s 30000, heap_check_owned s 0 30000, heap_of_block s 20000),
                        inb 8080 (live_blocks s), length (live_blocks s)))
             (heap_run_safe (heap_init 0 0 0) (ex_ops ++ [OpDelete 2]))
  = Some (([(1, 1, [(5, [12])]); (0, 5, [(5, [10; 15]); (7, [14]); (desc_bin, [11]); (MI_BIN_FULL, [13])])],
           [(15, Some 0, false, [31000]); (14, Some 0, false, [40000]); (13, Some 0, true, [30000]);
            (12, Some 1, false, [20008; 20000]); (11, Some 0, false, [5000]); (10, Some 0, false, [1000])],
           0, [(1, 5000)]), true, true, (Some 0, true, Some 1), false, 7%nat).
Proof. vm_compute. reflexivity. Qed.

(* the hypotheses of C10_delete_preserves_live hold in the state before the delete *)
Example C10_ex_delete_hyps :
  option_map (fun s => match get_heap s 2, get_heap s (backing s) with
                       | Some hp, Some bp => (heaps_compatible bp hp, negb (2 =? backing s), op_safe s (OpDelete 2))
                       | _, _ => (false, false, false) end)
             (heap_run_safe (heap_init 0 0 0) ex_ops)
  = Some (true, true, true).
Proof. vm_compute. reflexivity. Qed.

(* then mi_heap_destroy(1): exactly the two blocks of heap 1 and its descriptor 5000 disappear; page 11
   (only the descriptor class page of the backing heap) becomes empty and is retired, i.e. kept; all
   other heaps and pages are untouched; a later free of the migrated block 30000 (FULL queue, last
   block) frees page 13, and a free of 1000 frees page 10 because the queue holds another page *)
Example C10_ex_destroy :
  option_map (fun s => (ex_show s, heap_inv_b s, desc_inv_b s))
             (heap_run_safe (heap_init 0 0 0) (ex_ops ++ [OpDelete 2; OpDestroy 1]))
  = Some (([(0, 5, [(5, [10; 15]); (7, [14]); (desc_bin, [11]); (MI_BIN_FULL, [13])])],
           [(15, Some 0, false, [31000]); (14, Some 0, false, [40000]); (13, Some 0, true, [30000]);
            (11, Some 0, false, []); (10, Some 0, false, [1000])],
           0, []), true, true).
Proof. vm_compute. reflexivity. Qed.

Example C10_ex_free_after :
  option_map (fun s => (ex_show s, heap_inv_b s))
             (heap_run_safe (heap_init 0 0 0) (ex_ops ++ [OpDelete 2; OpDestroy 1; OpFree 30000 true; OpFree 1000 true]))
  = Some (([(0, 3, [(5, [15]); (7, [14]); (desc_bin, [11])])],
           [(15, Some 0, false, [31000]); (14, Some 0, false, [40000]); (11, Some 0, false, [])], 0, []), true).
Proof. vm_compute. reflexivity. Qed.

(* a descriptor page in the FULL queue: the free of the descriptor by mi_heap_delete unfulls it to the
   END of its size-class queue (the case the replay of the heap dumps allows for) *)
Example C10_ex_desc_unfull :
  option_map (fun s => (ex_show s, heap_inv_b s, desc_inv_b s))
             (heap_run_safe (heap_init 0 0 0)
                [ OpNew 1 true 0 0 5000 (MFresh 11 5000 10000 4000);
                  OpMalloc 0 desc_bin 8080 (MUse 11 8000);
                  OpToFull 11;
                  OpMalloc 0 desc_bin 50000 (MFresh 16 50000 10000 4000);
                  OpDelete 1 ])
  = Some (([(0, 2, [(desc_bin, [16; 11])])],
           [(16, Some 0, false, [50000]); (11, Some 0, false, [8080])], 0, []), true, true).
Proof. vm_compute. reflexivity. Qed.
