(* Property C16, second file -- the functions GENERATED from /repo's C source (Gen/Funcs.v, written by
   tools/c2gallina.py from clang's AST on every run) agree with the hand-written models of Model/Arith.v
   (Model/Bitmap.v, Model/Span.v) on the whole 64-bit range, evaluate no undefined C operation on the domain
   the allocator uses (c_<fn>_ok), and satisfy the main C16 laws directly.
   Only statements, each closed by `exact <lemma>`, and Print Assumptions. *)
From Coq Require Import NArith ZArith List.
From MiV Require Import Gen.Consts Gen.Bins Model.Arith Model.CSem Gen.Funcs Proofs.Base Proofs.ArithSweeps Proofs.GenEquiv.
From MiV Require Model.Span Model.Bitmap Model.Bind.
Local Open Scope N_scope.

(* ---- one equivalence theorem per translated function ---- *)
Theorem C16gen_wsize_from_size_eq : forall size, c__mi_wsize_from_size size = wsize_from_size size.
Proof. exact c__mi_wsize_from_size_eq. Qed.
Print Assumptions C16gen_wsize_from_size_eq.

Theorem C16gen_clz_eq : forall x, x < W64 -> c_mi_clz x = clz x.
Proof. exact c_mi_clz_eq. Qed.
Print Assumptions C16gen_clz_eq.

Theorem C16gen_ctz_eq : forall x, x < W64 -> c_mi_ctz x = ctz x.
Proof. exact c_mi_ctz_eq. Qed.
Print Assumptions C16gen_ctz_eq.

Theorem C16gen_bsr_eq : forall x, x < W64 -> c_mi_bsr x = bsr x.
Proof. exact c_mi_bsr_eq. Qed.
Print Assumptions C16gen_bsr_eq.

Theorem C16gen_is_power_of_two_eq : forall x, c__mi_is_power_of_two x = is_power_of_two x.
Proof. exact c__mi_is_power_of_two_eq. Qed.
Print Assumptions C16gen_is_power_of_two_eq.

Theorem C16gen_align_up_eq : forall sz alignment, sz < W64 -> alignment < W64 ->
  c__mi_align_up sz alignment = align_up sz alignment.
Proof. exact c__mi_align_up_eq. Qed.
Print Assumptions C16gen_align_up_eq.

Theorem C16gen_align_down_eq : forall sz alignment, sz < W64 -> alignment < W64 ->
  c__mi_align_down sz alignment = align_down sz alignment.
Proof. exact c__mi_align_down_eq. Qed.
Print Assumptions C16gen_align_down_eq.

Theorem C16gen_divide_up_eq : forall size divider, size < W64 -> divider < W64 ->
  c__mi_divide_up size divider = divide_up size divider.
Proof. exact c__mi_divide_up_eq. Qed.
Print Assumptions C16gen_divide_up_eq.

(* _mi_clamp has no hand model: its law *)
Theorem C16gen_clamp : forall sz lo hi, lo <= hi ->
  lo <= c__mi_clamp sz lo hi <= hi /\ (lo <= sz <= hi -> c__mi_clamp sz lo hi = sz).
Proof. exact c__mi_clamp_spec. Qed.
Print Assumptions C16gen_clamp.

Theorem C16gen_mul_overflow_eq : forall count size, c_mi_mul_overflow count size = mul_overflow count size.
Proof. exact c_mi_mul_overflow_eq. Qed.
Print Assumptions C16gen_mul_overflow_eq.

Theorem C16gen_count_size_overflow_eq : forall count size,
  c_mi_count_size_overflow count size = count_size_overflow count size.
Proof. exact c_mi_count_size_overflow_eq. Qed.
Print Assumptions C16gen_count_size_overflow_eq.

(* mi_bin: equal to the model for EVERY 64-bit size, and free of undefined operations (the shift counts
   b-2 and 2, and __builtin_clzl's argument, are in range on every path) *)
Theorem C16gen_bin_eq : forall s, s < W64 -> c_mi_bin s = mi_bin s /\ c_mi_bin_ok s = true.
Proof. exact c_mi_bin_eq_ok. Qed.
Print Assumptions C16gen_bin_eq.

Theorem C16gen_bin_size_eq : forall b, c__mi_bin_size b = bin_size b.
Proof. exact c__mi_bin_size_eq. Qed.
Print Assumptions C16gen_bin_size_eq.

(* the table read _mi_heap_empty.pages[bin] is inside the array for every queue index *)
Theorem C16gen_bin_size_in_bounds : forall b, b <= MI_BIN_FULL -> c__mi_bin_size_ok b = true.
Proof. exact c__mi_bin_size_ok_dom. Qed.
Print Assumptions C16gen_bin_size_in_bounds.

Theorem C16gen_good_size_eq : forall s, s < W64 -> c_mi_good_size s = good_size s /\ c_mi_good_size_ok s = true.
Proof. exact c_mi_good_size_eq_ok. Qed.
Print Assumptions C16gen_good_size_eq.

Theorem C16gen_os_good_alloc_size_eq : forall size, size < W64 ->
  c__mi_os_good_alloc_size size = os_good_alloc_size size.
Proof. exact c__mi_os_good_alloc_size_eq. Qed.
Print Assumptions C16gen_os_good_alloc_size_eq.

Theorem C16gen_os_good_alloc_size_ok : forall size, c__mi_os_good_alloc_size_ok size = true.
Proof. exact c__mi_os_good_alloc_size_ok_all. Qed.
Print Assumptions C16gen_os_good_alloc_size_ok.

Theorem C16gen_slice_bin8_eq : forall c, c < W64 -> c_mi_slice_bin8 c = slice_bin8 c.
Proof. exact c_mi_slice_bin8_eq. Qed.
Print Assumptions C16gen_slice_bin8_eq.

Theorem C16gen_slice_bin_eq : forall c, c < W64 -> c_mi_slice_bin c = slice_bin8 c.
Proof. exact c_mi_slice_bin_eq. Qed.
Print Assumptions C16gen_slice_bin_eq.

Theorem C16gen_ptr_segment_eq : forall p, p < W64 -> c__mi_ptr_segment p = ptr_segment p.
Proof. exact c__mi_ptr_segment_eq. Qed.
Print Assumptions C16gen_ptr_segment_eq.

Theorem C16gen_get_fast_divisor_eq : forall d, d < W64 -> c_mi_get_fast_divisor d = fast_divisor d.
Proof. exact c_mi_get_fast_divisor_eq. Qed.
Print Assumptions C16gen_get_fast_divisor_eq.

Theorem C16gen_fast_divide_eq : forall n magic shift, c_mi_fast_divide n magic shift = fast_divide n magic shift.
Proof. exact c_mi_fast_divide_eq. Qed.
Print Assumptions C16gen_fast_divide_eq.

(* _mi_page_ptr_unalign: the fields page->page_start, page->block_size_shift and mi_page_block_size(page)
   are arguments of the generated function; the shift stored by mi_page_init is block_size_shift bs *)
Theorem C16gen_page_ptr_unalign_eq : forall p page_start bs, p < W64 -> page_start < W64 ->
  c__mi_page_ptr_unalign p page_start (block_size_shift bs) bs = ptr_unalign page_start bs p.
Proof. exact c__mi_page_ptr_unalign_eq. Qed.
Print Assumptions C16gen_page_ptr_unalign_eq.

Theorem C16gen_page_ptr_unalign_ok : forall p page_start bs, page_start <= p -> p < 2 ^ 63 -> 0 < bs -> bs < W64 ->
  c__mi_page_ptr_unalign_ok p page_start (block_size_shift bs) bs = true.
Proof. exact c__mi_page_ptr_unalign_ok_dom. Qed.
Print Assumptions C16gen_page_ptr_unalign_ok.

(* bitmap index helpers and mask (models of Model/Bitmap.v, used by C14/C15/C18) *)
Theorem C16gen_bitmap_index_create_eq : forall idx bitidx, idx * 64 + bitidx < W64 ->
  c_mi_bitmap_index_create idx bitidx = Bitmap.index_create idx bitidx.
Proof. exact c_mi_bitmap_index_create_eq. Qed.
Print Assumptions C16gen_bitmap_index_create_eq.

Theorem C16gen_bitmap_index_create_ex_eq : forall idx bitidx, idx * 64 + bitidx < W64 ->
  c_mi_bitmap_index_create_ex idx bitidx = Bitmap.index_create idx bitidx.
Proof. exact c_mi_bitmap_index_create_ex_eq. Qed.
Print Assumptions C16gen_bitmap_index_create_ex_eq.

Theorem C16gen_bitmap_index_create_from_bit_eq : forall i, i < W64 ->
  c_mi_bitmap_index_create_from_bit i = Bitmap.index_create_from_bit i /\ c_mi_bitmap_index_create_from_bit i = i.
Proof. exact c_mi_bitmap_index_create_from_bit_eq. Qed.
Print Assumptions C16gen_bitmap_index_create_from_bit_eq.

Theorem C16gen_bitmap_index_field_eq : forall i, c_mi_bitmap_index_field i = Bitmap.index_field i.
Proof. exact c_mi_bitmap_index_field_eq. Qed.
Print Assumptions C16gen_bitmap_index_field_eq.

Theorem C16gen_bitmap_index_bit_in_field_eq : forall i, c_mi_bitmap_index_bit_in_field i = Bitmap.index_bit_in_field i.
Proof. exact c_mi_bitmap_index_bit_in_field_eq. Qed.
Print Assumptions C16gen_bitmap_index_bit_in_field_eq.

Theorem C16gen_bitmap_index_bit_eq : forall i, c_mi_bitmap_index_bit i = Bitmap.index_bit i.
Proof. exact c_mi_bitmap_index_bit_eq. Qed.
Print Assumptions C16gen_bitmap_index_bit_eq.

Theorem C16gen_bitmap_index_roundtrip : forall idx bitidx, bitidx < 64 -> idx * 64 + bitidx < W64 ->
  c_mi_bitmap_index_field (c_mi_bitmap_index_create idx bitidx) = idx /\
  c_mi_bitmap_index_bit_in_field (c_mi_bitmap_index_create idx bitidx) = bitidx.
Proof. exact c_bitmap_index_roundtrip. Qed.
Print Assumptions C16gen_bitmap_index_roundtrip.

Theorem C16gen_bitmap_mask_eq : forall count bitidx, c_mi_bitmap_mask_ count bitidx = Bitmap.mask_ count bitidx.
Proof. exact c_mi_bitmap_mask__eq. Qed.
Print Assumptions C16gen_bitmap_mask_eq.

Theorem C16gen_bitmap_mask_spec : forall count bitidx, 0 < count -> count + bitidx <= 64 ->
  c_mi_bitmap_mask_ count bitidx = (2 ^ count - 1) * 2 ^ bitidx /\ c_mi_bitmap_mask__ok count bitidx = true.
Proof. exact c_mi_bitmap_mask__spec. Qed.
Print Assumptions C16gen_bitmap_mask_spec.

Theorem C16gen_segment_calculate_slices_eq : forall required, required < W64 ->
  c_mi_segment_calculate_slices required = Span.calculate_slices required.
Proof. exact c_mi_segment_calculate_slices_eq. Qed.
Print Assumptions C16gen_segment_calculate_slices_eq.

Theorem C16gen_segment_calculate_slices_ok : forall required, c_mi_segment_calculate_slices_ok required = true.
Proof. exact c_mi_segment_calculate_slices_ok_all. Qed.
Print Assumptions C16gen_segment_calculate_slices_ok.

(* arena ids and arena block arithmetic (models of Model/Bind.v, used by C14/C15); `int` values are Z,
   "no signed overflow" is part of the _ok twin *)
Theorem C16gen_arena_id_none_eq : c__mi_arena_id_none = Bind.arena_id_none.
Proof. exact c__mi_arena_id_none_eq. Qed.
Print Assumptions C16gen_arena_id_none_eq.

Theorem C16gen_arena_id_index_eq : forall id, (- 2 ^ 31 <= id < 2 ^ 31)%Z ->
  c_mi_arena_id_index id = Bind.arena_id_index id /\ c_mi_arena_id_index_ok id = true.
Proof. exact c_mi_arena_id_index_eq. Qed.
Print Assumptions C16gen_arena_id_index_eq.

Theorem C16gen_arena_id_create_eq : forall idx, idx < MI_MAX_ARENAS ->
  c_mi_arena_id_create idx = Bind.arena_id_create idx /\ c_mi_arena_id_create_ok idx = true.
Proof. exact c_mi_arena_id_create_eq. Qed.
Print Assumptions C16gen_arena_id_create_eq.

Theorem C16gen_arena_id_is_suitable_eq : forall aid ex req,
  c_mi_arena_id_is_suitable aid ex req = Bind.arena_id_is_suitable aid ex req.
Proof. exact c_mi_arena_id_is_suitable_eq. Qed.
Print Assumptions C16gen_arena_id_is_suitable_eq.

Theorem C16gen_block_count_of_size_eq : forall size, size < W64 ->
  c_mi_block_count_of_size size = Bind.block_count_of_size size /\ c_mi_block_count_of_size_ok size = true.
Proof. exact c_mi_block_count_of_size_eq. Qed.
Print Assumptions C16gen_block_count_of_size_eq.

Theorem C16gen_arena_block_size : forall bcount, bcount * MI_ARENA_BLOCK_SIZE < W64 ->
  c_mi_arena_block_size bcount = bcount * MI_ARENA_BLOCK_SIZE.
Proof. exact c_mi_arena_block_size_spec. Qed.
Print Assumptions C16gen_arena_block_size.

(* ---- the main C16 laws, directly about the generated functions and the generated size table ---- *)
Theorem C16gen_bin_size_ge : forall s, s <= MI_MEDIUM_OBJ_SIZE_MAX ->
  s <= c__mi_bin_size (c_mi_bin s) /\ 1 <= c_mi_bin s < MI_BIN_HUGE.
Proof. exact gen_bin_size_ge. Qed.
Print Assumptions C16gen_bin_size_ge.

Theorem C16gen_bin_size_ge_all : forall s, s + 7 < W64 ->
  (s <= MI_MEDIUM_OBJ_SIZE_MAX /\ s <= c__mi_bin_size (c_mi_bin s)) \/
  (MI_MEDIUM_OBJ_SIZE_MAX < s /\ c_mi_bin s = MI_BIN_HUGE).
Proof. exact gen_bin_size_ge_all. Qed.
Print Assumptions C16gen_bin_size_ge_all.

Theorem C16gen_bin_monotone : forall s1 s2, s1 <= s2 -> s2 + 7 < W64 -> c_mi_bin s1 <= c_mi_bin s2.
Proof. exact gen_bin_monotone. Qed.
Print Assumptions C16gen_bin_monotone.

Theorem C16gen_bin_tight : forall s, 64 < s -> s <= MI_MEDIUM_OBJ_SIZE_MAX -> c__mi_bin_size (c_mi_bin s - 1) < s.
Proof. exact gen_bin_tight. Qed.
Print Assumptions C16gen_bin_tight.

Theorem C16gen_fragmentation_le_25 : forall s, 64 < s -> s <= MI_MEDIUM_OBJ_SIZE_MAX ->
  4 * (c__mi_bin_size (c_mi_bin s) - s) <= s.
Proof. exact gen_fragmentation_le_25. Qed.
Print Assumptions C16gen_fragmentation_le_25.

Theorem C16gen_good_size : forall s, s <= 2 * MI_MEDIUM_OBJ_SIZE_MAX ->
  s <= c_mi_good_size s /\ c_mi_good_size (c_mi_good_size s) = c_mi_good_size s /\
  (s <= MI_MEDIUM_OBJ_SIZE_MAX -> c_mi_good_size s = c__mi_bin_size (c_mi_bin s)).
Proof. exact gen_good_size. Qed.
Print Assumptions C16gen_good_size.

Theorem C16gen_slice_bin : forall c, c <= MI_SLICES_PER_SEGMENT ->
  c_mi_slice_bin c <= MI_SEGMENT_BIN_MAX /\ c_mi_slice_bin c <= c_mi_slice_bin (c + 1) /\
  (1 <= c -> c <= span_bin_count (c_mi_slice_bin c)) /\
  (1 < c -> span_bin_count (c_mi_slice_bin c - 1) < c).
Proof. exact gen_slice_bin. Qed.
Print Assumptions C16gen_slice_bin.

Theorem C16gen_slice_bin_ok : forall c, c <= MI_SLICES_PER_SEGMENT -> c_mi_slice_bin_ok c = true.
Proof. exact gen_slice_bin_ok. Qed.
Print Assumptions C16gen_slice_bin_ok.

Theorem C16gen_fast_divide : forall d n, 0 < d -> d < 2 ^ 32 -> n < 2 ^ 32 ->
  c_mi_fast_divide n (fst (c_mi_get_fast_divisor d)) (snd (c_mi_get_fast_divisor d)) = n / d.
Proof. exact gen_fast_divide. Qed.
Print Assumptions C16gen_fast_divide.

Theorem C16gen_fast_divide_ok : forall d n, 0 < d -> d < 2 ^ 32 -> n < 2 ^ 32 ->
  c_mi_get_fast_divisor_ok d = true /\
  c_mi_fast_divide_ok n (fst (c_mi_get_fast_divisor d)) (snd (c_mi_get_fast_divisor d)) = true.
Proof. exact gen_fast_divide_ok. Qed.
Print Assumptions C16gen_fast_divide_ok.

Theorem C16gen_unalign_correct : forall page_start bs i off,
  0 < bs -> bs < W64 -> off < bs -> page_start + i * bs + off < W64 ->
  c__mi_page_ptr_unalign (page_start + i * bs + off) page_start (block_size_shift bs) bs = page_start + i * bs.
Proof. exact gen_unalign_correct. Qed.
Print Assumptions C16gen_unalign_correct.

Theorem C16gen_ptr_segment : forall seg p,
  seg mod MI_SEGMENT_SIZE = 0 -> 0 < seg -> seg + MI_SEGMENT_SIZE < 2 ^ 63 ->
  seg < p -> p <= seg + MI_SEGMENT_SIZE -> c__mi_ptr_segment p = seg.
Proof. exact gen_ptr_segment. Qed.
Print Assumptions C16gen_ptr_segment.

Theorem C16gen_align_up : forall sz a, 0 < a -> sz + a - 1 < W64 -> a < W64 ->
  sz <= c__mi_align_up sz a /\ c__mi_align_up sz a < sz + a /\ c__mi_align_up sz a mod a = 0 /\ c__mi_align_up_ok sz a = true.
Proof. exact gen_align_up. Qed.
Print Assumptions C16gen_align_up.

Theorem C16gen_align_down : forall sz a, 0 < a -> sz < W64 -> a < W64 ->
  c__mi_align_down sz a <= sz /\ sz < c__mi_align_down sz a + a /\ c__mi_align_down sz a mod a = 0 /\ c__mi_align_down_ok sz a = true.
Proof. exact gen_align_down. Qed.
Print Assumptions C16gen_align_down.

Theorem C16gen_divide_up : forall s d, 0 < d -> d < W64 -> s + d - 1 < W64 ->
  s <= c__mi_divide_up s d * d /\ c__mi_divide_up s d * d < s + d.
Proof. exact gen_divide_up. Qed.
Print Assumptions C16gen_divide_up.

(* non-vacuity / concrete instances of the generated functions *)
Example C16gen_ex : c_mi_bin 1000 = 24 /\ c_mi_bin 17 = 4 /\ c__mi_bin_size 24 = 1024 /\ c_mi_good_size 1000 = 1024
  /\ c_mi_slice_bin8 9 = 8 /\ c__mi_align_up 4097 4096 = 8192 /\ c__mi_align_up 10 24 = 24
  /\ c__mi_ptr_segment (5 * MI_SEGMENT_SIZE + 1) = 5 * MI_SEGMENT_SIZE
  /\ c__mi_page_ptr_unalign (4096 + 7 * 48 + 47) 4096 (block_size_shift 48) 48 = 4096 + 7 * 48
  /\ c_mi_count_size_overflow (2 ^ 33) (2 ^ 33) = (true, SIZE_MAX_)
  /\ c_mi_bitmap_mask_ 3 4 = 112.
Proof. vm_compute. repeat split. Qed.
