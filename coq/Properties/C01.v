(* Property C01, page layer -- the page invariant is inductive, allocation never hands out a live
   block, every operation only changes the status of the block it names, blocks of a page occupy
   pairwise disjoint ranges inside the page area.
   This file contains only statements, each closed by `exact <lemma>`, and Print Assumptions. *)
From Coq Require Import NArith List Bool.
From MiV Require Import Gen.Consts Model.Arith Model.Page Proofs.Base Proofs.PageProofs.
Import ListNotations.
Local Open Scope N_scope.

(* the boolean invariant evaluated on pages dumped from the implementation is the invariant *)
Theorem C01_page_inv_b_spec : forall p, page_inv_b p = true <-> page_Inv p.
Proof. exact page_inv_b_spec. Qed.
Print Assumptions C01_page_inv_b_spec.

(* initial state and preservation: every reachable state satisfies the invariant *)
Theorem C01_page_inv_init : forall bs psize z, 0 < bs -> bs <= psize -> psize / bs < 65536 ->
  page_Inv (page_init bs psize z).
Proof. exact page_inv_init. Qed.
Print Assumptions C01_page_inv_init.

Theorem C01_page_inv_step : forall p o p', page_Inv p -> page_step p o = Some p' -> page_Inv p'.
Proof. exact page_inv_step. Qed.
Print Assumptions C01_page_inv_step.

Theorem C01_page_inv_run : forall p ops p', page_Inv p -> page_run p ops = Some p' -> page_Inv p'.
Proof. exact page_inv_run. Qed.
Print Assumptions C01_page_inv_run.

(* allocation hands out a block that is not live, and only changes that block's status *)
Theorem C01_page_pop_fresh : forall p b p', page_Inv p -> page_malloc p = Some (b, p') ->
  ~ is_live p b /\ is_live p' b /\ (forall i, i <> b -> (is_live p' i <-> is_live p i)) /\
  b < capacity p /\ used p' = used p + 1.
Proof. exact page_pop_fresh. Qed.
Print Assumptions C01_page_pop_fresh.

(* freeing removes exactly that block from the live set *)
Theorem C01_page_free_frame : forall p b, page_Inv p -> is_live p b ->
  ~ is_live (page_free_local p b) b /\
  (forall i, i <> b -> (is_live (page_free_local p b) i <-> is_live p i)).
Proof. exact page_free_frame. Qed.
Print Assumptions C01_page_free_frame.

Theorem C01_page_remote_free_frame : forall p b, page_Inv p -> is_live p b ->
  ~ is_live (page_remote_free p b) b /\
  (forall i, i <> b -> (is_live (page_remote_free p b) i <-> is_live p i)).
Proof. exact page_remote_free_frame. Qed.
Print Assumptions C01_page_remote_free_frame.

(* collecting and extending never change which blocks are live; collect never reports corruption
   on a well-formed page *)
Theorem C01_page_collect_live : forall p f, page_Inv p ->
  snd (page_free_collect p f) = false /\
  (forall i, is_live (fst (page_free_collect p f)) i <-> is_live p i).
Proof. exact page_collect_live. Qed.
Print Assumptions C01_page_collect_live.

Theorem C01_page_extend_live : forall p, page_Inv p -> forall i, is_live (page_extend p) i <-> is_live p i.
Proof. exact page_extend_live. Qed.
Print Assumptions C01_page_extend_live.

Theorem C01_page_extend_within_reserved : forall p, page_Inv p -> capacity (page_extend p) <= reserved p.
Proof. exact page_extend_within_reserved. Qed.
Print Assumptions C01_page_extend_within_reserved.

(* no block is ever handed out twice while live *)
Theorem C01_page_no_double_handout : forall p ops p1 b p2,
  page_Inv p -> page_run p ops = Some p1 -> page_malloc p1 = Some (b, p2) -> ~ is_live p1 b.
Proof. exact page_no_double_handout. Qed.
Print Assumptions C01_page_no_double_handout.

(* blocks of one page occupy pairwise disjoint byte ranges inside the page area *)
Theorem C01_block_ranges_disjoint : forall start bs i j, 0 < bs -> i <> j ->
  start + i * bs + bs <= start + j * bs \/ start + j * bs + bs <= start + i * bs.
Proof. exact block_ranges_disjoint. Qed.
Print Assumptions C01_block_ranges_disjoint.

Theorem C01_block_inside_area : forall p start psize i,
  page_Inv p -> reserved p = psize / bsize p -> i < capacity p ->
  start <= start + i * bsize p /\ start + i * bsize p + bsize p <= start + psize.
Proof. exact block_inside_area. Qed.
Print Assumptions C01_block_inside_area.

(* non-vacuity: a reachable state that went through every operation (pop, local free, remote free,
   a second extend after the free list ran empty, unforced and forced collect), satisfies the
   invariant, has blocks on all three lists and live blocks, and from which the next malloc returns
   a block that is not live *)
Example C01_ex_reachable :
  option_map (fun p => (page_inv_b p, (reserved p, capacity p, used p),
                        (free p, local_free p, thread_free p), page_live p,
                        match page_malloc p with Some (b, _) => Some (b, memN b (page_live p)) | None => None end))
    (page_run (page_init 1024 65536 false)
       (repeat OpMalloc 4 ++ [OpFree 2; OpRemoteFree 0; OpExtend; OpCollect false; OpMalloc; OpMalloc;
                              OpRemoteFree 3; OpFree 1; OpCollect true; OpMalloc; OpMalloc;
                              OpFree 4; OpRemoteFree 5]))
  = Some (true, (64, 8, 3), ([0; 2; 6; 7], [4], [5]), [1; 3], Some (0, false)).
Proof. vm_compute. reflexivity. Qed.
