(* Property C17 -- hardened builds (MI_SECURE=4, MI_DEBUG>=1) detect double free, overflow and
   free-list corruption, and stay consistent.  Model: Model/Secure.v (one page, lists stored in
   memory with encoded links, padding trailer).  This file contains only statements, each closed
   by `exact <lemma>`, Print Assumptions, and Examples on a concrete page. *)
From Coq Require Import NArith List.
From MiV Require Import Gen.Consts Model.Arith Proofs.Base Model.Secure Proofs.SecureProofs.
Import ListNotations.
Local Open Scope N_scope.

(* encoding of links is invertible on all 64-bit values (except the stand-in of NULL, which
   decodes to NULL by design) *)
Theorem C17_decode_encode : forall null p k0 k1,
  null < W64 -> p < W64 -> k0 < W64 -> k1 < W64 -> p <> null ->
  ptr_decode null (ptr_encode null p k0 k1) k0 k1 = p.
Proof. exact decode_encode. Qed.
Print Assumptions C17_decode_encode.

(* a second free of a block that is on `free`, `local_free` or `thread_free` of a well-formed page
   reports exactly EAGAIN and leaves the page state unchanged.  (The model keeps the page; the
   hypothesis of the property text -- another live block in the area -- is what keeps the real
   page from being retired.) *)
Theorem C17_double_free_detected : forall c s i, Inv c s -> on_lists c s i ->
  free_block_local c s i = Ok (s, [EAGAIN_]).
Proof. exact double_free_detected. Qed.
Print Assumptions C17_double_free_detected.

(* ... also after earlier detected errors, unless the link of that very block was overwritten *)
Theorem C17_double_free_detected_after_errors : forall c s live i, WInv c s live -> on_lists c s i ->
  snd (block_next c (mem s) i) = [] ->
  exists e, free_block_local c s i = Ok (s, e) /\ In EAGAIN_ e.
Proof. exact double_free_detected_weak. Qed.
Print Assumptions C17_double_free_detected_after_errors.

(* a block on none of the lists is never reported as double free, whatever its bytes are (the
   invariant does not constrain the memory of live blocks): the only errors are those of the
   padding check, and the block is pushed on local_free *)
Theorem C17_no_false_double_free : forall c s i, Inv c s -> i < cap s -> ~ on_lists c s i ->
  exists s', free_block_local c s i = Ok (s', check_padding c (mem s i) (addr c i)) /\
             lfree s' = Some i /\ ~ In EAGAIN_ (check_padding c (mem s i) (addr c i)).
Proof. exact no_false_double_free. Qed.
Print Assumptions C17_no_false_double_free.

Theorem C17_no_false_double_free_after_errors : forall c s live i, WInv c s live -> In i live ->
  exists s' e, free_block_local c s i = Ok (s', e) /\ ~ In EAGAIN_ e /\ lfree s' = Some i.
Proof. exact no_false_double_free_weak. Qed.
Print Assumptions C17_no_false_double_free_after_errors.

(* malloc writes the padding; an untouched block passes the check; one byte at offset `req`
   different from the expected byte (0xDE when delta > 0, 0x00 = low canary byte when delta = 0;
   writing the expected byte changes nothing) is reported as EFAULT, for every request size *)
Theorem C17_malloc_padded : forall c s req s' i e, bsz c < W32 -> PAD <= bsz c ->
  malloc c s req = Ok (s', Some i, e) -> padded c (mem s' i) (addr c i) req.
Proof. exact malloc_padded. Qed.
Print Assumptions C17_malloc_padded.

Theorem C17_no_false_overflow : forall c b a req, usable c < W32 -> padded c b a req -> check_padding c b a = [].
Proof. exact no_false_overflow. Qed.
Print Assumptions C17_no_false_overflow.

Theorem C17_overflow_detected : forall c b a req v, usable c < W32 -> padded c b a req ->
  v < 256 -> v <> expected_byte c req -> check_padding c (fill b req 1 v) a = [EFAULT_].
Proof. exact overflow_detected. Qed.
Print Assumptions C17_overflow_detected.

Theorem C17_padding_detects_foreign_byte : forall c s live i req v,
  WInv c s live -> In i live -> padded c (mem s i) (addr c i) req ->
  v < 256 -> v <> expected_byte c req ->
  exists s' e, free_block_local c (overflow_write c s i v) i = Ok (s', e) /\
               In EFAULT_ e /\ ~ In EAGAIN_ e /\ lfree s' = Some i.
Proof. exact padding_detects_foreign_byte. Qed.
Print Assumptions C17_padding_detects_foreign_byte.

(* a link overwritten with w whose decoding is neither NULL nor inside the page area (the test of
   mi_is_in_same_page: same segment and start <= q < start + size; alignment is NOT tested):
   reaching it reports EFAULT, every list through it ends there, malloc popping it empties `free` *)
Theorem C17_corrupt_link_cut : forall c s i w, w < W64 ->
  let n := ptr_decode (pgaddr c) w (k0 c) (k1 c) in
  n <> 0 -> in_same_page c n = false ->
  let s' := overwrite_link s i w in
  block_next c (mem s') i = (NNull, [EFAULT_]) /\
  (forall h l, chain c (mem s') h l -> In i l -> exists a, l = a ++ [i]) /\
  (free s' = Some i -> forall req, req <= usable c ->
     exists s'', malloc c s' req = Ok (s'', Some i, [EFAULT_]) /\ free s'' = None).
Proof. exact corrupt_link_cut. Qed.
Print Assumptions C17_corrupt_link_cut.

(* the invariant that survives: every allowed operation -- regular ones on held blocks, second
   free of a listed block, overflow byte, link of a freed block overwritten with a value that does
   not decode into the area -- is defined, keeps WInv, and malloc only returns blocks that are not
   held and below capacity *)
Theorem C17_step_weak_inv : forall c s live o, WInv c s live -> allowed c s live o ->
  exists s' r e, step c s o = Ok (s', r, e) /\ WInv c s' (ghost live o r) /\
                 (forall i, r = Some i -> ~ In i live /\ i < cap s).
Proof. exact step_winv. Qed.
Print Assumptions C17_step_weak_inv.

Theorem C17_inv_implies_weak_inv : forall c s live, Inv c s -> NoDup live ->
  (forall i, In i live -> i < cap s /\ ~ on_lists c s i) -> WInv c s live.
Proof. exact inv_winv. Qed.
Print Assumptions C17_inv_implies_weak_inv.

Theorem C17_weak_inv_after_error : forall c s live s' live',
  WInv c s live -> steps c s live s' live' -> WInv c s' live'.
Proof. exact weak_inv_after_error. Qed.
Print Assumptions C17_weak_inv_after_error.

Theorem C17_stays_usable : forall c s live s' live' o,
  WInv c s live -> steps c s live s' live' -> allowed c s' live' o ->
  exists s'' r e, step c s' o = Ok (s'', r, e).
Proof. exact stays_usable. Qed.
Print Assumptions C17_stays_usable.

Theorem C17_no_double_handout_after : forall c s live s' live' req s'' i e,
  WInv c s live -> steps c s live s' live' -> req <= usable c ->
  malloc c s' req = Ok (s'', Some i, e) -> ~ In i live' /\ i < cap s'.
Proof. exact no_double_handout_after. Qed.
Print Assumptions C17_no_double_handout_after.

Theorem C17_only_area_addresses : forall c s live s' live' req s'' i e,
  WInv c s live -> steps c s live s' live' -> req <= usable c ->
  malloc c s' req = Ok (s'', Some i, e) ->
  pstart c <= addr c i /\ addr c i + bsz c <= pstart c + psize c.
Proof. exact only_area_addresses. Qed.
Print Assumptions C17_only_area_addresses.

(* the walk of _mi_page_thread_free_collect makes at most capacity+1 steps on ANY memory (the
   fuel capacity+2 is never exhausted); when it gives up it reports EFAULT and drops the list *)
Theorem C17_tf_walk_bounded : forall c s,
  thread_free_collect c s <> OutOfFuel /\
  forall s' e, thread_free_collect c s = Ok (s', e) ->
    tfree s' = None /\ free s' = free s /\ cap s' = cap s /\
    ((lfree s' = lfree s /\ used s' = used s /\ mem s' = mem s /\ (tfree s = None \/ exists e0, e = e0 ++ [EFAULT_])) \/
     (lfree s' = tfree s /\ tfree s <> None)).
Proof. exact tf_walk_bounded. Qed.
Print Assumptions C17_tf_walk_bounded.

(* ---- non-vacuity: a concrete page of 32-byte blocks (24 usable), secure build ---- *)
(* ex_c: 32-byte blocks, 2045 reserved, area inside one segment; ex_s1: the page after its first
   extension (128 blocks); both defined at the end of Proofs/SecureProofs.v *)

Example C17_ex_inv : Inv ex_c ex_s1 /\ cap ex_s1 = 128.
Proof. vm_compute. split; reflexivity. Qed.

(* two blocks allocated, block 0 freed twice: the second free reports EAGAIN (11) and changes nothing *)
Example C17_ex_double_free :
  run_obs ex_c ex_s1 [OMalloc 24; OMalloc 24; OFree 0; OFree 0] =
  match run_obs ex_c ex_s1 [OMalloc 24; OMalloc 24; OFree 0] with
  | Some (out, o) => Some (out ++ [(None, [11])], o)
  | None => None
  end
  /\ exists o, run_obs ex_c ex_s1 [OMalloc 24; OMalloc 24; OFree 0] = Some ([(Some 0, []); (Some 1, []); (None, [])], o).
Proof. split; [vm_compute; reflexivity|eexists; vm_compute; reflexivity]. Qed.

(* overflow by one byte: delta = 4 (fill byte), delta = 0 (canary byte); the expected byte itself
   is not a change of memory and is not reported *)
Example C17_ex_overflow :
  (exists o, run_obs ex_c ex_s1 [OMalloc 20; OMalloc 24; OOverflow 0 65; OFree 0] = Some ([(Some 0, []); (Some 1, []); (None, []); (None, [14])], o)) /\
  (exists o, run_obs ex_c ex_s1 [OMalloc 24; OMalloc 24; OOverflow 0 65; OFree 0] = Some ([(Some 0, []); (Some 1, []); (None, []); (None, [14])], o)) /\
  (exists o, run_obs ex_c ex_s1 [OMalloc 24; OMalloc 24; OOverflow 0 0; OFree 0] = Some ([(Some 0, []); (Some 1, []); (None, []); (None, [])], o)) /\
  (exists o, run_obs ex_c ex_s1 [OMalloc 1; OMalloc 24; OOverflow 0 65; OFree 0] = Some ([(Some 0, []); (Some 1, []); (None, []); (None, [14])], o)).
Proof. repeat split; eexists; vm_compute; reflexivity. Qed.

(* a freed block's link overwritten with garbage: the forced collect reports EFAULT (14) when it
   reaches block 1, the list is cut there (block 0 behind it is lost), later mallocs are fresh *)
Example C17_ex_link_cut :
  exists o, run_obs ex_c ex_s1 [OMalloc 24; OMalloc 24; OMalloc 24; OFree 0; OFree 1; OOverwriteLink 1 12345;
                                OCollect true; OMalloc 24; OMalloc 24] =
            Some ([(Some 0, []); (Some 1, []); (Some 2, []); (None, []); (None, []); (None, []);
                   (None, [14]); (Some 1, []); (Some 3, [])], o).
Proof. eexists; vm_compute; reflexivity. Qed.

Example C17_ex_link_hyp :
  let n := ptr_decode (pgaddr ex_c) 12345 (k0 ex_c) (k1 ex_c) in n <> 0 /\ in_same_page ex_c n = false.
Proof. vm_compute. split; [discriminate|reflexivity]. Qed.

(* a cyclic thread-free list (block 0 linked to itself: a forged link that decodes INTO the area,
   about which the property makes no claim) still terminates: EFAULT "corrupted thread-free list" *)
Example C17_ex_cyclic_tf :
  exists o, run_obs ex_c ex_s1 [OMalloc 24; OMalloc 24; ORemoteFree 0;
                                OOverwriteLink 0 (enc ex_c (addr ex_c 0)); OTfCollect] =
            Some ([(Some 0, []); (Some 1, []); (None, []); (None, []); (None, [14])], o).
Proof. eexists; vm_compute; reflexivity. Qed.
