(* Property C01, COMPOSITION of the layers (DESIGN.md section 3, C01: `C01_refines_map`).
   Model/Compose.v is one concrete memory state: segments at base addresses (pairwise disjoint: the OS
   layer's contract C11_os_alloc_aligned_spec), each with its Span.v slice array and one Page.v page per span
   in use, plus a ghost table of the live blocks.  mem_inv = span_Inv of every segment /\ page_Inv of every
   page /\ page area = the one the span layer assigns /\ ghost = complement of the three lists.
   abs : mem -> Api.state is the map  user pointer |-> block  that Model/Api.v works on.  Proved here:
     * mem_inv holds in every reachable state (any sequence of malloc / free / remote free / collect /
       extend / fresh page / retire, any choices);
     * C01_compose_answer_ok: the block malloc returns satisfies the contract `answer_ok` that every theorem
       of the API layer (C03-C06) assumes of its oracle -- ApiOpen.answer_contract_stmt is discharged;
     * C01_compose_live_disjoint / _inside: any two live blocks of abs m are disjoint, each inside its page
       area, inside its span, inside its segment;
     * C01_compose_free_resolves: the pointer resolution of mi_free finds exactly the block an address lies in
       (C16 round trips), and free removes exactly it;
     * C01_refines_map: every operation commutes with abs.
     * C01_compose_malloc_progress / _huge_progress: the dynamic checks of the model never fail for a request
       served from a fresh segment (normal or huge).
   The layer theorems (Properties/C01.v, C01span.v, C16.v) are reused, not re-proved.  What is not shown is in
   Proofs/ComposeOpen.v.  This file contains only statements closed by `exact`, Print Assumptions, Examples. *)
From Coq Require Import NArith List Bool.
From MiV Require Import Gen.Consts Gen.Bins Model.Arith Model.Page Model.Span Model.Compose
  Proofs.ComposeInv Proofs.ComposeOps Proofs.ComposeSeg Proofs.ComposeResolve Proofs.ComposeProofs Proofs.ComposeRefl
  Proofs.ComposeProgress.
From MiV Require Model.Api Proofs.ApiProofs Proofs.ApiOpen.
Import ListNotations.
Local Open Scope N_scope.

(* ---- the boolean evaluated on states rebuilt from dumps of the implementation is the invariant ---- *)
Theorem C01_compose_inv_b_spec : forall m, mem_inv_b m = true <-> mem_inv m.
Proof. exact mem_inv_b_spec. Qed.
Print Assumptions C01_compose_inv_b_spec.

(* ---- the invariant is inductive ---- *)
Theorem C01_compose_inv_init : mem_inv [].
Proof. exact mem_inv_nil. Qed.
Print Assumptions C01_compose_inv_init.

Theorem C01_compose_inv_run : forall m ops m', mem_inv m -> mrun m ops = Some m' -> mem_inv m'.
Proof. exact mem_inv_run. Qed.
Print Assumptions C01_compose_inv_run.

Theorem C01_compose_reachable_inv : forall m, reachable m -> mem_inv m.
Proof. exact compose_reachable_inv. Qed.
Print Assumptions C01_compose_reachable_inv.

(* the abstraction of a valid state is a well-formed state of the API layer *)
Theorem C01_compose_abs_wf : forall m, mem_inv m -> ApiProofs.wf (abs m).
Proof. exact abs_wf. Qed.
Print Assumptions C01_compose_abs_wf.

Theorem C01_compose_abs_lookup : forall m q b, mem_inv m ->
  (Api.lookup (abs m) q = Some b <-> exists u r, In (q, u, r) (live_blocks m) /\ b = blk u r).
Proof. exact abs_lookup. Qed.
Print Assumptions C01_compose_abs_lookup.

(* ---- C01_compose_answer_ok ---- *)
Theorem C01_compose_answer_ok : forall m size ch m' p, mem_inv m -> mmalloc m size ch = Some (m', p) ->
  let u := usable_at m' p in
  ApiProofs.answer_ok (abs m) size (Some (p, u, ApiProofs.dirty u)) /\
  ApiProofs.st_eq (abs m') (Api.add (abs m) p (blk u size)) /\ mem_inv m'.
Proof. exact compose_answer_ok. Qed.
Print Assumptions C01_compose_answer_ok.

(* the contract of ApiOpen.v (the general form for a layer with a concrete state), for every choice *)
Theorem C01_compose_answer_contract : forall ch, ApiOpen.answer_contract_for_stmt mem_inv abs (compose_answer ch).
Proof. exact compose_answer_contract. Qed.
Print Assumptions C01_compose_answer_contract.

(* ApiOpen.answer_contract_stmt itself: every answer function on abstract states whose answers are those of
   this layer in a valid concrete state that abstracts to the abstract state satisfies the contract *)
Theorem C01_compose_discharges_answer_contract : forall f : Api.state -> N -> Api.answer,
  (forall st size, ApiProofs.wf st -> f st size = None \/
     exists m ch, mem_inv m /\ ApiProofs.st_eq (abs m) st /\ f st size = compose_answer ch m size) ->
  ApiOpen.answer_contract_stmt f.
Proof. exact compose_discharges_answer_contract. Qed.
Print Assumptions C01_compose_discharges_answer_contract.

(* the dynamic checks of the model (the assertions of the C code) never fail on the path new segment / new page
   / pop: a request up to MI_LARGE_OBJ_SIZE_MAX with a segment address the OS contract allows always succeeds
   (usable >= size by C16_bin_size_ge / C16_align_up) *)
Theorem C01_compose_malloc_progress : forall m size base, mem_inv m -> size <= MI_LARGE_OBJ_SIZE_MAX ->
  base_ok m base MI_SLICES_PER_SEGMENT = true ->
  exists m' p, mmalloc m size (ChFreshSeg base) = Some (m', p).
Proof. exact malloc_fresh_seg_progress. Qed.
Print Assumptions C01_compose_malloc_progress.

(* ... and a huge block (above MI_LARGE_OBJ_SIZE_MAX, below 2^47 bytes) in its own segment *)
Theorem C01_compose_malloc_huge_progress : forall m size base, mem_inv m ->
  MI_LARGE_OBJ_SIZE_MAX < size -> size < 2^47 ->
  base_ok m base ((block_size_of size + 131071) / 65536) = true ->
  exists m' p, mmalloc m size (ChHuge base 0) = Some (m', p).
Proof. exact malloc_huge_progress. Qed.
Print Assumptions C01_compose_malloc_huge_progress.

(* ---- C01_compose_live_disjoint ---- *)
Theorem C01_compose_live_disjoint : forall m q1 b1 q2 b2, reachable m ->
  Api.lookup (abs m) q1 = Some b1 -> Api.lookup (abs m) q2 = Some b2 -> q1 <> q2 ->
  q1 + Api.b_usable b1 <= q2 \/ q2 + Api.b_usable b2 <= q1.
Proof. exact compose_live_disjoint_reachable. Qed.
Print Assumptions C01_compose_live_disjoint.

Theorem C01_compose_live_inside : forall m q b, reachable m -> Api.lookup (abs m) q = Some b ->
  exists cs cp c,
    In cs m /\ In cp (cs_pages cs) /\ In (cp_idx cp, c) (used_spans (fst (cs_st cs))) /\
    let start := fst (page_area cs (cp_idx cp)) in let psize := snd (page_area cs (cp_idx cp)) in
    let span_lo := cs_base cs + cp_idx cp * MI_SEGMENT_SLICE_SIZE in
    let span_hi := cs_base cs + (cp_idx cp + c) * MI_SEGMENT_SLICE_SIZE in
    start <= q /\ q + Api.b_usable b <= start + psize /\
    span_lo <= start /\ start + psize = span_hi /\
    cs_base cs < span_lo /\ span_hi <= cs_base cs + seg_size cs /\
    Api.b_req b <= Api.b_usable b /\ Api.b_usable b = bsize (cp_page cp).
Proof. exact compose_live_inside_reachable. Qed.
Print Assumptions C01_compose_live_inside.

(* the same for any state that satisfies the invariant (e.g. a state rebuilt from a dump, by mem_inv_b) *)
Theorem C01_compose_live_disjoint_inv : forall m q1 b1 q2 b2, mem_inv m ->
  Api.lookup (abs m) q1 = Some b1 -> Api.lookup (abs m) q2 = Some b2 -> q1 <> q2 ->
  q1 + Api.b_usable b1 <= q2 \/ q2 + Api.b_usable b2 <= q1.
Proof. exact compose_live_disjoint. Qed.
Print Assumptions C01_compose_live_disjoint_inv.

(* blocks of the state, live or not: different blocks occupy disjoint ranges *)
Theorem C01_compose_blocks_disjoint : forall m cs1 cp1 b1 cs2 cp2 b2,
  mem_inv m -> block_at m cs1 cp1 b1 -> block_at m cs2 cp2 b2 ->
  (cs_base cs1, cp_idx cp1, b1) <> (cs_base cs2, cp_idx cp2, b2) ->
  block_addr cs1 cp1 b1 + bsize (cp_page cp1) <= block_addr cs2 cp2 b2 \/
  block_addr cs2 cp2 b2 + bsize (cp_page cp2) <= block_addr cs1 cp1 b1.
Proof. exact blocks_disjoint. Qed.
Print Assumptions C01_compose_blocks_disjoint.

(* ---- C01_compose_free_resolves ---- *)
Theorem C01_compose_free_resolves : forall m cs cp b r p remote, mem_inv m -> live_at m cs cp b r ->
  let lo := block_addr cs cp b in
  lo <= p -> p < lo + bsize (cp_page cp) -> (has_aligned (cp_page cp) = true \/ p = lo) ->
  (forall c, In (cp_idx cp, c) (used_spans (fst (cs_st cs))) -> resolvable_b cs (cp_idx cp) c p = true) ->
  resolve m p = Some (cs_base cs, cp_idx cp, b) /\
  exists m', free_block m p remote = Some m' /\ mem_inv m' /\
    (forall x, In x (live_blocks m') <-> In x (live_blocks m) /\ fst (fst x) <> lo).
Proof. exact free_resolves. Qed.
Print Assumptions C01_compose_free_resolves.

(* conversely: an address that resolves to a live block lies inside that block *)
Theorem C01_compose_resolve_sound : forall m p cs cp b r, mem_inv m -> p < W64 -> live_at m cs cp b r ->
  resolve m p = Some (cs_base cs, cp_idx cp, b) ->
  block_addr cs cp b <= p /\ p < block_addr cs cp b + bsize (cp_page cp).
Proof. exact resolve_sound. Qed.
Print Assumptions C01_compose_resolve_sound.

(* the side condition holds for every address of a block of a normal segment ... *)
Theorem C01_compose_resolvable_normal : forall m cs cp b r p, mem_inv m -> live_at m cs cp b r ->
  kind (fst (cs_st cs)) = SegNormal ->
  block_addr cs cp b <= p -> p < block_addr cs cp b + bsize (cp_page cp) ->
  forall c, In (cp_idx cp, c) (used_spans (fst (cs_st cs))) -> resolvable_b cs (cp_idx cp) c p = true.
Proof. exact resolvable_normal. Qed.
Print Assumptions C01_compose_resolvable_normal.

(* ... and for the start address of every live block (huge blocks too) *)
Theorem C01_compose_resolvable_start : forall m cs cp b r, mem_inv m -> live_at m cs cp b r ->
  forall c, In (cp_idx cp, c) (used_spans (fst (cs_st cs))) ->
  resolvable_b cs (cp_idx cp) c (block_addr cs cp b) = true.
Proof. exact resolvable_start. Qed.
Print Assumptions C01_compose_resolvable_start.

(* hence: mi_free of the address of a live block succeeds and commutes with abs *)
Theorem C01_compose_free_commutes : forall m p b remote, mem_inv m -> Api.lookup (abs m) p = Some b ->
  exists m', free_block m p remote = Some m' /\ mem_inv m' /\ ApiProofs.st_eq (abs m') (Api.free (abs m) p).
Proof. exact compose_free_commutes. Qed.
Print Assumptions C01_compose_free_commutes.

(* ---- C01_refines_map ---- *)
Theorem C01_refines_map : forall m o m', mem_inv m -> mstep m o = Some m' -> mem_inv m' /\ refines m o m'.
Proof. exact compose_refines. Qed.
Print Assumptions C01_refines_map.

Theorem C01_refines_map_run : forall m ops m', mem_inv m -> mrun m ops = Some m' -> refines_run m ops m'.
Proof. exact compose_refines_run. Qed.
Print Assumptions C01_refines_map_run.

(* ---- Examples: two normal segments, pages of four size classes (small 112 / 32, medium 5120 / 20480,
   large 200704 bytes), a huge block of 40 MB in its own segment; frees, a collect, an extend, a retire ---- *)
Definition B1 : N := 5 * MI_SEGMENT_SIZE.
Definition B2 : N := 9 * MI_SEGMENT_SIZE.
Definition B3 : N := 20 * MI_SEGMENT_SIZE.
Definition ex_ops : list mop :=
  [MMalloc 100 (ChFreshSeg B1); MMalloc 100 (ChPage B1 1); MMalloc 5000 (ChFreshPage B1);
   MMalloc 20000 (ChFreshPage B1); MMalloc 200000 (ChFreshPage B1); MMalloc 17 (ChFreshSeg B2);
   MMalloc 40000000 (ChHuge B3 0); MMalloc 101 (ChPage B1 1); MFree 167837936;
   MRemoteFree 167838048; MMalloc 104 (ChCollect B1 1 false); MFree 167905280;
   MRetire B1 2; MCollect B1 1 true; MExtend B1 1].
Definition ex_mem : mem := match mrun [] ex_ops with Some m => m | None => [] end.

Example C01_compose_example_reachable : mrun [] ex_ops = Some ex_mem.
Proof. vm_compute. reflexivity. Qed.

Example C01_compose_example_inv :
  mem_inv_b ex_mem = true /\
  live_blocks ex_mem =
    [(671154176, 41943040, 40000000); (302055520, 32, 17); (168493056, 200704, 200000);
     (167976960, 20480, 20000); (167838160, 112, 104); (167837824, 112, 100)] /\
  map (fun cs => (cs_base cs, map cp_idx (cs_pages cs), used_spans (fst (cs_st cs)))) ex_mem =
    [(B3, [1], [(0, 1); (1, 640)]); (B2, [1], [(0, 1); (1, 1)]); (B1, [11; 3; 1], [(0, 1); (1, 1); (3, 8); (11, 4)])].
Proof. vm_compute. repeat split; reflexivity. Qed.

(* every live block's address resolves to it; an address 3000 bytes into the huge block and one inside a
   20480-byte block do not resolve without the has_aligned flag (they are not block starts) *)
Example C01_compose_example_resolve :
  map (fun x => resolve ex_mem (fst (fst x))) (live_blocks ex_mem) =
    [Some (B3, 1, 0); Some (B2, 1, 0); Some (B1, 11, 0); Some (B1, 3, 0); Some (B1, 1, 3); Some (B1, 1, 0)] /\
  resolve ex_mem (B3 + 65536 + 3000) = None /\ resolve ex_mem (167976960 + 7) = None.
Proof. vm_compute. repeat split; reflexivity. Qed.

(* freeing the huge block and retiring its page releases the segment; the other blocks are untouched *)
Example C01_compose_example_free_huge :
  option_map (fun m => (mem_inv_b m, map cs_base m, length (live_blocks m)))
             (mrun ex_mem [MFree (B3 + 65536); MRetire B3 1]) = Some (true, [B2; B1], 5%nat).
Proof. vm_compute. reflexivity. Qed.

(* the abstraction on a small state: two blocks of 112 bytes; the oracle answer for the next malloc satisfies
   the boolean form of answer_ok *)
Definition ex_small : mem := match mrun [] [MMalloc 100 (ChFreshSeg B1); MMalloc 60 (ChFreshPage B1)] with Some m => m | None => [] end.
Example C01_compose_example_abs :
  map (fun e => (fst e, Api.b_usable (snd e), Api.b_req (snd e), Api.b_adjust (snd e))) (abs ex_small) =
    [(167903424, 64, 60, 0); (167837824, 112, 100, 0)] /\
  ApiProofs.wf_b (abs ex_small) = true /\
  ApiProofs.answer_ok_b (abs ex_small) 100 (compose_answer (ChPage B1 1) ex_small 100) = true /\
  option_map (fun a => (fst (fst a), snd (fst a))) (compose_answer (ChPage B1 1) ex_small 100) = Some (167837936, 112).
Proof. vm_compute. repeat split; reflexivity. Qed.
